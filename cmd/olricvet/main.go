// olricvet decides structural necessary conditions of the olric properties C01..C20 by
// static analysis of /repo's current source tree. See /verif/DESIGN.md.
package main

import (
	"encoding/json"
	"fmt"
	"os"
	"sort"

	"olricvet/internal/core"
	"olricvet/internal/rules"
)

func usage() {
	fmt.Fprintln(os.Stderr, "usage: olricvet check <property> [quick|thorough] | explain <report.json> | list")
	os.Exit(2)
}

func main() {
	if len(os.Args) < 2 {
		usage()
	}
	switch os.Args[1] {
	case "list":
		ids := rules.IDs()
		sort.Strings(ids)
		for _, id := range ids {
			fmt.Println(id)
		}
	case "fingerprints":
		p, err := core.Load()
		if err != nil {
			fmt.Fprintln(os.Stderr, err)
			os.Exit(2)
		}
		b, _ := json.MarshalIndent(p.Fingerprints(), "", " ")
		fmt.Println(string(b))
	case "check":
		if len(os.Args) < 3 {
			usage()
		}
		tier := "quick"
		if len(os.Args) > 3 {
			tier = os.Args[3]
		}
		os.Exit(check(os.Args[2], tier))
	case "explain":
		if len(os.Args) < 3 {
			usage()
		}
		os.Exit(explain(os.Args[2]))
	default:
		usage()
	}
}

// checkAll runs every registered property on one load of the tree (used by the
// seeded-change matrix and the sensitivity run; the registered commands run one
// property per process).
func checkAll(tier string) int {
	p, err := core.Load()
	if err != nil {
		fmt.Fprintf(os.Stderr, "olricvet: cannot analyse the tree: %v\n", err)
		return 2
	}
	ids := rules.IDs()
	sort.Strings(ids)
	worst := 0
	for _, id := range ids {
		prop := rules.Lookup(id)
		r := core.NewRun(p, id, tier)
		r.Explain = prop.Explain
		r.Assume = prop.Assume
		func() {
			defer func() {
				if e := recover(); e != nil {
					r.Unknown("analyser", "panic", "-", fmt.Sprintf("analyser panic: %v", e))
				}
			}()
			prop.Run(r)
		}()
		if c := r.Finish(); c > worst {
			worst = c
		}
	}
	return worst
}

func check(id, tier string) (code int) {
	if id == "all" {
		return checkAll(tier)
	}
	prop := rules.Lookup(id)
	if prop == nil {
		fmt.Fprintf(os.Stderr, "no check registered for %s\n", id)
		return 2
	}
	p, err := core.Load()
	if err != nil {
		fmt.Fprintf(os.Stderr, "olricvet: cannot analyse the tree: %v\n", err)
		return 2
	}
	r := core.NewRun(p, id, tier)
	r.Explain = prop.Explain
	r.Assume = prop.Assume
	func() {
		defer func() {
			if e := recover(); e != nil {
				r.Unknown("analyser", "panic", "-", fmt.Sprintf("analyser panic: %v", e))
			}
		}()
		prop.Run(r)
	}()
	if tier == "thorough" {
		r.Sensitivity = sensitivity(id, prop)
	}
	return r.Finish()
}

// explain re-runs the property named in a report and prints the obligation again.
func explain(path string) int {
	b, err := os.ReadFile(path)
	if err != nil {
		fmt.Fprintln(os.Stderr, err)
		return 2
	}
	var rep map[string]any
	if err := json.Unmarshal(b, &rep); err != nil {
		fmt.Fprintln(os.Stderr, err)
		return 2
	}
	fmt.Printf("report %s:\n%s\n", path, b)
	id, _ := rep["property"].(string)
	tier, _ := rep["tier"].(string)
	if id == "" {
		return 2
	}
	fmt.Printf("re-running check %s on the current tree:\n", id)
	return check(id, tier)
}
