// olricvet decides structural necessary conditions of the olric properties C01..C20 by
// static analysis of /repo's current source tree. See /verif/DESIGN.md.
package main

import (
	"encoding/json"
	"fmt"
	"os"
	"runtime/debug"
	"sort"

	"olricvet/internal/core"
	"olricvet/internal/rules"
)

func usage() {
	fmt.Fprintln(os.Stderr, "usage: olricvet check <property> [quick|thorough] | explain <report.json> | list")
	os.Exit(2)
}

func main() {
	if len(os.Args) < 2 {
		usage()
	}
	switch os.Args[1] {
	case "list":
		ids := rules.IDs()
		sort.Strings(ids)
		for _, id := range ids {
			fmt.Println(id)
		}
	case "fingerprints":
		p, err := core.Load()
		if err != nil {
			fmt.Fprintln(os.Stderr, err)
			os.Exit(2)
		}
		b, _ := json.MarshalIndent(p.Fingerprints(), "", " ")
		fmt.Println(string(b))
	case "loopsurvey":
		p, err := core.Load()
		if err != nil {
			fmt.Fprintln(os.Stderr, err)
			os.Exit(2)
		}
		for _, e := range rules.LoopExits(p) {
			fmt.Println(e.String(p))
		}
	case "errsurvey":
		p, err := core.Load()
		if err != nil {
			fmt.Fprintln(os.Stderr, err)
			os.Exit(2)
		}
		fates := rules.ErrFates(p)
		fmt.Fprintf(os.Stderr, "%d error-returning calls\n", len(fates))
		for _, e := range fates {
			if e.Fate != "handled" {
				fmt.Printf("%s\t%s\t%s\t%s\n", e.Fate, e.Fn.Name, e.Callee, p.Pos(e.Pos))
			}
		}
	case "check":
		if len(os.Args) < 3 {
			usage()
		}
		tier := "quick"
		if len(os.Args) > 3 {
			tier = os.Args[3]
		}
		os.Exit(check(os.Args[2], tier))
	case "explain":
		if len(os.Args) < 3 {
			usage()
		}
		os.Exit(explain(os.Args[2]))
	default:
		usage()
	}
}

// checkAll runs every registered property on one load of the tree (used by the
// seeded-change matrix and the sensitivity run; the registered commands run one
// property per process).
func checkAll(tier string) int {
	p, err := core.Load()
	if err != nil {
		fmt.Fprintf(os.Stderr, "olricvet: cannot analyse the tree: %v\n", err)
		return 2
	}
	ids := rules.IDs()
	sort.Strings(ids)
	worst := 0
	for _, id := range ids {
		prop := rules.Lookup(id)
		r := core.NewRun(p, id, tier)
		r.Explain = prop.Explain
		r.Assume = prop.Assume
		func() {
			defer func() {
				if e := recover(); e != nil {
					r.Unknown("analyser", "panic", "-", fmt.Sprintf("analyser panic: %v", e))
				}
			}()
			prop.Run(r)
		}()
		if c := r.Finish(); c > worst {
			worst = c
		}
	}
	return worst
}

func check(id, tier string) (code int) {
	if id == "all" {
		return checkAll(tier)
	}
	prop := rules.Lookup(id)
	if prop == nil {
		fmt.Fprintf(os.Stderr, "no check registered for %s\n", id)
		return 2
	}
	p, err := core.Load()
	if err != nil {
		fmt.Fprintf(os.Stderr, "olricvet: cannot analyse the tree: %v\n", err)
		return 2
	}
	r := core.NewRun(p, id, tier)
	r.Explain = prop.Explain
	r.Assume = prop.Assume
	func() {
		defer func() {
			if e := recover(); e != nil {
				r.Unknown("analyser", "panic", "-", fmt.Sprintf("analyser panic: %v", e))
			}
		}()
		prop.Run(r)
	}()
	if tier == "thorough" {
		r.DropProgram()
		p = nil
		debug.FreeOSMemory()
		variants(r, id, prop)
		debug.FreeOSMemory()
		r.Sensitivity = sensitivity(id, prop)
	}
	return r.Finish()
}

// explain re-runs the property named in a report and prints the obligation again.
func explain(path string) int {
	b, err := os.ReadFile(path)
	if err != nil {
		fmt.Fprintln(os.Stderr, err)
		return 2
	}
	var rep map[string]any
	if err := json.Unmarshal(b, &rep); err != nil {
		fmt.Fprintln(os.Stderr, err)
		return 2
	}
	fmt.Printf("report %s:\n%s\n", path, b)
	id, _ := rep["property"].(string)
	tier, _ := rep["tier"].(string)
	if id == "" {
		return 2
	}
	fmt.Printf("re-running check %s on the current tree:\n", id)
	return check(id, tier)
}

// buildVariants are the build tags under which the repository selects other source files
// than the default build does (internal/util/safe.go replaces the unsafe string/byte
// conversions under "appengine").
var buildVariants = []string{"appengine"}

// variants re-runs the property's rules on the tree as built under each alternative set
// of build tags (thorough tier). An alarm that the default build does not raise is added
// to the run, marked with the tags; everything else is only counted.
func variants(r *core.Run, id string, prop *rules.Property) {
	have := map[string]bool{}
	for _, o := range r.Obls {
		if o.Verdict == core.Violated || o.Verdict == core.Undecided {
			have[o.Rule+"|"+o.Construct] = true
		}
	}
	savedNorm := append([]string(nil), core.Normalised...)
	savedRen := map[string]string{}
	for k, v := range core.Renames {
		savedRen[k] = v
	}
	for _, tags := range buildVariants {
		p2, err := core.LoadWithTags(tags)
		if err != nil {
			r.Notes = append(r.Notes, fmt.Sprintf("build variant -tags=%s: cannot be loaded: %v", tags, err))
			continue
		}
		r2 := core.NewRun(p2, id, r.Tier)
		r2.Quiet = true
		func() {
			defer func() {
				if e := recover(); e != nil {
					r2.Unknown("analyser", "panic", "-", fmt.Sprintf("analyser panic: %v", e))
				}
			}()
			prop.Run(r2)
		}()
		extra := 0
		for _, o := range r2.Obls {
			if (o.Verdict == core.Violated || o.Verdict == core.Undecided) && !have[o.Rule+"|"+o.Construct] {
				o.Construct += " [build -tags=" + tags + "]"
				r.Obls = append(r.Obls, o)
				extra++
			}
		}
		r.Notes = append(r.Notes, fmt.Sprintf("build variant -tags=%s: %d packages, %d obligations, %d alarms not raised by the default build", tags, len(p2.Pkgs), len(r2.Obls), extra))
	}
	// the evidence reports the default build's rename/normalisation records
	core.Normalised = savedNorm
	for k := range core.Renames {
		delete(core.Renames, k)
	}
	for k, v := range savedRen {
		core.Renames[k] = v
	}
}
