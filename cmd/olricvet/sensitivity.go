package main

import (
	"encoding/json"
	"fmt"
	"os"
	"os/exec"
	"path/filepath"
	"sort"
	"strings"

	"olricvet/internal/core"
	"olricvet/internal/rules"
)

type seedMeta struct {
	ID         string   `json:"id"`
	Breaks     string   `json:"breaks"`
	DetectedBy []string `json:"detected_by"`
}

// sensitivity re-analyses scratch copies of the repository with each seeded change that
// concerns the property applied, and reports whether the property's rules fire. It is a
// self-test of the checker ("does the rule still catch the regressions it was built to
// catch on today's tree"); it never changes the verdict on /repo. Scratch copies live
// under the system temp directory and are removed immediately.
func sensitivity(id string, prop *rules.Property) any {
	metas, _ := filepath.Glob(filepath.Join(core.VerifDir(), "seeded", "*", "meta.json"))
	sort.Strings(metas)
	type rec struct {
		Seed     string   `json:"seed"`
		Applied  bool     `json:"applied"`
		Detected bool     `json:"detected"`
		Rules    []string `json:"rules,omitempty"`
		Note     string   `json:"note,omitempty"`
	}
	var out []rec
	applied, detected := 0, 0
	for _, m := range metas {
		b, err := os.ReadFile(m)
		if err != nil {
			continue
		}
		var sm seedMeta
		if json.Unmarshal(b, &sm) != nil {
			continue
		}
		concerns := sm.Breaks == id
		for _, d := range sm.DetectedBy {
			if d == id {
				concerns = true
			}
		}
		if !concerns {
			continue
		}
		dir := filepath.Dir(m)
		rc := rec{Seed: filepath.Base(dir)}
		scratch, err := os.MkdirTemp("", "olricvet-sens-")
		if err != nil {
			rc.Note = err.Error()
			out = append(out, rc)
			continue
		}
		func() {
			defer os.RemoveAll(scratch)
			cp := exec.Command("rsync", "-a", "--exclude", ".git", core.RepoDir()+"/", scratch+"/")
			if o, err := cp.CombinedOutput(); err != nil {
				rc.Note = "copy failed: " + strings.TrimSpace(string(o))
				return
			}
			ap := exec.Command("git", "apply", filepath.Join(dir, "patch.diff"))
			ap.Dir = scratch
			if o, err := ap.CombinedOutput(); err != nil {
				rc.Note = "the stored change does not apply to the current tree: " + strings.TrimSpace(string(o))
				return
			}
			rc.Applied = true
			applied++
			p2, err := core.LoadDir(scratch)
			if err != nil {
				rc.Note = "scratch copy does not load: " + err.Error()
				return
			}
			r2 := core.NewRun(p2, id, "thorough")
			r2.Quiet = true
			func() {
				defer func() {
					if e := recover(); e != nil {
						r2.Unknown("analyser", "panic", "-", fmt.Sprintf("%v", e))
					}
				}()
				prop.Run(r2)
			}()
			seen := map[string]bool{}
			for _, o := range r2.Alarms() {
				rc.Detected = true
				if !seen[o.Rule] {
					seen[o.Rule] = true
					rc.Rules = append(rc.Rules, o.Rule)
				}
			}
			if rc.Detected {
				detected++
			}
		}()
		out = append(out, rc)
	}
	return map[string]any{
		"what":             "seeded changes concerning this property, each applied to a scratch copy of /repo's current tree and re-analysed with this property's rules; informational only, never part of the verdict",
		"mutants_applied":  applied,
		"mutants_detected": detected,
		"mutants_total":    len(out),
		"records":          out,
	}
}
