package main

import (
	"encoding/json"
	"fmt"
	"os"
	"os/exec"
	"path/filepath"
	"regexp"
	"sort"
	"strings"
	"sync"

	"olricvet/internal/core"
	"olricvet/internal/rules"
)

var ruleRe = regexp.MustCompile(`\[(C[0-9]+\.[a-z0-9-]+)\]`)

type seedMeta struct {
	ID         string   `json:"id"`
	Breaks     string   `json:"breaks"`
	DetectedBy []string `json:"detected_by"`
}

// sensitivity re-analyses scratch copies of the repository with each seeded change that
// concerns the property applied, and reports whether the property's rules fire. It is a
// self-test of the checker ("does the rule still catch the regressions it was built to
// catch on today's tree"); it never changes the verdict on /repo. Scratch copies live
// under the system temp directory and are removed immediately.
func sensitivity(id string, prop *rules.Property) any {
	metas, _ := filepath.Glob(filepath.Join(core.VerifDir(), "seeded", "*", "meta.json"))
	sort.Strings(metas)
	var jobs []string
	for _, m := range metas {
		b, err := os.ReadFile(m)
		if err != nil {
			continue
		}
		var sm seedMeta
		if json.Unmarshal(b, &sm) != nil {
			continue
		}
		concerns := sm.Breaks == id
		for _, d := range sm.DetectedBy {
			if d == id {
				concerns = true
			}
		}
		if concerns {
			jobs = append(jobs, filepath.Dir(m))
		}
	}
	out := make([]rec, len(jobs))
	sem := make(chan struct{}, sensitivityWorkers)
	var wg sync.WaitGroup
	for i, dir := range jobs {
		wg.Add(1)
		go func(i int, dir string) {
			defer wg.Done()
			sem <- struct{}{}
			defer func() { <-sem }()
			out[i] = sensitivityOne(id, dir)
		}(i, dir)
	}
	wg.Wait()
	applied, detected := 0, 0
	for _, rc := range out {
		if rc.Applied {
			applied++
		}
		if rc.Detected {
			detected++
		}
	}
	return map[string]any{
		"what":             "seeded changes concerning this property, each applied to a scratch copy of /repo's current tree and re-analysed with this property's rules; informational only, never part of the verdict",
		"mutants_applied":  applied,
		"mutants_detected": detected,
		"mutants_total":    len(out),
		"records":          out,
	}
}

type rec struct {
	Seed     string   `json:"seed"`
	Applied  bool     `json:"applied"`
	Detected bool     `json:"detected"`
	Rules    []string `json:"rules,omitempty"`
	Note     string   `json:"note,omitempty"`
}

// sensitivityWorkers bounds the number of child analyses running at a time (each holds one
// loaded program, about 1 GB).
const sensitivityWorkers = 4

// sensitivityOne applies one stored change to a scratch copy and re-analyses it in a child
// process: one loaded program is some gigabytes, and a child gives them back on exit.
func sensitivityOne(id, dir string) (rc rec) {
	rc.Seed = filepath.Base(dir)
	scratch, err := os.MkdirTemp("", "olricvet-sens-")
	if err != nil {
		rc.Note = err.Error()
		return
	}
	defer os.RemoveAll(scratch)
	cp := exec.Command("rsync", "-a", "--exclude", ".git", core.RepoDir()+"/", scratch+"/")
	if o, err := cp.CombinedOutput(); err != nil {
		rc.Note = "copy failed: " + strings.TrimSpace(string(o))
		return
	}
	ap := exec.Command("git", "apply", filepath.Join(dir, "patch.diff"))
	ap.Dir = scratch
	if o, err := ap.CombinedOutput(); err != nil {
		rc.Note = "the stored change does not apply to the current tree: " + strings.TrimSpace(string(o))
		return
	}
	rc.Applied = true
	outDir, err := os.MkdirTemp("", "olricvet-sensout-")
	if err != nil {
		rc.Note = err.Error()
		return
	}
	defer os.RemoveAll(outDir)
	if kf, err := os.ReadFile(filepath.Join(core.VerifDir(), "KNOWN_FINDINGS.txt")); err == nil {
		os.WriteFile(filepath.Join(outDir, "KNOWN_FINDINGS.txt"), kf, 0o644)
	}
	if fp, err := os.ReadFile(filepath.Join(core.VerifDir(), "rules", "fingerprints.json")); err == nil {
		os.MkdirAll(filepath.Join(outDir, "rules"), 0o755)
		os.WriteFile(filepath.Join(outDir, "rules", "fingerprints.json"), fp, 0o644)
	}
	self, err := os.Executable()
	if err != nil {
		rc.Note = err.Error()
		return
	}
	child := exec.Command(self, "check", id, "quick")
	child.Env = append(os.Environ(), "OLRIC_REPO="+scratch, "VERIF_DIR="+outDir)
	o, _ := child.CombinedOutput()
	code := -1
	if child.ProcessState != nil {
		code = child.ProcessState.ExitCode()
	}
	seen := map[string]bool{}
	for _, m := range ruleRe.FindAllStringSubmatch(string(o), -1) {
		if !seen[m[1]] {
			seen[m[1]] = true
			rc.Rules = append(rc.Rules, m[1])
		}
	}
	sort.Strings(rc.Rules)
	switch code {
	case 1:
		rc.Detected = true
	case 0:
	default:
		rc.Note = fmt.Sprintf("the child analysis ended with exit code %d", code)
	}
	return
}
