package core

import (
	"encoding/json"
	"fmt"
	"go/ast"
	"go/token"
	"go/types"
	"os"
	"path/filepath"
	"sort"
	"strings"

	"golang.org/x/tools/go/packages"
)

// Normalisation: inlining of NEW helper functions.
//
// The rules name their anchors (putOnCluster, fragment.Move, KVStore.Put, ...) and judge
// the code inside them. The most common behaviour-preserving edit, "extract method",
// moves part of an anchor's body into a function that did not exist when the rules were
// written; judged as it stands, the anchor then seems to have lost the send, the
// validation or the lock section the rule looks for. Instead of teaching every rule to
// follow helpers, the loader undoes the extraction before the rules run:
//
//   - a function is NEW when its qualified name is not in /verif/rules/fingerprints.json
//     (the record of the tree the rules were written against) and it was not adopted as
//     the renamed form of a recorded function;
//   - every static call of a new function from its own package that stands as a
//     statement of its own, as the sole right-hand side of an assignment / definition /
//     var declaration / if- or switch-initialiser, as the sole operand of a return, or as
//     the (leftmost operand of the) condition of an if without initialiser, is replaced by
//     the function's body: arguments are bound to the parameters (with their declared
//     types, evaluated once, left to right, receiver first), every `return` becomes an
//     assignment to fresh result variables followed by a labelled break, and the call
//     expression is replaced by the result variables;
//   - a new function all of whose uses were inlined is blanked.
//
// Further forms: `return h(..)` keeps the helper's returns as returns (tail mode; the only
// place where a helper with deferred calls is inlined); a call whose error result is
// tested at once is threaded (see threadable); a helper that is one `return <expr>` is
// substituted as an expression (see planExprSites).
//
// Inlining is semantics preserving under the restrictions enforced here (no recover,
// labels or goto in the helper, defer only in tail mode, no recursion, no variadics or
// type parameters, simple assignment targets, effect-free neighbours when a call is
// hoisted, no identifier of the helper that would resolve differently at the call site), so a
// verdict on the normalised program holds for the program on disk. The rewritten files
// exist only as an in-memory overlay handed to go/packages; //line directives keep every
// reported position on the line of the file on disk. On today's tree there is no new
// function, and normalisation is the identity. If the rewritten tree does not
// type-check, helpers are retried one at a time and those that fail are left alone.

// Normalised describes what the last Load rewrote (for the evidence file).
var Normalised []string

type edit struct {
	start, end int
	text       string
}

type fileEdits map[string][]edit

func recordedNames() map[string]bool {
	b, err := os.ReadFile(filepath.Join(VerifDir(), "rules", "fingerprints.json"))
	if err != nil {
		b, err = os.ReadFile("/verif/rules/fingerprints.json")
		if err != nil {
			return nil
		}
	}
	var fps []Fingerprint
	if json.Unmarshal(b, &fps) != nil {
		return nil
	}
	out := map[string]bool{}
	for _, fp := range fps {
		out[fp.Name] = true
	}
	return out
}

var recordedCache map[string]bool

// IsRecorded reports whether the function existed (under this or its adopted earlier
// name) when the record of the repository's functions was taken.
func (p *Prog) IsRecorded(fn *Fn) bool {
	if recordedCache == nil {
		recordedCache = recordedNames()
		if recordedCache == nil {
			recordedCache = map[string]bool{}
		}
	}
	if recordedCache[rawQualName(fn.Obj)] {
		return true
	}
	_, renamed := aliases[fn.Obj]
	return renamed
}

// newFunctions lists the functions of the loaded tree that are not in the record.
func (p *Prog) newFunctions(recorded map[string]bool) []*Fn {
	var out []*Fn
	for _, fn := range p.FuncList {
		if recorded[rawQualName(fn.Obj)] {
			continue
		}
		if _, renamed := aliases[fn.Obj]; renamed {
			continue
		}
		out = append(out, fn)
	}
	return out
}

func normalise(p *Prog, load func(overlay map[string][]byte) (*Prog, error)) *Prog {
	Normalised = nil
	if os.Getenv("OLRICVET_NO_NORMALISE") != "" {
		return p
	}
	recorded := recordedNames()
	if recorded == nil {
		return p
	}
	overlay := map[string][]byte{}
	src := func(file string) []byte {
		if b, ok := overlay[file]; ok {
			return b
		}
		b, _ := os.ReadFile(file)
		return b
	}
	rejected := map[string]bool{}
	for round := 0; round < 5; round++ {
		var helpers []*Fn
		for _, fn := range p.newFunctions(recorded) {
			if !rejected[fn.Name] {
				helpers = append(helpers, fn)
			}
		}
		if len(helpers) == 0 {
			break
		}
		plan := func(hs []*Fn) (fileEdits, []string) {
			fe := fileEdits{}
			var notes []string
			k := round * 1000
			for _, h := range hs {
				if why := inlinable(p, h); why != "" {
					continue
				}
				n := p.planSites(h, src, fe, &k)
				if n > 0 {
					notes = append(notes, fmt.Sprintf("inlined %d call(s) of new function %s", n, h.Name))
				}
			}
			return fe, notes
		}
		apply := func(fe fileEdits) map[string][]byte {
			ov := map[string][]byte{}
			for f, b := range overlay {
				ov[f] = b
			}
			for f, es := range fe {
				ov[f] = applyEdits(src(f), es)
			}
			return ov
		}
		fe, notes := plan(helpers)
		if len(fe) == 0 {
			// nothing left to inline: blank the new functions that have no use left
			fe2, notes2 := p.planBlanking(helpers, src)
			if len(fe2) == 0 {
				break
			}
			ov := apply(fe2)
			if p2, err := load(ov); err == nil {
				p, overlay = p2, ov
				Normalised = append(Normalised, notes2...)
			}
			break
		}
		ov := apply(fe)
		p2, err := load(ov)
		if err != nil {
			// retry helper by helper, keeping what type-checks
			progressed := false
			for _, h := range helpers {
				fe1, notes1 := plan([]*Fn{h})
				if len(fe1) == 0 {
					continue
				}
				ov1 := apply(fe1)
				if p3, err1 := load(ov1); err1 == nil {
					p, overlay = p3, ov1
					Normalised = append(Normalised, notes1...)
					progressed = true
					break // positions changed: plan again in the next round
				}
				rejected[h.Name] = true
				Normalised = append(Normalised, "left alone (inlined form does not type-check): "+h.Name)
			}
			if !progressed {
				break
			}
			continue
		}
		p, overlay = p2, ov
		Normalised = append(Normalised, notes...)
	}
	if d := os.Getenv("OLRICVET_DUMP_NORMALISED"); d != "" {
		for f, b := range overlay {
			out := filepath.Join(d, strings.TrimPrefix(f, p.Dir+"/"))
			_ = os.MkdirAll(filepath.Dir(out), 0o755)
			_ = os.WriteFile(out, b, 0o644)
		}
	}
	return p
}

func applyEdits(b []byte, es []edit) []byte {
	sort.Slice(es, func(i, j int) bool {
		if es[i].start != es[j].start {
			return es[i].start > es[j].start
		}
		return es[i].end > es[j].end
	})
	out := append([]byte(nil), b...)
	for _, e := range es {
		if e.start < 0 || e.end > len(out) || e.start > e.end {
			continue
		}
		out = append(out[:e.start], append([]byte(e.text), out[e.end:]...)...)
	}
	return out
}

// inlinable returns "" when h may be inlined, else the reason why not.
func inlinable(p *Prog, h *Fn) string {
	d := h.Decl
	if d.Body == nil {
		return "no body"
	}
	if d.Type.TypeParams != nil && len(d.Type.TypeParams.List) > 0 {
		return "type parameters"
	}
	sig, _ := h.Obj.Type().(*types.Signature)
	if sig == nil || sig.Variadic() {
		return "variadic"
	}
	if sig.Recv() != nil {
		t := sig.Recv().Type()
		if pt, ok := t.(*types.Pointer); ok {
			t = pt.Elem()
		}
		if nt, ok := t.(*types.Named); !ok || nt.TypeParams().Len() > 0 {
			return "receiver"
		}
	}
	if sig.Results().Len() > 6 {
		return "too many results"
	}
	why := ""
	var visit func(n ast.Node, inLit bool)
	visit = func(n ast.Node, inLit bool) {
		ast.Inspect(n, func(m ast.Node) bool {
			switch x := m.(type) {
			case *ast.FuncLit:
				visit(x.Body, true)
				return false
			case *ast.DeferStmt:
				// accepted in tail position only, see hasOwnDefer
			case *ast.LabeledStmt:
				if !inLit {
					why = "label"
				}
			case *ast.BranchStmt:
				if x.Tok == token.GOTO {
					why = "goto"
				}
			case *ast.Ident:
				if o := h.Pkg.TypesInfo.Uses[x]; o != nil {
					if o == types.Object(h.Obj) {
						why = "recursive"
					}
					if b, ok := o.(*types.Builtin); ok && b.Name() == "recover" {
						why = "recover"
					}
				}
			}
			return true
		})
	}
	visit(d.Body, false)
	return why
}

// hasOwnDefer: the helper defers something at its own level. Such a helper is inlined
// only where its call is the whole operand of a return (`return h(...)`) and it has no
// named results: its deferred calls then run when the caller returns, after the results
// were evaluated and before the caller's own (earlier registered) deferred calls —
// exactly when and in the order they ran before.
func hasOwnDefer(h *Fn) bool {
	found := false
	var visit func(n ast.Node)
	visit = func(n ast.Node) {
		ast.Inspect(n, func(m ast.Node) bool {
			switch m.(type) {
			case *ast.FuncLit:
				return false
			case *ast.DeferStmt:
				found = true
			}
			return true
		})
	}
	visit(h.Decl.Body)
	return found
}

// callSite is one inlinable occurrence: stmt is an element of a statement list, call the
// call expression inside it.
type inlSite struct {
	file  *ast.File
	next  ast.Stmt // the statement following stmt in its list (nil at the end)
	stmt  ast.Stmt
	call  *ast.CallExpr
	drop  bool // the statement consists of the call alone
	nres  int
	owner *packages.Package
}

// simpleLHS: identifiers, blank, and selector chains on identifiers (no calls, no index
// expressions): evaluating them cannot be reordered observably with the hoisted call.
func simpleLHS(e ast.Expr) bool {
	switch x := e.(type) {
	case *ast.Ident:
		return true
	case *ast.SelectorExpr:
		return simpleLHS(x.X)
	case *ast.ParenExpr:
		return simpleLHS(x.X)
	case *ast.StarExpr:
		return simpleLHS(x.X)
	}
	return false
}

func (p *Prog) findSites(h *Fn) []inlSite {
	var out []inlSite
	pk := h.Pkg
	isCall := func(e ast.Expr) *ast.CallExpr {
		for {
			pe, ok := e.(*ast.ParenExpr)
			if !ok {
				break
			}
			e = pe.X
		}
		c, ok := e.(*ast.CallExpr)
		if !ok || c.Ellipsis.IsValid() {
			return nil
		}
		if Callee(pk, c) != h.Obj {
			return nil
		}
		switch f := c.Fun.(type) {
		case *ast.Ident:
		case *ast.SelectorExpr:
			sel := pk.TypesInfo.Selections[f]
			if sel == nil || sel.Kind() != types.MethodVal || len(sel.Index()) != 1 {
				return nil
			}
			if _, isIface := sel.Recv().Underlying().(*types.Interface); isIface {
				return nil
			}
		default:
			return nil
		}
		return c
	}
	for _, file := range pk.Syntax {
		var lists [][]ast.Stmt
		ast.Inspect(file, func(n ast.Node) bool {
			switch x := n.(type) {
			case *ast.BlockStmt:
				lists = append(lists, x.List)
			case *ast.CaseClause:
				lists = append(lists, x.Body)
			case *ast.CommClause:
				lists = append(lists, x.Body)
			}
			return true
		})
		for _, list := range lists {
			for li, st := range list {
				// the helper's own declaration is never a site of itself (recursion excluded)
				if h.Decl.Body != nil && st.Pos() >= h.Decl.Body.Pos() && st.End() <= h.Decl.Body.End() {
					continue
				}
				var c *ast.CallExpr
				drop := false
				switch s := st.(type) {
				case *ast.ExprStmt:
					c = isCall(s.X)
					drop = true
				case *ast.AssignStmt:
					if len(s.Rhs) == 1 && (s.Tok == token.ASSIGN || s.Tok == token.DEFINE) {
						ok := true
						for _, l := range s.Lhs {
							if !simpleLHS(l) {
								ok = false
							}
						}
						if ok {
							c = isCall(s.Rhs[0])
						}
					}
				case *ast.DeclStmt:
					if gd, ok := s.Decl.(*ast.GenDecl); ok && gd.Tok == token.VAR && len(gd.Specs) == 1 {
						if vs, ok := gd.Specs[0].(*ast.ValueSpec); ok && len(vs.Values) == 1 {
							c = isCall(vs.Values[0])
						}
					}
				case *ast.ReturnStmt:
					if len(s.Results) == 1 {
						c = isCall(s.Results[0])
					} else if sg := h.Obj.Type().(*types.Signature); sg.Results().Len() == 1 {
						// `return h(x), nil`: one operand is the call, the others have no effect
						for i, e := range s.Results {
							if ci := isCall(e); ci != nil {
								others := true
								for j, o := range s.Results {
									if j != i && !pureArg(o) {
										others = false
									}
								}
								if others && c == nil {
									c = ci
								}
							}
						}
					}
				case *ast.IfStmt:
					if as, ok := s.Init.(*ast.AssignStmt); ok && len(as.Rhs) == 1 && (as.Tok == token.DEFINE || as.Tok == token.ASSIGN) && allSimpleLHS(as.Lhs) {
						c = isCall(as.Rhs[0])
					} else if s.Init == nil {
						cond := s.Cond
						for {
							if pe, ok := cond.(*ast.ParenExpr); ok {
								cond = pe.X
								continue
							}
							if ue, ok := cond.(*ast.UnaryExpr); ok && ue.Op == token.NOT {
								cond = ue.X
								continue
							}
							if be, ok := cond.(*ast.BinaryExpr); ok {
								cond = be.X
								continue
							}
							break
						}
						if sg := h.Obj.Type().(*types.Signature); sg.Results().Len() == 1 {
							c = isCall(cond)
						}
					}
				case *ast.SwitchStmt:
					if as, ok := s.Init.(*ast.AssignStmt); ok && len(as.Rhs) == 1 && (as.Tok == token.DEFINE || as.Tok == token.ASSIGN) && allSimpleLHS(as.Lhs) {
						c = isCall(as.Rhs[0])
					}
				}
				if c == nil {
					continue
				}
				sig := h.Obj.Type().(*types.Signature)
				var next ast.Stmt
				if li+1 < len(list) {
					next = list[li+1]
				}
				out = append(out, inlSite{file: file, stmt: st, next: next, call: c, drop: drop, nres: sig.Results().Len(), owner: pk})
			}
		}
	}
	return out
}

// hygiene checks that every identifier of the helper that denotes a package-level,
// universe or imported-package object denotes the same object at the call site; missing
// imports are returned so that they can be added to the caller's file.
func (p *Prog) hygiene(h *Fn, site inlSite) (ok bool, addImports map[string]string) {
	pk := h.Pkg
	addImports = map[string]string{}
	scope := pk.Types.Scope().Innermost(site.call.Pos())
	if scope == nil {
		return false, nil
	}
	ok = true
	check := func(n ast.Node) {
		if n == nil {
			return
		}
		ast.Inspect(n, func(m ast.Node) bool {
			id, isID := m.(*ast.Ident)
			if !isID {
				return true
			}
			o := pk.TypesInfo.Uses[id]
			if o == nil {
				return true
			}
			switch {
			case o.Parent() == types.Universe, o.Parent() == pk.Types.Scope():
				_, found := scope.LookupParent(id.Name, site.call.Pos())
				if found != o {
					ok = false
				}
			default:
				if pn, isPkg := o.(*types.PkgName); isPkg {
					_, found := scope.LookupParent(id.Name, site.call.Pos())
					if found == nil {
						addImports[id.Name] = pn.Imported().Path()
					} else if fp, same := found.(*types.PkgName); !same || fp.Imported().Path() != pn.Imported().Path() {
						ok = false
					}
				}
			}
			return true
		})
	}
	check(h.Decl.Body)
	check(h.Decl.Type)
	if h.Decl.Recv != nil {
		check(h.Decl.Recv)
	}
	return ok, addImports
}

// pureArg: an argument whose evaluation has no effect and can be repeated: identifiers,
// literals and selector chains over them.
func pureArg(e ast.Expr) bool {
	switch x := e.(type) {
	case *ast.Ident, *ast.BasicLit:
		return true
	case *ast.SelectorExpr:
		return pureArg(x.X)
	case *ast.ParenExpr:
		return pureArg(x.X)
	case *ast.StarExpr:
		return pureArg(x.X)
	}
	return false
}

// planExprSites handles helpers that consist of `return <expression>` alone (predicates
// such as `func (i *It) exhausted() bool { return len(i.a) == 0 && len(i.b) == 0 }`):
// a call with effect-free arguments is replaced, wherever it stands, by the expression
// with the arguments substituted. Returns -1 when h is not of that form.
func (p *Prog) planExprSites(h *Fn, src func(string) []byte, fe fileEdits) int {
	body := h.Decl.Body
	if len(body.List) != 1 {
		return -1
	}
	ret, ok := body.List[0].(*ast.ReturnStmt)
	if !ok || len(ret.Results) != 1 {
		return -1
	}
	// no function literal and no assignment inside (a pure expression apart from calls)
	pure := true
	ast.Inspect(ret.Results[0], func(n ast.Node) bool {
		if _, isLit := n.(*ast.FuncLit); isLit {
			pure = false
		}
		return true
	})
	if !pure {
		return -1
	}
	fset := p.Fset
	off := func(pos token.Pos) int { return fset.File(pos).Offset(pos) }
	hsrc := src(fset.File(h.Decl.Pos()).Name())
	pk := h.Pkg
	// parameter objects in order (receiver first)
	var pobjs []types.Object
	if h.Decl.Recv != nil && len(h.Decl.Recv.List) == 1 {
		if len(h.Decl.Recv.List[0].Names) == 1 {
			pobjs = append(pobjs, pk.TypesInfo.Defs[h.Decl.Recv.List[0].Names[0]])
		} else {
			pobjs = append(pobjs, nil)
		}
	}
	for _, f := range h.Decl.Type.Params.List {
		if len(f.Names) == 0 {
			pobjs = append(pobjs, nil)
		}
		for _, n := range f.Names {
			pobjs = append(pobjs, pk.TypesInfo.Defs[n])
		}
	}
	n := 0
	for _, file := range pk.Syntax {
		var calls []*ast.CallExpr
		ast.Inspect(file, func(nd ast.Node) bool {
			c, ok := nd.(*ast.CallExpr)
			if !ok || c.Ellipsis.IsValid() || Callee(pk, c) != h.Obj {
				return true
			}
			if c.Pos() >= h.Decl.Pos() && c.End() <= h.Decl.End() {
				return true
			}
			calls = append(calls, c)
			return true
		})
		for _, c := range calls {
			var args []ast.Expr
			switch f := c.Fun.(type) {
			case *ast.Ident:
			case *ast.SelectorExpr:
				sel := pk.TypesInfo.Selections[f]
				if sel == nil || sel.Kind() != types.MethodVal || len(sel.Index()) != 1 {
					continue
				}
				if _, isIface := sel.Recv().Underlying().(*types.Interface); isIface {
					continue
				}
				args = append(args, f.X)
			default:
				continue
			}
			args = append(args, c.Args...)
			if len(args) != len(pobjs) {
				continue
			}
			okArgs := true
			for _, a := range args {
				if !pureArg(a) {
					okArgs = false
				}
			}
			site := inlSite{file: file, call: c, owner: pk}
			okH, imports := p.hygiene(h, site)
			if !okArgs || !okH {
				continue
			}
			cfile := fset.File(c.Pos())
			csrc := src(cfile.Name())
			clash := false
			for _, e := range fe[cfile.Name()] {
				if e.end > off(c.Pos()) && e.start < off(c.End()) {
					clash = true
				}
			}
			if clash {
				continue
			}
			// substitute parameters by argument text
			exprStart := off(ret.Results[0].Pos())
			var subs []edit
			ast.Inspect(ret.Results[0], func(nd ast.Node) bool {
				id, ok := nd.(*ast.Ident)
				if !ok {
					return true
				}
				o := pk.TypesInfo.Uses[id]
				for i, po := range pobjs {
					if po != nil && o == po {
						subs = append(subs, edit{off(id.Pos()) - exprStart, off(id.End()) - exprStart, "(" + string(csrc[off(args[i].Pos()):off(args[i].End())]) + ")"})
					}
				}
				return true
			})
			expr := string(applyEdits(hsrc[exprStart:off(ret.Results[0].End())], subs))
			expr = strings.ReplaceAll(expr, "\n", " ")
			es := fe[cfile.Name()]
			// converted to the declared result type, as the return statement did implicitly
			rt := h.Decl.Type.Results.List[0].Type
			conv := "(" + string(hsrc[off(rt.Pos()):off(rt.End())]) + ")"
			if id, isID := rt.(*ast.Ident); isID && id.Name == "bool" {
				conv = "" // a condition stays control flow instead of becoming a materialised value
			}
			es = append(es, edit{off(c.Pos()), off(c.End()), conv + "(" + expr + ")"})
			es = addImports(es, imports, off(file.Name.End()))
			fe[cfile.Name()] = es
			n++
		}
	}
	return n
}

func (p *Prog) planSites(h *Fn, src func(string) []byte, fe fileEdits, counter *int) int {
	if n := p.planExprSites(h, src, fe); n >= 0 {
		return n
	}
	fset := p.Fset
	hfile := fset.File(h.Decl.Pos())
	if hfile == nil {
		return 0
	}
	hsrc := src(hfile.Name())
	off := func(pos token.Pos) int { return fset.File(pos).Offset(pos) }
	text := func(b []byte, from, to token.Pos) string { return string(b[off(from):off(to)]) }
	sig := h.Obj.Type().(*types.Signature)

	// parameter and result descriptions from the declaration
	type field struct{ name, typ string }
	var params, results []field
	for _, f := range h.Decl.Type.Params.List {
		t := text(hsrc, f.Type.Pos(), f.Type.End())
		if len(f.Names) == 0 {
			params = append(params, field{"_", t})
		}
		for _, n := range f.Names {
			params = append(params, field{n.Name, t})
		}
	}
	named := false
	if h.Decl.Type.Results != nil {
		for _, f := range h.Decl.Type.Results.List {
			t := text(hsrc, f.Type.Pos(), f.Type.End())
			if len(f.Names) == 0 {
				results = append(results, field{"", t})
			}
			for _, n := range f.Names {
				results = append(results, field{n.Name, t})
				named = true
			}
		}
	}
	if len(params) != sig.Params().Len() || len(results) != sig.Results().Len() {
		return 0
	}
	var recv *field
	recvPtr := false
	if h.Decl.Recv != nil && len(h.Decl.Recv.List) == 1 {
		f := h.Decl.Recv.List[0]
		r := field{"_", text(hsrc, f.Type.Pos(), f.Type.End())}
		if len(f.Names) == 1 {
			r.name = f.Names[0].Name
		}
		_, recvPtr = f.Type.(*ast.StarExpr)
		recv = &r
	}

	// returns of the helper at its own level
	var rets []*ast.ReturnStmt
	var visit func(n ast.Node)
	visit = func(n ast.Node) {
		ast.Inspect(n, func(m ast.Node) bool {
			switch x := m.(type) {
			case *ast.FuncLit:
				return false
			case *ast.ReturnStmt:
				rets = append(rets, x)
			}
			return true
		})
	}
	visit(h.Decl.Body)
	ownDefer := hasOwnDefer(h)

	n := 0
	for _, site := range p.findSites(h) {
		okH, imports := p.hygiene(h, site)
		if !okH {
			continue
		}
		cfile := fset.File(site.stmt.Pos())
		csrc := src(cfile.Name())
		// an edit already planned inside this statement (another helper in the same round)
		// is left for the next round
		clash := false
		for _, e := range fe[cfile.Name()] {
			if e.end > off(site.stmt.Pos()) && e.start < off(site.stmt.End()) {
				clash = true
			}
		}
		if clash {
			continue
		}
		*counter++
		k := *counter
		label := fmt.Sprintf("__inl%d", k)
		var tmps []string
		for i := range results {
			tmps = append(tmps, fmt.Sprintf("%sr%d", label, i))
		}
		var b strings.Builder
		b.WriteString("\n")
		// arguments, receiver first
		var binds []string
		if recv != nil {
			sel := site.call.Fun.(*ast.SelectorExpr)
			rx := text(csrc, sel.X.Pos(), sel.X.End())
			_, exprPtr := site.owner.TypesInfo.TypeOf(sel.X).Underlying().(*types.Pointer)
			switch {
			case recvPtr && !exprPtr:
				rx = "&(" + rx + ")"
			case !recvPtr && exprPtr:
				rx = "*(" + rx + ")"
			}
			fmt.Fprintf(&b, "var %sv %s = %s\n", label, recv.typ, rx)
			binds = append(binds, fmt.Sprintf("var %s %s = %sv; _ = %s", blankOr(recv.name, label+"v_"), recv.typ, label, blankOr(recv.name, label+"v_")))
		}
		for i, pa := range params {
			ax := text(csrc, site.call.Args[i].Pos(), site.call.Args[i].End())
			fmt.Fprintf(&b, "var %sa%d %s = %s\n", label, i, pa.typ, ax)
			nm := blankOr(pa.name, fmt.Sprintf("%sp%d_", label, i))
			binds = append(binds, fmt.Sprintf("var %s %s = %sa%d; _ = %s", nm, pa.typ, label, i, nm))
		}
		// tail mode: `return h(...)` — the helper's returns become the caller's returns
		tail := false
		if rs, isRet := site.stmt.(*ast.ReturnStmt); isRet && len(rs.Results) == 1 {
			tail = true
		}
		if ownDefer && (!tail || named) {
			continue
		}
		// threaded mode: the call's error result is tested at once and the failing branch
		// T leaves the function; a helper return that is visibly an error then runs (a
		// copy of) T on the spot instead of joining the other returns, a helper return
		// that is visibly nil joins without the test. What reaches the join is what can
		// actually succeed, so no value/err correlation is lost in a merge.
		th := p.threadable(h, site, csrc, tmps)
		if !tail {
			for i, r := range results {
				fmt.Fprintf(&b, "var %s %s\n", tmps[i], r.typ)
			}
			fmt.Fprintf(&b, "%s:\nswitch {\ndefault:\n", label)
		} else {
			b.WriteString("{\n")
		}
		for _, bd := range binds {
			b.WriteString(bd + "\n")
		}
		if named {
			for _, r := range results {
				if r.name != "" && r.name != "_" {
					fmt.Fprintf(&b, "var %s %s; _ = %s\n", r.name, r.typ, r.name)
				}
			}
		}
		// body with rewritten returns
		bodyStart, bodyEnd := off(h.Decl.Body.Lbrace)+1, off(h.Decl.Body.Rbrace)
		var bes []edit
		for _, ret := range rets {
			var rt string
			var names []string
			for _, r := range results {
				names = append(names, r.name)
			}
			switch {
			case tail && len(ret.Results) == 0 && len(results) > 0:
				rt = "return " + strings.Join(names, ", ")
			case tail:
				continue // kept verbatim
			case len(results) == 0:
				rt = "break " + label
			case len(ret.Results) == 0:
				rt = strings.Join(tmps, ", ") + " = " + strings.Join(names, ", ") + "; break " + label
			default:
				rt = strings.Join(tmps, ", ") + " = " + text(hsrc, ret.Results[0].Pos(), ret.Results[len(ret.Results)-1].End())
				cls := errUnknown
				if th != nil && len(ret.Results) == len(results) {
					cls = classifyErrExpr(h.Pkg, ret.Results[th.errIdx])
					if cls == errUnknown && knownNonNilAt(h, ret, ret.Results[th.errIdx]) {
						cls = errNonNil
					}
					if cls == errUnknown {
						// what the branch conditions dominating the return say about the value
						// (else branches, switch cases after `case err == nil`, guards)
						switch ssaErrStateAtReturn(h, ret, th.errIdx) {
						case NonNil:
							cls = errNonNil
						case IsNil:
							cls = errNil
						}
					}
				}
				// the copied branch may span lines: resynchronise the line numbers after it
				rp := fset.Position(ret.End())
				resync := fmt.Sprintf("\n//line %s:%d\n", rp.Filename, rp.Line)
				switch {
				case th != nil && cls == errNonNil:
					rt += "; " + th.fail + resync
				case th != nil && cls == errUnknown:
					rt += "; if " + tmps[th.errIdx] + " != nil " + th.fail + "; break " + label + resync
				default:
					rt += "; break " + label
				}
			}
			bes = append(bes, edit{off(ret.Pos()) - bodyStart, off(ret.End()) - bodyStart, rt})
		}
		body := string(applyEdits(hsrc[bodyStart:bodyEnd], bes))
		hpos := fset.Position(h.Decl.Body.Lbrace)
		line := hpos.Line
		if strings.HasPrefix(body, "\n") {
			body = body[1:]
			line++
		}
		spos := fset.Position(site.stmt.Pos())
		if tail {
			// the block replaces the return statement altogether
			fmt.Fprintf(&b, "//line %s:%d\n%s\n}\n//line %s:%d\n", hpos.Filename, line, body, spos.Filename, fset.Position(site.stmt.End()).Line)
			es := fe[cfile.Name()]
			es = append(es, edit{off(site.stmt.Pos()), off(site.stmt.End()), b.String()})
			es = addImports(es, imports, off(site.file.Name.End()))
			fe[cfile.Name()] = es
			n++
			continue
		}
		fmt.Fprintf(&b, "//line %s:%d\n%s\nbreak %s\n}\n", hpos.Filename, line, body, label)
		if th != nil && th.ifInit {
			// `if err := h(); err != nil { T }`: every way out of the inlined body that does
			// not run T has a nil error, the whole statement is replaced
			for _, t := range tmps {
				fmt.Fprintf(&b, "_ = %s;", t)
			}
			fmt.Fprintf(&b, "\n//line %s:%d\n", spos.Filename, fset.Position(site.stmt.End()).Line)
			es := fe[cfile.Name()]
			es = append(es, edit{off(site.stmt.Pos()), off(site.stmt.End()), b.String()})
			es = addImports(es, imports, off(site.file.Name.End()))
			fe[cfile.Name()] = es
			n++
			continue
		}
		fmt.Fprintf(&b, "//line %s:%d\n", spos.Filename, spos.Line)
		if th != nil {
			// the test that follows is dead for the same reason: blank it (keeping the lines)
			// and keep the variables used
			es := fe[cfile.Name()]
			var keep []string
			for _, nm := range th.names {
				keep = append(keep, "_ = "+nm)
			}
			blank := []byte(strings.Join(keep, "; "))
			for _, c := range csrc[off(th.test.Pos()):off(th.test.End())] {
				if c == '\n' {
					blank = append(blank, '\n')
				}
			}
			es = append(es, edit{off(th.test.Pos()), off(th.test.End()), string(blank)})
			fe[cfile.Name()] = es
		}

		// the call expression becomes the result variables
		repl := strings.Join(tmps, ", ")
		if site.drop {
			if len(tmps) > 0 {
				blanks := make([]string, len(tmps))
				for i := range blanks {
					blanks[i] = "_"
				}
				repl = strings.Join(blanks, ", ") + " = " + repl
			} else {
				repl = ""
			}
		}
		es := fe[cfile.Name()]
		es = append(es, edit{off(site.stmt.Pos()), off(site.stmt.Pos()), b.String()})
		es = append(es, edit{off(site.call.Pos()), off(site.call.End()), repl})
		es = addImports(es, imports, off(site.file.Name.End()))
		fe[cfile.Name()] = es
		n++
	}
	return n
}

// addImports: missing imports go on the package clause line (no line shift).
func addImports(es []edit, imports map[string]string, at int) []edit {
	for name, path := range imports {
		already := false
		ins := fmt.Sprintf(";import %s %q", name, path)
		for _, e := range es {
			if e.start == at && e.text == ins {
				already = true
			}
		}
		if !already {
			es = append(es, edit{at, at, ins})
		}
	}
	return es
}

type errClass int

const (
	errUnknown errClass = iota
	errNil
	errNonNil
)

// classifyErrExpr decides syntactically whether an expression of type error is nil, or
// one of the values that are never nil: a package-level error variable (the repository's
// sentinels; the analysis assumes throughout that nobody assigns nil to them) or a fresh
// errors.New / fmt.Errorf value.
func classifyErrExpr(pk *packages.Package, e ast.Expr) errClass {
	for {
		pe, ok := e.(*ast.ParenExpr)
		if !ok {
			break
		}
		e = pe.X
	}
	switch x := e.(type) {
	case *ast.Ident:
		o := pk.TypesInfo.Uses[x]
		if _, isNil := o.(*types.Nil); isNil {
			return errNil
		}
		if v, ok := o.(*types.Var); ok && v.Pkg() != nil && v.Parent() == v.Pkg().Scope() {
			return errNonNil
		}
	case *ast.SelectorExpr:
		if v, ok := pk.TypesInfo.Uses[x.Sel].(*types.Var); ok && v.Pkg() != nil && v.Parent() == v.Pkg().Scope() {
			return errNonNil
		}
	case *ast.CallExpr:
		if f := Callee(pk, x); f != nil && f.Pkg() != nil {
			switch f.Pkg().Path() + "." + f.Name() {
			case "errors.New", "fmt.Errorf":
				return errNonNil
			}
		}
	}
	return errUnknown
}

// ssaErrStateAtReturn evaluates, on the helper's SSA form, whether result idx of the given
// return statement is known nil / non-nil from the branch conditions that dominate it.
func ssaErrStateAtReturn(h *Fn, ret *ast.ReturnStmt, idx int) NilState {
	if h.SSA == nil {
		return MaybeNil
	}
	for _, sret := range Returns(h.SSA) {
		if sret.Pos() != ret.Return {
			continue
		}
		v := ResultValue(sret, idx)
		if v == nil {
			return MaybeNil
		}
		return ErrState(v, sret.Block(), nil)
	}
	return MaybeNil
}

// knownNonNilAt: the returned expression is a variable and the return statement is a
// direct statement of the body of `if v != nil { ... }` for that same variable, with no
// assignment to it (and no address taken) earlier in that body.
func knownNonNilAt(h *Fn, ret *ast.ReturnStmt, e ast.Expr) bool {
	id, ok := e.(*ast.Ident)
	if !ok {
		return false
	}
	obj := h.Pkg.TypesInfo.Uses[id]
	if obj == nil {
		return false
	}
	found := false
	ast.Inspect(h.Decl.Body, func(n ast.Node) bool {
		ifs, ok := n.(*ast.IfStmt)
		if !ok || found {
			return !found
		}
		cond, ok := ifs.Cond.(*ast.BinaryExpr)
		if !ok || cond.Op != token.NEQ {
			return true
		}
		cv, ok1 := cond.X.(*ast.Ident)
		nl, ok2 := cond.Y.(*ast.Ident)
		if !ok1 || !ok2 || nl.Name != "nil" {
			return true
		}
		co := h.Pkg.TypesInfo.Uses[cv]
		if co == nil {
			co = h.Pkg.TypesInfo.Defs[cv]
		}
		if co != obj {
			return true
		}
		for _, st := range ifs.Body.List {
			if st == ast.Stmt(ret) {
				found = true
				return false
			}
			// anything that could change the variable before the return
			changed := false
			ast.Inspect(st, func(m ast.Node) bool {
				switch x := m.(type) {
				case *ast.AssignStmt:
					for _, l := range x.Lhs {
						if li, ok := l.(*ast.Ident); ok && (h.Pkg.TypesInfo.Uses[li] == obj || h.Pkg.TypesInfo.Defs[li] == obj) {
							changed = true
						}
					}
				case *ast.UnaryExpr:
					if x.Op == token.AND {
						if li, ok := x.X.(*ast.Ident); ok && h.Pkg.TypesInfo.Uses[li] == obj {
							changed = true
						}
					}
				case *ast.FuncLit:
					changed = true
				}
				return true
			})
			if changed {
				return true
			}
		}
		return true
	})
	return found
}

type threadInfo struct {
	errIdx int
	fail   string      // the failing branch as a block statement, rewritten to read the result temporaries
	test   *ast.IfStmt // the test that becomes dead: every way to it has a nil error
	ifInit bool        // the call is the initialiser of that test
	names  []string    // the non-blank variables the call's results are assigned to
}

// threadable recognises
//
//	x, err := h(...)            if err := h(...); err != nil {
//	if err != nil {                 T
//	    T                       }
//	}
//
// where T cannot fall through (it ends in a return), has no break/continue/goto/label of
// its own and mentions no identifier that the helper declares (T is copied into the
// helper's scope).
func (p *Prog) threadable(h *Fn, site inlSite, csrc []byte, tmps []string) *threadInfo {
	pk := site.owner
	fset := p.Fset
	off := func(pos token.Pos) int { return fset.File(pos).Offset(pos) }
	var lhs []ast.Expr
	var test *ast.IfStmt
	switch s := site.stmt.(type) {
	case *ast.AssignStmt:
		lhs = s.Lhs
		test, _ = site.next.(*ast.IfStmt)
		if test == nil || test.Init != nil {
			return nil
		}
	case *ast.IfStmt:
		as, ok := s.Init.(*ast.AssignStmt)
		if !ok {
			return nil
		}
		lhs, test = as.Lhs, s
	default:
		return nil
	}
	if test.Else != nil || len(lhs) != len(tmps) {
		return nil
	}
	cond, ok := test.Cond.(*ast.BinaryExpr)
	if !ok || cond.Op != token.NEQ {
		return nil
	}
	cv, ok := cond.X.(*ast.Ident)
	if nilID, ok2 := cond.Y.(*ast.Ident); !ok || !ok2 || nilID.Name != "nil" {
		return nil
	}
	objOf := func(id *ast.Ident) types.Object {
		if o := pk.TypesInfo.Defs[id]; o != nil {
			return o
		}
		return pk.TypesInfo.Uses[id]
	}
	lhsObj := map[types.Object]int{}
	errIdx := -1
	for i, l := range lhs {
		id, ok := l.(*ast.Ident)
		if !ok {
			return nil
		}
		if id.Name == "_" {
			continue
		}
		o := objOf(id)
		if o == nil {
			return nil
		}
		lhsObj[o] = i
		if o == objOf(cv) {
			errIdx = i
		}
	}
	if errIdx < 0 {
		return nil
	}
	if !types.Identical(pk.TypesInfo.TypeOf(cv), types.Universe.Lookup("error").Type()) {
		return nil
	}
	T := test.Body
	if len(T.List) == 0 {
		return nil
	}
	if _, isRet := T.List[len(T.List)-1].(*ast.ReturnStmt); !isRet {
		return nil
	}
	// names the helper declares
	declared := map[string]bool{}
	ast.Inspect(h.Decl, func(n ast.Node) bool {
		if id, ok := n.(*ast.Ident); ok && h.Pkg.TypesInfo.Defs[id] != nil {
			declared[id.Name] = true
		}
		return true
	})
	okT := true
	var subs []edit
	tStart := off(T.Pos())
	ast.Inspect(T, func(n ast.Node) bool {
		switch x := n.(type) {
		case *ast.BranchStmt, *ast.LabeledStmt, *ast.DeferStmt:
			okT = false
		case *ast.Ident:
			o := pk.TypesInfo.Uses[x]
			if o == nil {
				if pk.TypesInfo.Defs[x] != nil && declared[x.Name] {
					// a local of T with the name of a helper variable: harmless, it is declared in T itself
				}
				return true
			}
			if i, isLHS := lhsObj[o]; isLHS {
				subs = append(subs, edit{off(x.Pos()) - tStart, off(x.End()) - tStart, tmps[i]})
				return true
			}
			_, isPkgName := o.(*types.PkgName)
			if (o.Parent() != nil || isPkgName) && declared[x.Name] {
				okT = false
			}
		}
		return true
	})
	if !okT {
		return nil
	}
	failText := string(applyEdits(csrc[tStart:off(T.End())], subs))
	ti := &threadInfo{errIdx: errIdx, fail: failText, test: test}
	_, ti.ifInit = site.stmt.(*ast.IfStmt)
	for _, l := range lhs {
		if id := l.(*ast.Ident); id.Name != "_" {
			ti.names = append(ti.names, id.Name)
		}
	}
	return ti
}

func blankOr(name, fallback string) string {
	if name == "" || name == "_" {
		return fallback
	}
	return name
}

// planBlanking blanks the new functions that are not used any more (every call was
// inlined): who-may-call rules then do not see a copy of the moved code in a function
// they have never heard of.
func (p *Prog) planBlanking(helpers []*Fn, src func(string) []byte) (fileEdits, []string) {
	fe := fileEdits{}
	var notes []string
	uses := map[types.Object]int{}
	for _, pk := range p.Pkgs {
		for _, o := range pk.TypesInfo.Uses {
			uses[o]++
		}
	}
	for _, h := range helpers {
		if h.Obj.Exported() || uses[h.Obj] > 0 {
			continue
		}
		f := p.Fset.File(h.Decl.Pos())
		b := src(f.Name())
		s, e := f.Offset(h.Decl.Pos()), f.Offset(h.Decl.End())
		blank := make([]byte, 0, e-s)
		for _, c := range b[s:e] {
			if c == '\n' {
				blank = append(blank, '\n')
			} else {
				blank = append(blank, ' ')
			}
		}
		fe[f.Name()] = append(fe[f.Name()], edit{s, e, string(blank)})
		notes = append(notes, "blanked new function "+h.Name+" (all uses inlined)")
	}
	return fe, notes
}

func allSimpleLHS(lhs []ast.Expr) bool {
	for _, l := range lhs {
		if !simpleLHS(l) {
			return false
		}
	}
	return true
}
