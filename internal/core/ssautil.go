package core

import (
	"go/token"
	"go/types"

	"golang.org/x/tools/go/ssa"
)

// AllSSA returns fn and, recursively, every anonymous function nested in it.
func AllSSA(fn *ssa.Function) []*ssa.Function {
	if fn == nil {
		return nil
	}
	out := []*ssa.Function{fn}
	for _, a := range fn.AnonFuncs {
		out = append(out, AllSSA(a)...)
	}
	return out
}

// Instrs calls f for every instruction of fn (not of nested closures).
func Instrs(fn *ssa.Function, f func(ssa.Instruction)) {
	if fn == nil {
		return
	}
	for _, b := range fn.Blocks {
		for _, in := range b.Instrs {
			f(in)
		}
	}
}

// CalleeObj resolves the callee of a call instruction to a function object: the static
// callee for direct and concrete-method calls (looking through bound-method closures),
// the interface method for invoke-mode calls. nil for dynamic calls of function values.
func CalleeObj(c ssa.CallInstruction) *types.Func {
	cc := c.Common()
	if cc.IsInvoke() {
		return cc.Method
	}
	if sc := cc.StaticCallee(); sc != nil {
		if o, ok := sc.Object().(*types.Func); ok {
			return o
		}
		// bound method wrapper / thunk: name like "(*T).m$bound"
		if sc.Synthetic != "" && sc.Object() == nil {
			if o := syntheticTarget(sc); o != nil {
				return o
			}
		}
	}
	return nil
}

func syntheticTarget(f *ssa.Function) *types.Func {
	// A wrapper's body contains exactly one call to the wrapped method.
	for _, b := range f.Blocks {
		for _, in := range b.Instrs {
			if c, ok := in.(ssa.CallInstruction); ok {
				if o := CalleeObj(c); o != nil {
					return o
				}
			}
		}
	}
	return nil
}

// FuncValueObj resolves a value used as a function (handler registration, callback) to
// the function object it denotes: a *ssa.Function, a bound-method closure, or a
// MakeClosure of an anonymous function (returns nil object but the closure function).
func FuncValueObj(v ssa.Value) (*types.Func, *ssa.Function) {
	switch x := v.(type) {
	case *ssa.Function:
		if o, ok := x.Object().(*types.Func); ok {
			return o, x
		}
		if x.Synthetic != "" {
			return syntheticTarget(x), x
		}
		return nil, x
	case *ssa.MakeClosure:
		if f, ok := x.Fn.(*ssa.Function); ok {
			if o, ok := f.Object().(*types.Func); ok {
				return o, f
			}
			if f.Synthetic != "" {
				return syntheticTarget(f), f
			}
			return nil, f
		}
	case *ssa.ChangeType:
		return FuncValueObj(x.X)
	case *ssa.MakeInterface:
		return FuncValueObj(x.X)
	}
	return nil, nil
}

// IsObj reports whether f is the function with the given qualified name.
func IsObj(f *types.Func, qual string) bool { return f != nil && QualName(f) == qual }

// InstrIndex returns the index of in inside its block.
func InstrIndex(in ssa.Instruction) int {
	for i, x := range in.Block().Instrs {
		if x == in {
			return i
		}
	}
	return -1
}

// Dominates reports whether instruction a is executed on every path from the function
// entry to instruction b (a strictly precedes b).
func Dominates(a, b ssa.Instruction) bool {
	if a.Parent() != b.Parent() {
		return false
	}
	if a.Block() == b.Block() {
		return InstrIndex(a) < InstrIndex(b)
	}
	return a.Block().Dominates(b.Block())
}

// EdgeDominates reports whether every path from the entry to target passes the edge
// from -> from.Succs[i].
func EdgeDominates(from *ssa.BasicBlock, i int, target *ssa.BasicBlock) bool {
	if i >= len(from.Succs) {
		return false
	}
	s := from.Succs[i]
	if !s.Dominates(target) {
		return false
	}
	if len(from.Succs) == 2 && from.Succs[0] == from.Succs[1] {
		return false
	}
	for _, p := range s.Preds {
		if p == from {
			continue
		}
		if !s.Dominates(p) { // another way into s that does not come through this edge
			return false
		}
	}
	return true
}

// Cond describes how a block is reached relative to an If: Val is the (negation-free)
// condition value and Truth the truth value it has on every path to the block.
type Cond struct {
	If    *ssa.If
	Val   ssa.Value
	Truth bool
}

// StripNot removes leading boolean negations from a value.
func StripNot(v ssa.Value) (ssa.Value, bool) {
	neg := false
	for {
		u, ok := v.(*ssa.UnOp)
		if !ok || u.Op != token.NOT {
			return v, neg
		}
		v = u.X
		neg = !neg
	}
}

// Conditions returns the branch conditions known to hold on every path to block b. A
// condition on a materialised boolean (flag := a && b; if flag ...; or the flag a small
// helper returned) is looked through: when only one incoming edge of the phi can carry the
// tested truth value, what holds on that edge holds as well.
func Conditions(b *ssa.BasicBlock) []Cond {
	base := baseConditions(b)
	out := append([]Cond(nil), base...)
	seen := map[*ssa.Phi]bool{}
	var through func(cd Cond, depth int)
	through = func(cd Cond, depth int) {
		phi, ok := cd.Val.(*ssa.Phi)
		if !ok || depth > 3 || seen[phi] {
			return
		}
		if bt, isBasic := phi.Type().Underlying().(*types.Basic); !isBasic || bt.Kind() != types.Bool {
			return
		}
		seen[phi] = true
		cand := -1
		n := 0
		for i, e := range phi.Edges {
			if k, isK := e.(*ssa.Const); isK && k.Value != nil {
				if (k.Value.String() == "true") != cd.Truth {
					continue
				}
			}
			cand = i
			n++
		}
		if n != 1 {
			return
		}
		pred := phi.Block().Preds[cand]
		extra := baseConditions(pred)
		// the edge pred -> phi block itself
		if len(pred.Instrs) > 0 {
			if ifi, isIf := pred.Instrs[len(pred.Instrs)-1].(*ssa.If); isIf && len(pred.Succs) == 2 && pred.Succs[0] != pred.Succs[1] {
				for si, sb := range pred.Succs {
					if sb == phi.Block() {
						v, neg := StripNot(ifi.Cond)
						truth := si == 0
						if neg {
							truth = !truth
						}
						extra = append(extra, Cond{If: ifi, Val: v, Truth: truth})
					}
				}
			}
		}
		if _, isK := phi.Edges[cand].(*ssa.Const); !isK {
			v, neg := StripNot(phi.Edges[cand])
			truth := cd.Truth
			if neg {
				truth = !truth
			}
			extra = append(extra, Cond{If: cd.If, Val: v, Truth: truth})
		}
		for _, e := range extra {
			out = append(out, e)
			through(e, depth+1)
		}
	}
	for _, cd := range base {
		through(cd, 0)
	}
	return out
}

func baseConditions(b *ssa.BasicBlock) []Cond {
	var out []Cond
	fn := b.Parent()
	for _, d := range fn.Blocks {
		if len(d.Instrs) == 0 {
			continue
		}
		ifi, ok := d.Instrs[len(d.Instrs)-1].(*ssa.If)
		if !ok {
			continue
		}
		for i := 0; i < 2; i++ {
			if EdgeDominates(d, i, b) {
				v, neg := StripNot(ifi.Cond)
				truth := i == 0
				if neg {
					truth = !truth
				}
				out = append(out, Cond{If: ifi, Val: v, Truth: truth})
			}
		}
	}
	return out
}

// Returns lists the return instructions of fn, skipping the synthetic recover block.
func Returns(fn *ssa.Function) []*ssa.Return {
	var out []*ssa.Return
	for _, b := range fn.Blocks {
		if b == fn.Recover {
			continue
		}
		for _, in := range b.Instrs {
			if r, ok := in.(*ssa.Return); ok {
				out = append(out, r)
			}
		}
	}
	return out
}

// ResultValue returns the i-th result of a return, looking through the spill that
// go/ssa inserts in functions with defers (*t0 = x; rundefers; t = *t0; return t).
func ResultValue(r *ssa.Return, i int) ssa.Value {
	if i >= len(r.Results) {
		return nil
	}
	v := r.Results[i]
	if u, ok := v.(*ssa.UnOp); ok && u.Op == token.MUL {
		if a, ok := u.X.(*ssa.Alloc); ok {
			// last store to a in the same block before the return
			var last ssa.Value
			for _, in := range r.Block().Instrs {
				if in == ssa.Instruction(r) {
					break
				}
				if st, ok := in.(*ssa.Store); ok && st.Addr == ssa.Value(a) {
					last = st.Val
				}
			}
			if last != nil {
				return last
			}
		}
	}
	return v
}

// ErrIndex returns the index of the last result of fn if it has type error, else -1.
func ErrIndex(fn *ssa.Function) int {
	res := fn.Signature.Results()
	if res.Len() == 0 {
		return -1
	}
	last := res.At(res.Len() - 1).Type()
	if types.Identical(last, types.Universe.Lookup("error").Type()) {
		return res.Len() - 1
	}
	return -1
}

// NilState classifies an error-typed value at a program point.
type NilState int

const (
	MaybeNil NilState = iota
	IsNil
	NonNil
)

// ErrState decides whether the error value v, used in block at, is provably nil,
// provably non-nil, or possibly either. passThrough lists functions f(err) error that
// return nil exactly when their argument is nil (the repository's converters).
func ErrState(v ssa.Value, at *ssa.BasicBlock, passThrough func(*types.Func) bool) NilState {
	return errState(v, at, passThrough, map[ssa.Value]bool{})
}

func errState(v ssa.Value, at *ssa.BasicBlock, pt func(*types.Func) bool, seen map[ssa.Value]bool) NilState {
	if seen[v] {
		return MaybeNil
	}
	seen[v] = true
	switch x := v.(type) {
	case *ssa.Const:
		if x.IsNil() {
			return IsNil
		}
		return NonNil
	case *ssa.MakeInterface:
		return NonNil
	case *ssa.UnOp:
		if x.Op == token.MUL {
			if g, ok := x.X.(*ssa.Global); ok && isErrSentinel(g) {
				return NonNil
			}
		}
	case *ssa.Call:
		if o := CalleeObj(x); o != nil {
			q := QualName(o)
			switch q {
			case "errors.New", "fmt.Errorf", "github.com/pkg/errors.New", "github.com/pkg/errors.Errorf":
				return NonNil
			}
			if pt != nil && pt(o) && len(x.Call.Args) >= 1 {
				// converter: nil iff its (last error-typed) argument is nil
				for i := len(x.Call.Args) - 1; i >= 0; i-- {
					if types.Identical(x.Call.Args[i].Type(), types.Universe.Lookup("error").Type()) {
						return errState(x.Call.Args[i], at, pt, seen)
					}
				}
			}
		}
	case *ssa.Phi:
		st := NilState(-1)
		for i, e := range x.Edges {
			// evaluate each incoming value at the predecessor it arrives from
			s := errState(e, x.Block().Preds[i], pt, seen)
			if st == -1 {
				st = s
			} else if st != s {
				st = MaybeNil
			}
		}
		if st == -1 {
			return MaybeNil
		}
		if st != MaybeNil {
			return st
		}
	}
	// branch knowledge: v != nil / v == nil dominating `at`
	for _, c := range Conditions(at) {
		if b, ok := c.Val.(*ssa.BinOp); ok && (b.Op == token.NEQ || b.Op == token.EQL) {
			var other ssa.Value
			if b.X == v {
				other = b.Y
			} else if b.Y == v {
				other = b.X
			} else {
				continue
			}
			if k, ok := other.(*ssa.Const); ok && k.IsNil() {
				isNeq := b.Op == token.NEQ
				if isNeq == c.Truth {
					return NonNil
				}
				return IsNil
			}
		}
		// errors.Is(v, X) true  => v non-nil
		if call, ok := c.Val.(*ssa.Call); ok && c.Truth {
			if o := CalleeObj(call); o != nil && QualName(o) == "errors.Is" && len(call.Call.Args) == 2 && call.Call.Args[0] == v {
				return NonNil
			}
		}
	}
	return MaybeNil
}

func isErrSentinel(g *ssa.Global) bool {
	pt, ok := g.Type().(*types.Pointer)
	if !ok {
		return false
	}
	return types.Identical(pt.Elem(), types.Universe.Lookup("error").Type())
}

// SuccessCapable reports whether a return may hand back a nil error.
func SuccessCapable(r *ssa.Return, pt func(*types.Func) bool) bool {
	i := ErrIndex(r.Parent())
	if i < 0 {
		return true
	}
	v := ResultValue(r, i)
	// `return f(args)` inside f itself ("start over"): what is returned was produced by a
	// return of another activation of the same function, which is judged there
	var call *ssa.Call
	switch x := v.(type) {
	case *ssa.Call:
		call = x
	case *ssa.Extract:
		call, _ = x.Tuple.(*ssa.Call)
	}
	if call != nil && call.Call.StaticCallee() == r.Parent() {
		return false
	}
	return ErrState(v, r.Block(), pt) != NonNil
}

// CallsTo lists the call instructions in fn (and, when deep, in its closures) whose
// resolved callee satisfies pred.
func CallsTo(fn *ssa.Function, deep bool, pred func(*types.Func) bool) []ssa.CallInstruction {
	var out []ssa.CallInstruction
	fns := []*ssa.Function{fn}
	if deep {
		fns = AllSSA(fn)
	}
	for _, f := range fns {
		Instrs(f, func(in ssa.Instruction) {
			if c, ok := in.(ssa.CallInstruction); ok {
				if o := CalleeObj(c); o != nil && pred(o) {
					out = append(out, c)
				}
			}
		})
	}
	return out
}

// Named returns a predicate matching any of the qualified names.
func Named(names ...string) func(*types.Func) bool {
	return func(f *types.Func) bool {
		q := QualName(f)
		for _, n := range names {
			if q == n {
				return true
			}
		}
		return false
	}
}

// ReachesReturnAvoiding reports a success-capable return of fn that is reachable from
// the entry without executing any instruction for which stop returns true; nil if every
// such return is preceded by a stop instruction on every path.
func ReachesReturnAvoiding(fn *ssa.Function, stop func(ssa.Instruction) bool, isTarget func(*ssa.Return) bool) *ssa.Return {
	if len(fn.Blocks) == 0 {
		return nil
	}
	seen := map[*ssa.BasicBlock]bool{}
	var found *ssa.Return
	var visit func(b *ssa.BasicBlock)
	visit = func(b *ssa.BasicBlock) {
		if seen[b] || found != nil {
			return
		}
		seen[b] = true
		for _, in := range b.Instrs {
			if stop(in) {
				return
			}
			if r, ok := in.(*ssa.Return); ok {
				if isTarget(r) {
					found = r
				}
				return
			}
		}
		for _, s := range b.Succs {
			visit(s)
		}
	}
	visit(fn.Blocks[0])
	return found
}

// FieldOf: if v is a load of (or the address of) a struct field, returns the field.
func FieldOf(v ssa.Value) *types.Var {
	if u, ok := v.(*ssa.UnOp); ok && u.Op == token.MUL {
		v = u.X
	}
	switch x := v.(type) {
	case *ssa.FieldAddr:
		st := derefStruct(x.X.Type())
		if st != nil {
			return st.Field(x.Field)
		}
	case *ssa.Field:
		if st, ok := x.X.Type().Underlying().(*types.Struct); ok {
			return st.Field(x.Field)
		}
	}
	return nil
}

func derefStruct(t types.Type) *types.Struct {
	if p, ok := t.Underlying().(*types.Pointer); ok {
		t = p.Elem()
	}
	st, _ := t.Underlying().(*types.Struct)
	return st
}

// FieldPath renders a chain of field loads such as dm.s.config.WriteQuorum as
// ["s","config","WriteQuorum"]; nil when v is not a pure field chain.
func FieldPath(v ssa.Value) []string {
	var path []string
	for {
		if u, ok := v.(*ssa.UnOp); ok && u.Op == token.MUL {
			v = u.X
			continue
		}
		switch x := v.(type) {
		case *ssa.FieldAddr:
			st := derefStruct(x.X.Type())
			if st == nil {
				return nil
			}
			path = append([]string{st.Field(x.Field).Name()}, path...)
			v = x.X
			continue
		case *ssa.Field:
			st, ok := x.X.Type().Underlying().(*types.Struct)
			if !ok {
				return nil
			}
			path = append([]string{st.Field(x.Field).Name()}, path...)
			v = x.X
			continue
		}
		return path
	}
}

// LastField returns the name of the innermost field loaded by v ("" if none).
func LastField(v ssa.Value) string {
	p := FieldPath(v)
	if len(p) == 0 {
		return ""
	}
	return p[len(p)-1]
}

// ReachesReturnFrom is ReachesReturnAvoiding starting right after instruction start.
func ReachesReturnFrom(start ssa.Instruction, stop func(ssa.Instruction) bool, isTarget func(*ssa.Return) bool) *ssa.Return {
	seen := map[*ssa.BasicBlock]bool{}
	var found *ssa.Return
	scan := func(instrs []ssa.Instruction) bool { // returns true when the path continues
		for _, in := range instrs {
			if stop(in) {
				return false
			}
			if r, ok := in.(*ssa.Return); ok {
				if isTarget(r) {
					found = r
				}
				return false
			}
		}
		return true
	}
	var visit func(b *ssa.BasicBlock)
	visit = func(b *ssa.BasicBlock) {
		if seen[b] || found != nil {
			return
		}
		seen[b] = true
		if scan(b.Instrs) {
			for _, s := range b.Succs {
				visit(s)
			}
		}
	}
	b := start.Block()
	i := InstrIndex(start)
	if scan(b.Instrs[i+1:]) {
		for _, s := range b.Succs {
			visit(s)
		}
	}
	return found
}
