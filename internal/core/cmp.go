package core

import (
	"go/token"
	"go/types"

	"golang.org/x/tools/go/ssa"
)

// CmpTaken analyses an If whose condition is a comparison between quantity A and
// quantity B (identified by predicates on SSA values, in either operand order, possibly
// negated). For each abstract ordering of A relative to B (index 0: A<B, 1: A==B,
// 2: A>B) it returns the successor index that is taken (0 = true edge, 1 = false edge).
// Because the two quantities are touched only through this comparison, the table is
// complete over all concrete values.
func CmpTaken(ifi *ssa.If, isA, isB func(ssa.Value) bool) (taken [3]int, ok bool) {
	v, neg := StripNot(ifi.Cond)
	b, isBin := v.(*ssa.BinOp)
	if !isBin || !IsCompare(b.Op) {
		return taken, false
	}
	swap := false
	switch {
	case isA(b.X) && isB(b.Y):
	case isA(b.Y) && isB(b.X):
		swap = true
	default:
		return taken, false
	}
	for i, ord := range []int{-1, 0, 1} {
		o := ord
		if swap {
			o = -ord
		}
		holds := CmpHolds(b.Op, o)
		if neg {
			holds = !holds
		}
		if holds {
			taken[i] = 0
		} else {
			taken[i] = 1
		}
	}
	return taken, true
}

// FindCmpIfs lists the If instructions of fn comparing A with B.
func FindCmpIfs(fn *ssa.Function, isA, isB func(ssa.Value) bool) []*ssa.If {
	var out []*ssa.If
	for _, b := range fn.Blocks {
		if len(b.Instrs) == 0 {
			continue
		}
		if ifi, ok := b.Instrs[len(b.Instrs)-1].(*ssa.If); ok {
			if _, ok := CmpTaken(ifi, isA, isB); ok {
				out = append(out, ifi)
			}
		}
	}
	return out
}

// ReturnsFrom lists the returns reachable from block start without re-entering barrier.
func ReturnsFrom(start, barrier *ssa.BasicBlock) []*ssa.Return {
	seen := map[*ssa.BasicBlock]bool{}
	var out []*ssa.Return
	var visit func(b *ssa.BasicBlock)
	visit = func(b *ssa.BasicBlock) {
		if seen[b] || b == barrier {
			return
		}
		seen[b] = true
		for _, in := range b.Instrs {
			if r, ok := in.(*ssa.Return); ok {
				out = append(out, r)
			}
		}
		for _, s := range b.Succs {
			visit(s)
		}
	}
	visit(start)
	return out
}

// IsLenOf returns a predicate matching len(x) for an x accepted by pred.
func IsLenOf(pred func(ssa.Value) bool) func(ssa.Value) bool {
	return func(v ssa.Value) bool {
		c, ok := v.(*ssa.Call)
		if !ok {
			return false
		}
		b, ok := c.Call.Value.(*ssa.Builtin)
		if !ok || b.Name() != "len" || len(c.Call.Args) != 1 {
			return false
		}
		return pred(c.Call.Args[0])
	}
}

// IsFieldLoad returns a predicate matching a load of a struct field with the given
// name whose struct type is named typeName (e.g. "Config", "ReadQuorum"). Conversions
// are looked through.
func IsFieldLoad(typeName, field string) func(ssa.Value) bool {
	return func(v ssa.Value) bool {
		v = StripConv(v)
		u, ok := v.(*ssa.UnOp)
		if !ok || u.Op != token.MUL {
			return false
		}
		fa, ok := u.X.(*ssa.FieldAddr)
		if !ok {
			return false
		}
		t := fa.X.Type()
		if p, ok := t.Underlying().(*types.Pointer); ok {
			t = p.Elem()
		}
		n, ok := t.(*types.Named)
		if !ok || n.Obj().Name() != typeName {
			return false
		}
		st, ok := n.Underlying().(*types.Struct)
		return ok && st.Field(fa.Field).Name() == field
	}
}

// StripConv removes numeric conversions and type changes.
func StripConv(v ssa.Value) ssa.Value {
	for {
		switch x := v.(type) {
		case *ssa.Convert:
			v = x.X
		case *ssa.ChangeType:
			v = x.X
		default:
			return v
		}
	}
}

// IsCallTo returns a predicate matching the result of a call to one of the functions.
func IsCallTo(names ...string) func(ssa.Value) bool {
	pred := Named(names...)
	return func(v ssa.Value) bool {
		v = StripConv(v)
		c, ok := v.(*ssa.Call)
		if !ok {
			return false
		}
		o := CalleeObj(c)
		return o != nil && pred(o)
	}
}

// IsGlobalLoad reports whether v loads the package-level variable pkgRel.name.
func IsGlobalLoad(v ssa.Value, pkgRel, name string) bool {
	u, ok := v.(*ssa.UnOp)
	if !ok || u.Op != token.MUL {
		return false
	}
	g, ok := u.X.(*ssa.Global)
	if !ok || g.Pkg == nil {
		return false
	}
	return g.Name() == name && RelPkg(g.Pkg.Pkg.Path()) == pkgRel
}

// PhiWeb returns the set of values connected to v through phi nodes and additions of a
// constant (a counter and all its incremented versions).
func PhiWeb(v ssa.Value) map[ssa.Value]bool {
	web := map[ssa.Value]bool{}
	var visit func(ssa.Value)
	visit = func(x ssa.Value) {
		if web[x] {
			return
		}
		switch y := x.(type) {
		case *ssa.Phi:
			web[x] = true
			for _, e := range y.Edges {
				visit(e)
			}
		case *ssa.BinOp:
			if y.Op == token.ADD || y.Op == token.SUB {
				if _, ok := y.Y.(*ssa.Const); ok {
					web[x] = true
					visit(y.X)
				}
			}
		case *ssa.Const:
			web[x] = true
		}
	}
	visit(v)
	return web
}
