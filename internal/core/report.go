package core

import (
	"bufio"
	"crypto/sha1"
	"encoding/hex"
	"encoding/json"
	"fmt"
	"golang.org/x/tools/go/packages"
	"os"
	"path/filepath"
	"sort"
	"strconv"
	"strings"
	"time"
)

// Verdicts of an obligation.
const (
	Discharged = "discharged"
	Violated   = "violated"
	Undecided  = "undecided"
	Excepted   = "excepted"
)

// Obligation is one rule instance: rule + construct is the key (never a line number).
type Obligation struct {
	Rule      string `json:"rule"`
	Construct string `json:"construct"`
	Site      string `json:"site"`
	Verdict   string `json:"verdict"`
	Why       string `json:"why"`
	Path      string `json:"path,omitempty"`
	Known     bool   `json:"known_finding,omitempty"`
}

// Run collects the obligations of one property check.
type Run struct {
	P        *Prog
	Property string
	Tier     string
	Obls     []*Obligation
	Floors   map[string][2]int // rule -> {found, floor}
	Notes    []string
	// Sensitivity is filled by the thorough tier: one record per seeded change that was
	// applied to a scratch copy and re-analysed. It never influences the exit code.
	Sensitivity any
	// Quiet suppresses report files and stdout (used for scratch-copy runs).
	Quiet     bool
	Explain   string
	Assume    []string
	FuncsSeen map[string]bool
	CallSites int
	start     time.Time
}

// processStart is taken when the analyser starts, so that wall_s includes loading and
// type-checking the repository.
var processStart = time.Now()

func NewRun(p *Prog, property, tier string) *Run {
	return &Run{P: p, Property: property, Tier: tier, Floors: map[string][2]int{},
		FuncsSeen: map[string]bool{}, start: processStart}
}

func (r *Run) add(rule, construct, site, verdict, why string) *Obligation {
	o := &Obligation{Rule: r.Property + "." + rule, Construct: construct, Site: site, Verdict: verdict, Why: why}
	r.Obls = append(r.Obls, o)
	return o
}

func (r *Run) OK(rule, construct, site, why string) { r.add(rule, construct, site, Discharged, why) }
func (r *Run) Bad(rule, construct, site, why string) *Obligation {
	return r.add(rule, construct, site, Violated, why)
}
func (r *Run) Unknown(rule, construct, site, why string) {
	r.add(rule, construct, site, Undecided, why)
}
func (r *Run) Except(rule, construct, site, why string) { r.add(rule, construct, site, Excepted, why) }

// Check records a discharged or violated obligation depending on ok.
func (r *Run) Check(ok bool, rule, construct, site, whyOK, whyBad string) bool {
	if ok {
		r.OK(rule, construct, site, whyOK)
	} else {
		r.Bad(rule, construct, site, whyBad)
	}
	return ok
}

// Floor records the instance count of a rule; a count below the hand-confirmed floor
// makes the property undecided (a rule that matches nothing passes vacuously forever).
func (r *Run) Floor(rule string, found, floor int) {
	r.Floors[r.Property+"."+rule] = [2]int{found, floor}
	if found < floor {
		r.Unknown(rule, "instance-floor", "-", fmt.Sprintf("rule matched %d instances, hand-confirmed floor is %d: the anchors of this rule were not found, so the property cannot be shown to hold", found, floor))
	}
}

// Need resolves a function by qualified name; a missing anchor is undecided.
func (r *Run) Need(rule, name string) *Fn {
	f := r.P.Fn(name)
	if f == nil {
		r.Unknown(rule, name, "-", "anchor function not found in the tree (renamed or removed); the rule cannot be evaluated")
		return nil
	}
	r.FuncsSeen[name] = true
	return f
}

// ---- known findings ----

type knownFinding struct {
	Property, Rule, Construct, What string
}

func loadKnown(verifDir string) ([]knownFinding, error) {
	f, err := os.Open(filepath.Join(verifDir, "KNOWN_FINDINGS.txt"))
	if err != nil {
		if os.IsNotExist(err) {
			return nil, nil
		}
		return nil, err
	}
	defer f.Close()
	var out []knownFinding
	sc := bufio.NewScanner(f)
	for sc.Scan() {
		line := strings.TrimSpace(sc.Text())
		if !strings.HasPrefix(line, "finding:") {
			continue // "fixed:" lines and comments suppress nothing
		}
		kf := knownFinding{}
		rest := strings.TrimSpace(strings.TrimPrefix(line, "finding:"))
		if i := strings.Index(rest, " what="); i >= 0 {
			kf.What = rest[i+6:]
			rest = rest[:i]
		}
		for _, tok := range splitQuoted(rest) {
			k, v, ok := strings.Cut(tok, "=")
			if !ok {
				continue
			}
			v = strings.Trim(v, `"`)
			switch k {
			case "property":
				kf.Property = v
			case "rule":
				kf.Rule = v
			case "construct":
				kf.Construct = v
			}
		}
		out = append(out, kf)
	}
	return out, sc.Err()
}

func splitQuoted(s string) []string {
	var out []string
	var cur strings.Builder
	inq := false
	for _, c := range s {
		switch {
		case c == '"':
			inq = !inq
			cur.WriteRune(c)
		case c == ' ' && !inq:
			if cur.Len() > 0 {
				out = append(out, cur.String())
				cur.Reset()
			}
		default:
			cur.WriteRune(c)
		}
	}
	if cur.Len() > 0 {
		out = append(out, cur.String())
	}
	return out
}

// ---- finishing: reports, evidence, exit code ----

// DropProgram releases the loaded program (some gigabytes) once the rules have run; only
// the counts that the evidence reports are kept.
func (r *Run) DropProgram() {
	if r.P == nil {
		return
	}
	r.P = &Prog{Dir: r.P.Dir, Pkgs: make([]*packages.Package, len(r.P.Pkgs)), FuncList: make([]*Fn, len(r.P.FuncList))}
}

func VerifDir() string {
	if d := os.Getenv("VERIF_DIR"); d != "" {
		return d
	}
	return "/verif"
}

func hash(s string) string {
	h := sha1.Sum([]byte(s))
	return hex.EncodeToString(h[:])[:10]
}

// Finish writes reports and the evidence file, prints VIOLATION / KNOWN-FINDING lines
// and returns the process exit code.
func (r *Run) Finish() int {
	vd := VerifDir()
	known, err := loadKnown(vd)
	if err != nil {
		fmt.Fprintf(os.Stderr, "cannot read KNOWN_FINDINGS.txt: %v\n", err)
		return 2
	}
	os.MkdirAll(filepath.Join(vd, "reports"), 0o755)
	os.MkdirAll(filepath.Join(vd, "evidence"), 0o755)

	sort.SliceStable(r.Obls, func(i, j int) bool {
		a, b := r.Obls[i], r.Obls[j]
		if a.Rule != b.Rule {
			return a.Rule < b.Rule
		}
		return a.Construct < b.Construct
	})

	nviol, nknown := 0, 0
	var knownLines []string
	distinct := map[string]bool{}
	discharged := 0
	for _, o := range r.Obls {
		key := o.Rule + "|" + o.Construct
		switch o.Verdict {
		case Discharged:
			discharged++
			distinct[key] = true
		case Excepted:
			discharged++
		case Violated, Undecided:
			distinct[key] = true
			if o.Verdict == Violated {
				matched := false
				for _, k := range known {
					if k.Property == r.Property && k.Rule == o.Rule && k.Construct == o.Construct {
						matched = true
						o.Known = true
						nknown++
						line := fmt.Sprintf("KNOWN-FINDING: property=%s %s [%s %s at %s]", r.Property, k.What, o.Rule, o.Construct, o.Site)
						knownLines = append(knownLines, line)
						break
					}
				}
				if matched {
					continue
				}
			}
			nviol++
			rep := map[string]any{
				"property": r.Property, "kind": map[string]string{Violated: "violation", Undecided: "undecided"}[o.Verdict],
				"rule": o.Rule, "construct": o.Construct, "site": o.Site, "why": o.Why, "path": o.Path,
				"tier": r.Tier, "repo": r.P.Dir,
			}
			name := fmt.Sprintf("%s-%s-%s.json", r.Property, strings.TrimPrefix(o.Rule, r.Property+"."), hash(key))
			path := filepath.Join(vd, "reports", name)
			b, _ := json.MarshalIndent(rep, "", " ")
			os.WriteFile(path, append(b, '\n'), 0o644)
			fmt.Printf("%s: [%s] %s: %s — %s\n", o.Site, o.Rule, o.Construct, o.Verdict, o.Why)
			fmt.Printf("VIOLATION property=%s replay=%s\n", r.Property, path)
		}
	}
	for _, l := range knownLines {
		fmt.Println(l)
	}

	// samples: every non-discharged obligation, plus up to 12 discharged ones spread over rules
	var samples []*Obligation
	perRule := map[string]int{}
	for _, o := range r.Obls {
		if o.Verdict != Discharged && o.Verdict != Excepted {
			samples = append(samples, o)
			continue
		}
		if perRule[o.Rule] < 2 && len(samples) < 40 {
			perRule[o.Rule]++
			samples = append(samples, o)
		}
	}
	floors := map[string]any{}
	for k, v := range r.Floors {
		floors[k] = map[string]int{"found": v[0], "floor": v[1]}
	}
	rules := map[string]int{}
	for _, o := range r.Obls {
		rules[o.Rule]++
	}
	seed := 0
	if s := os.Getenv("VERIF_SEED"); s != "" {
		seed, _ = strconv.Atoi(s)
	}
	var fl []string
	for f := range r.FuncsSeen {
		fl = append(fl, f)
	}
	sort.Strings(fl)
	ev := map[string]any{
		"property_id": r.Property,
		"tier":        r.Tier,
		"seed":        seed,
		"level":       "other",
		"coverage": map[string]any{
			"explanation":          r.Explain,
			"rule":                 "one obligation per (rule, construct) found in /repo's current source; an obligation is non-trivial unless it was satisfied by a named exception row; distinct = distinct (rule, construct) keys",
			"obligations":          len(r.Obls),
			"discharged":           discharged,
			"evaluations":          len(r.Obls),
			"distinct_nontrivial":  len(distinct),
			"samples":              samples,
			"obligations_per_rule": rules,
			"packages":             len(r.P.Pkgs),
			"functions_in_repo":    len(r.P.FuncList),
			"anchor_functions":     fl,
			"call_sites_examined":  r.CallSites,
			"floors":               floors,
			"known_findings":       knownLines,
			"notes":                r.Notes,
			"sensitivity":          r.Sensitivity,
			"renamed_anchors":      Renames,
			"normalised":           Normalised,
			"exhaustive":           true,
			"checker_cmd":          fmt.Sprintf("bin/olricvet check %s %s", r.Property, r.Tier),
		},
		"assumptions": append([]string{
			"go/types and go/ssa (x/tools v0.29.0) model this code correctly",
			"third-party packages are opaque (types only)",
		}, r.Assume...),
		"wall_s":     time.Since(r.start).Seconds(),
		"violations": nviol,
	}
	b, _ := json.MarshalIndent(ev, "", " ")
	if err := os.WriteFile(filepath.Join(vd, "evidence", r.Property+".json"), append(b, '\n'), 0o644); err != nil {
		fmt.Fprintf(os.Stderr, "cannot write evidence: %v\n", err)
		return 2
	}
	fmt.Printf("property=%s tier=%s obligations=%d discharged=%d violations=%d known=%d packages=%d wall=%.1fs\n",
		r.Property, r.Tier, len(r.Obls), discharged, nviol, nknown, len(r.P.Pkgs), time.Since(r.start).Seconds())
	if nviol > 0 {
		return 1
	}
	return 0
}
