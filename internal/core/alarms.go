package core

// Alarms returns the obligations that would make the check fail: violated or undecided
// ones that are not listed as known findings.
func (r *Run) Alarms() []*Obligation {
	known, _ := loadKnown(VerifDir())
	var out []*Obligation
	for _, o := range r.Obls {
		if o.Verdict != Violated && o.Verdict != Undecided {
			continue
		}
		if o.Verdict == Violated {
			matched := false
			for _, k := range known {
				if k.Property == r.Property && k.Rule == o.Rule && k.Construct == o.Construct {
					matched = true
				}
			}
			if matched {
				continue
			}
		}
		out = append(out, o)
	}
	return out
}
