// Package core loads /repo's current working tree (syntax, types, SSA) and offers the
// small query vocabulary the rules are written in: type-resolved function lookup,
// resolved callees, dominance on SSA, node-level control-flow queries on go/cfg.
//
// Nothing is cached between runs: every invocation re-parses and re-type-checks the
// repository as it is on disk.
package core

import (
	"fmt"
	"go/ast"
	"go/token"
	"go/types"
	"os"
	"sort"
	"strings"

	"golang.org/x/tools/go/packages"
	"golang.org/x/tools/go/ssa"
	"golang.org/x/tools/go/ssa/ssautil"
)

// Module is the import path prefix of the analysed repository.
const Module = "github.com/olric-data/olric"

// Fn is one source function (or method) of the repository.
type Fn struct {
	Pkg  *packages.Package
	Decl *ast.FuncDecl
	Obj  *types.Func
	SSA  *ssa.Function
	Name string // qualified: "internal/dmap.(*DMap).putOnCluster"
}

type Prog struct {
	Dir      string
	Fset     *token.FileSet
	Pkgs     []*packages.Package
	ByPath   map[string]*packages.Package
	SSA      *ssa.Program
	SSAPkgs  map[string]*ssa.Package
	Funcs    map[string]*Fn      // by qualified name
	ByObj    map[*types.Func]*Fn // by object
	FuncList []*Fn
	// Callers maps a repository function object to the call sites that statically
	// resolve to it (direct calls, method calls on concrete receivers, and interface
	// calls resolved to every repository implementation).
	callers   map[*types.Func][]CallSite
	ifaceImpl map[*types.Func][]*types.Func
}

type CallSite struct {
	Caller *Fn
	Call   *ast.CallExpr
	InLit  *ast.FuncLit // innermost enclosing function literal, if any
	Go     bool         // the call is the operand of a go statement
	Defer  bool
}

// RepoDir returns the directory that is analysed (default /repo).
func RepoDir() string {
	if d := os.Getenv("OLRIC_REPO"); d != "" {
		return d
	}
	return "/repo"
}

// Load parses, type-checks and builds SSA for every package of the repository.
func Load() (*Prog, error) { return LoadDir(RepoDir()) }

// LoadDir is Load for an explicit directory (used by the sensitivity run on scratch
// copies of the repository).
func LoadDir(dir string) (*Prog, error) {
	p, err := loadDir(dir, nil)
	if err != nil {
		return nil, err
	}
	return normalise(p, func(overlay map[string][]byte) (*Prog, error) { return loadDir(dir, overlay) }), nil
}

// BuildTags, when set, is passed to the go command as -tags (the thorough tier analyses the
// tree once more under the build tags that select alternative source files).
var BuildTags string

// LoadWithTags loads the repository under additional build tags.
func LoadWithTags(tags string) (*Prog, error) {
	old := BuildTags
	BuildTags = tags
	defer func() { BuildTags = old }()
	return LoadDir(RepoDir())
}

func loadDir(dir string, overlay map[string][]byte) (*Prog, error) {
	fset := token.NewFileSet()
	env := append(os.Environ(),
		"GOFLAGS=-mod=mod", "GOPROXY=off", "GOSUMDB=off", "GOTOOLCHAIN=local", "GOWORK=off")
	cfg := &packages.Config{
		Mode: packages.NeedName | packages.NeedFiles | packages.NeedCompiledGoFiles |
			packages.NeedImports | packages.NeedDeps | packages.NeedTypes |
			packages.NeedTypesSizes | packages.NeedSyntax | packages.NeedTypesInfo,
		Dir:     dir,
		Fset:    fset,
		Env:     env,
		Tests:   false,
		Overlay: overlay,
	}
	if BuildTags != "" {
		cfg.BuildFlags = []string{"-tags=" + BuildTags}
	}
	pkgs, err := packages.Load(cfg, "./...")
	if err != nil {
		return nil, fmt.Errorf("packages.Load: %w", err)
	}
	if len(pkgs) == 0 {
		return nil, fmt.Errorf("no packages loaded from %s", dir)
	}
	var errs []string
	for _, p := range pkgs {
		for _, e := range p.Errors {
			errs = append(errs, e.Error())
		}
		if p.Types == nil || p.TypesInfo == nil {
			errs = append(errs, p.PkgPath+": no type information")
		}
	}
	if len(errs) > 0 {
		return nil, fmt.Errorf("the tree does not type-check:\n  %s", strings.Join(errs, "\n  "))
	}
	sort.Slice(pkgs, func(i, j int) bool { return pkgs[i].PkgPath < pkgs[j].PkgPath })

	p := &Prog{
		Dir: dir, Fset: fset, Pkgs: pkgs,
		ByPath:  map[string]*packages.Package{},
		SSAPkgs: map[string]*ssa.Package{},
		Funcs:   map[string]*Fn{},
		ByObj:   map[*types.Func]*Fn{},
	}
	prog, spkgs := ssautil.Packages(pkgs, ssa.BuilderMode(0))
	prog.Build()
	p.SSA = prog
	for i, pk := range pkgs {
		p.ByPath[pk.PkgPath] = pk
		if spkgs[i] == nil {
			return nil, fmt.Errorf("no SSA for %s", pk.PkgPath)
		}
		p.SSAPkgs[pk.PkgPath] = spkgs[i]
		for _, f := range pk.Syntax {
			for _, d := range f.Decls {
				fd, ok := d.(*ast.FuncDecl)
				if !ok || fd.Body == nil {
					continue
				}
				obj, _ := pk.TypesInfo.Defs[fd.Name].(*types.Func)
				if obj == nil {
					continue
				}
				fn := &Fn{Pkg: pk, Decl: fd, Obj: obj, SSA: prog.FuncValue(obj), Name: QualName(obj)}
				if fd.Name.Name == "init" || fd.Name.Name == "_" {
					continue
				}
				p.Funcs[fn.Name] = fn
				p.ByObj[obj] = fn
				p.FuncList = append(p.FuncList, fn)
			}
		}
	}
	p.adoptRenames()
	sort.Slice(p.FuncList, func(i, j int) bool { return p.FuncList[i].Name < p.FuncList[j].Name })
	return p, nil
}

// RelPkg strips the module prefix: "github.com/olric-data/olric/internal/dmap" -> "internal/dmap";
// the root package becomes "olric".
func RelPkg(path string) string {
	if path == Module {
		return "olric"
	}
	return strings.TrimPrefix(path, Module+"/")
}

// QualName renders a function object as "internal/dmap.(*DMap).put" / "internal/dmap.prepareTTL".
// A function that was recognised as a renamed anchor (see fingerprint.go) is reported
// under its recorded name.
func QualName(f *types.Func) string {
	if f == nil {
		return "<nil>"
	}
	if a, ok := aliases[f]; ok {
		return a
	}
	return rawQualName(f)
}

func rawQualName(f *types.Func) string {
	if f == nil {
		return "<nil>"
	}
	pkg := "<builtin>"
	if f.Pkg() != nil {
		pkg = RelPkg(f.Pkg().Path())
	}
	sig, _ := f.Type().(*types.Signature)
	if sig != nil && sig.Recv() != nil {
		t := sig.Recv().Type()
		ptr := ""
		if pt, ok := t.(*types.Pointer); ok {
			t = pt.Elem()
			ptr = "*"
		}
		name := "?"
		if nt, ok := t.(*types.Named); ok {
			name = nt.Obj().Name()
		} else if _, ok := t.Underlying().(*types.Interface); ok {
			name = t.String()
		}
		if ptr != "" {
			return fmt.Sprintf("%s.(*%s).%s", pkg, name, f.Name())
		}
		return fmt.Sprintf("%s.(%s).%s", pkg, name, f.Name())
	}
	return pkg + "." + f.Name()
}

// Pos renders a position relative to the repository root.
func (p *Prog) Pos(pos token.Pos) string {
	if !pos.IsValid() {
		return "-"
	}
	ps := p.Fset.Position(pos)
	f := strings.TrimPrefix(ps.Filename, p.Dir+"/")
	return fmt.Sprintf("%s:%d", f, ps.Line)
}

// Fn looks a function up by qualified name; nil when absent.
func (p *Prog) Fn(name string) *Fn { return p.Funcs[name] }

// Pkg returns the package with the given module-relative path ("internal/dmap", "olric").
func (p *Prog) Pkg(rel string) *packages.Package {
	if rel == "olric" {
		return p.ByPath[Module]
	}
	return p.ByPath[Module+"/"+rel]
}

// IsRepoPkg reports whether the package belongs to the analysed module.
func IsRepoPkg(pkg *types.Package) bool {
	return pkg != nil && (pkg.Path() == Module || strings.HasPrefix(pkg.Path(), Module+"/"))
}
