package core

import (
	"go/token"

	"golang.org/x/tools/go/ssa"
)

// BoolResult evaluates the boolean result (index ri) of f as a function of the values
// in env (typically one comparison, set to what it yields for one ordering of its
// operands), starting at block start. Branches on values the environment determines are
// followed; at any other branch both sides are explored and must agree. ok is false when
// the result depends on something else or the exploration meets a loop.
func BoolResult(f *ssa.Function, start *ssa.BasicBlock, ri int, env map[ssa.Value]bool) (res bool, ok bool) {
	type key struct{ b, from *ssa.BasicBlock }
	onPath := map[key]bool{}
	var eval func(v ssa.Value, from *ssa.BasicBlock, at *ssa.BasicBlock) (bool, bool)
	eval = func(v ssa.Value, from, at *ssa.BasicBlock) (bool, bool) {
		if b, known := env[v]; known {
			return b, true
		}
		switch x := v.(type) {
		case *ssa.Const:
			if x.Value != nil && (x.Value.String() == "true" || x.Value.String() == "false") {
				return x.Value.String() == "true", true
			}
		case *ssa.UnOp:
			if x.Op == token.NOT {
				b, ok := eval(x.X, from, at)
				return !b, ok
			}
		case *ssa.Phi:
			if x.Block() == at && from != nil {
				for i, p := range at.Preds {
					if p == from {
						return eval(x.Edges[i], nil, nil)
					}
				}
			}
		}
		return false, false
	}
	var run func(b, from *ssa.BasicBlock) (bool, bool)
	run = func(b, from *ssa.BasicBlock) (bool, bool) {
		k := key{b, from}
		if onPath[k] {
			return false, false
		}
		onPath[k] = true
		defer delete(onPath, k)
		if len(b.Instrs) == 0 {
			return false, false
		}
		// phis of b are resolved against `from` and remembered for the rest of the path
		var added []ssa.Value
		for _, in := range b.Instrs {
			phi, isPhi := in.(*ssa.Phi)
			if !isPhi {
				break
			}
			if _, known := env[phi]; known {
				continue
			}
			if v, ok := eval(phi, from, b); ok {
				env[phi] = v
				added = append(added, phi)
			}
		}
		defer func() {
			for _, a := range added {
				delete(env, a)
			}
		}()
		switch t := b.Instrs[len(b.Instrs)-1].(type) {
		case *ssa.Return:
			return eval(ResultValue(t, ri), from, b)
		case *ssa.If:
			if c, ok := eval(t.Cond, from, b); ok {
				if c {
					return run(b.Succs[0], b)
				}
				return run(b.Succs[1], b)
			}
			r0, ok0 := run(b.Succs[0], b)
			r1, ok1 := run(b.Succs[1], b)
			if ok0 && ok1 && r0 == r1 {
				return r0, true
			}
			return false, false
		case *ssa.Jump:
			return run(b.Succs[0], b)
		}
		return false, false
	}
	return run(start, nil)
}
