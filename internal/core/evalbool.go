package core

import (
	"go/token"
	"go/types"

	"golang.org/x/tools/go/ssa"
)

// BoolResult evaluates the boolean result (index ri) of f as a function of the values
// in env (typically one comparison, set to what it yields for one ordering of its
// operands), starting at block start. Branches on values the environment determines are
// followed; at any other branch both sides are explored and must agree. ok is false when
// the result depends on something else or the exploration meets a loop.
func BoolResult(f *ssa.Function, start *ssa.BasicBlock, ri int, env map[ssa.Value]bool) (res bool, ok bool) {
	type key struct{ b, from *ssa.BasicBlock }
	onPath := map[key]bool{}
	var eval func(v ssa.Value, from *ssa.BasicBlock, at *ssa.BasicBlock) (bool, bool)
	eval = func(v ssa.Value, from, at *ssa.BasicBlock) (bool, bool) {
		if b, known := env[v]; known {
			return b, true
		}
		switch x := v.(type) {
		case *ssa.Const:
			if x.Value != nil && (x.Value.String() == "true" || x.Value.String() == "false") {
				return x.Value.String() == "true", true
			}
		case *ssa.UnOp:
			if x.Op == token.NOT {
				b, ok := eval(x.X, from, at)
				return !b, ok
			}
		case *ssa.Phi:
			if x.Block() == at && from != nil {
				for i, p := range at.Preds {
					if p == from {
						return eval(x.Edges[i], nil, nil)
					}
				}
			}
		}
		return false, false
	}
	var run func(b, from *ssa.BasicBlock) (bool, bool)
	run = func(b, from *ssa.BasicBlock) (bool, bool) {
		k := key{b, from}
		if onPath[k] {
			return false, false
		}
		onPath[k] = true
		defer delete(onPath, k)
		if len(b.Instrs) == 0 {
			return false, false
		}
		// phis of b are resolved against `from` and remembered for the rest of the path
		var added []ssa.Value
		for _, in := range b.Instrs {
			phi, isPhi := in.(*ssa.Phi)
			if !isPhi {
				break
			}
			if _, known := env[phi]; known {
				continue
			}
			if v, ok := eval(phi, from, b); ok {
				env[phi] = v
				added = append(added, phi)
			}
		}
		defer func() {
			for _, a := range added {
				delete(env, a)
			}
		}()
		switch t := b.Instrs[len(b.Instrs)-1].(type) {
		case *ssa.Return:
			return eval(ResultValue(t, ri), from, b)
		case *ssa.If:
			if c, ok := eval(t.Cond, from, b); ok {
				if c {
					return run(b.Succs[0], b)
				}
				return run(b.Succs[1], b)
			}
			r0, ok0 := run(b.Succs[0], b)
			r1, ok1 := run(b.Succs[1], b)
			if ok0 && ok1 && r0 == r1 {
				return r0, true
			}
			return false, false
		case *ssa.Jump:
			return run(b.Succs[0], b)
		}
		return false, false
	}
	return run(start, nil)
}

// SuccessValue looks through the merge that inlining a multi-return helper creates:
// when v is a phi whose block also merges an error-typed phi e, exactly one incoming
// edge can carry a nil e, and v is a zero constant on every other edge, the value v has
// wherever the error was found nil is the one arriving on that edge. (Uses of v on the
// failing edges see the zero value; rules that reason about the value handed out on
// success use this view.)
func SuccessValue(v ssa.Value) ssa.Value {
	for depth := 0; depth < 4; depth++ {
		phi, ok := v.(*ssa.Phi)
		if !ok {
			return v
		}
		var errPhi *ssa.Phi
		for _, in := range phi.Block().Instrs {
			p2, isPhi := in.(*ssa.Phi)
			if !isPhi {
				break
			}
			if p2 != phi && types.Identical(p2.Type(), types.Universe.Lookup("error").Type()) {
				errPhi = p2
			}
		}
		if errPhi == nil {
			return v
		}
		success := -1
		n := 0
		for i, e := range errPhi.Edges {
			if ErrState(e, phi.Block().Preds[i], nil) != NonNil {
				success = i
				n++
			}
		}
		if n != 1 {
			return v
		}
		for j, e := range phi.Edges {
			if j == success {
				continue
			}
			k, isK := e.(*ssa.Const)
			if !isK || !(k.IsNil() || k.Value == nil || k.Value.String() == "0" || k.Value.String() == "false" || k.Value.String() == `""`) {
				return v
			}
		}
		v = phi.Edges[success]
	}
	return v
}
