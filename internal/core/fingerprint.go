package core

import (
	"encoding/json"
	"go/ast"
	"go/types"
	"os"
	"path/filepath"
	"sort"
)

// Rename tolerance. Rules name their anchors by qualified function name (resolved
// through the type checker, never by text). A behaviour-preserving rename of an
// unexported helper would otherwise make every rule anchored on it undecided. To avoid
// that, /verif/rules/fingerprints.json records, for every function of the repository at
// the time the rules were written, its package, receiver, signature and the set of
// functions it calls. When a recorded name is missing from the tree, the loader looks for
// a function with a NEW name (one that is not in the record) in the same package with the
// same receiver and signature whose callee set is similar; a unique, clearly best
// candidate is treated as the renamed function: QualName reports the recorded name for
// it, so every rule keeps working. Ambiguous or dissimilar candidates are not adopted
// (the anchor stays missing and the rule reports "undecided").

type Fingerprint struct {
	Name    string   `json:"name"`
	Sig     string   `json:"sig"`
	Callees []string `json:"callees"`
}

var aliases = map[*types.Func]string{}

// Renames lists the adopted renames of the last load: recorded name -> current name.
var Renames = map[string]string{}

func sigString(f *types.Func) string {
	return types.TypeString(f.Type(), func(p *types.Package) string { return p.Path() })
}

func calleesOf(fn *Fn) []string {
	set := map[string]bool{}
	WalkCalls(fn.Decl.Body, func(call *ast.CallExpr, _ *ast.FuncLit) {
		if o := Callee(fn.Pkg, call); o != nil {
			set[rawQualName(o)] = true
		}
	})
	var out []string
	for k := range set {
		out = append(out, k)
	}
	sort.Strings(out)
	return out
}

// Fingerprints computes the record for the loaded tree.
func (p *Prog) Fingerprints() []Fingerprint {
	var out []Fingerprint
	for _, fn := range p.FuncList {
		out = append(out, Fingerprint{Name: fn.Name, Sig: sigString(fn.Obj), Callees: calleesOf(fn)})
	}
	return out
}

func pkgAndRecv(name string) string {
	// "internal/dmap.(*DMap).put" -> "internal/dmap.(*DMap)" ; "internal/dmap.prepareTTL" -> "internal/dmap"
	for i := len(name) - 1; i >= 0; i-- {
		if name[i] == '.' {
			return name[:i]
		}
	}
	return name
}

func jaccard(a, b []string) float64 {
	if len(a) == 0 && len(b) == 0 {
		return 1
	}
	set := map[string]bool{}
	for _, x := range a {
		set[x] = true
	}
	inter := 0
	for _, x := range b {
		if set[x] {
			inter++
		}
	}
	union := len(a) + len(b) - inter
	if union == 0 {
		return 1
	}
	return float64(inter) / float64(union)
}

// adoptRenames is called at the end of Load.
func (p *Prog) adoptRenames() {
	for k := range aliases {
		delete(aliases, k)
	}
	for k := range Renames {
		delete(Renames, k)
	}
	b, err := os.ReadFile(filepath.Join(VerifDir(), "rules", "fingerprints.json"))
	if err != nil {
		b, err = os.ReadFile("/verif/rules/fingerprints.json")
		if err != nil {
			return
		}
	}
	var fps []Fingerprint
	if json.Unmarshal(b, &fps) != nil {
		return
	}
	recorded := map[string]bool{}
	for _, fp := range fps {
		recorded[fp.Name] = true
	}
	type cand struct {
		fn    *Fn
		score float64
	}
	taken := map[*Fn]bool{}
	for _, fp := range fps {
		if p.Funcs[fp.Name] != nil {
			continue
		}
		scope := pkgAndRecv(fp.Name)
		var cs []cand
		for _, fn := range p.FuncList {
			if recorded[fn.Name] || taken[fn] || pkgAndRecv(fn.Name) != scope || sigString(fn.Obj) != fp.Sig {
				continue
			}
			cs = append(cs, cand{fn, jaccard(fp.Callees, calleesOf(fn))})
		}
		if len(cs) == 0 {
			continue
		}
		sort.Slice(cs, func(i, j int) bool { return cs[i].score > cs[j].score })
		if cs[0].score < 0.5 {
			continue
		}
		if len(cs) > 1 && cs[1].score > cs[0].score-0.2 {
			continue
		}
		fn := cs[0].fn
		taken[fn] = true
		aliases[fn.Obj] = fp.Name
		Renames[fp.Name] = fn.Name
		delete(p.Funcs, fn.Name)
		fn.Name = fp.Name
		p.Funcs[fp.Name] = fn
	}
}
