package core

import (
	"go/ast"
	"go/constant"
	"go/token"
	"go/types"

	"golang.org/x/tools/go/packages"
	"golang.org/x/tools/go/types/typeutil"
)

// Callee resolves a call expression to a function object through type information.
func Callee(pkg *packages.Package, call *ast.CallExpr) *types.Func {
	o := typeutil.Callee(pkg.TypesInfo, call)
	f, _ := o.(*types.Func)
	return f
}

// WalkCalls visits every call expression under n. lit is the innermost enclosing
// function literal (nil at the top level of the declaration).
func WalkCalls(n ast.Node, f func(call *ast.CallExpr, lit *ast.FuncLit)) {
	var lits []*ast.FuncLit
	var visit func(n ast.Node)
	visit = func(n ast.Node) {
		ast.Inspect(n, func(m ast.Node) bool {
			switch x := m.(type) {
			case *ast.FuncLit:
				lits = append(lits, x)
				visit(x.Body)
				lits = lits[:len(lits)-1]
				return false
			case *ast.CallExpr:
				var l *ast.FuncLit
				if len(lits) > 0 {
					l = lits[len(lits)-1]
				}
				f(x, l)
			}
			return true
		})
	}
	visit(n)
}

// buildCallers indexes static call sites of repository functions.
func (p *Prog) buildCallers() {
	if p.callers != nil {
		return
	}
	p.callers = map[*types.Func][]CallSite{}
	for _, fn := range p.FuncList {
		fn := fn
		goCalls := map[*ast.CallExpr]bool{}
		deferCalls := map[*ast.CallExpr]bool{}
		ast.Inspect(fn.Decl.Body, func(n ast.Node) bool {
			switch x := n.(type) {
			case *ast.GoStmt:
				goCalls[x.Call] = true
			case *ast.DeferStmt:
				deferCalls[x.Call] = true
			}
			return true
		})
		WalkCalls(fn.Decl.Body, func(call *ast.CallExpr, lit *ast.FuncLit) {
			o := Callee(fn.Pkg, call)
			if o == nil {
				return
			}
			cs := CallSite{Caller: fn, Call: call, InLit: lit, Go: goCalls[call], Defer: deferCalls[call]}
			p.callers[o] = append(p.callers[o], cs)
		})
	}
}

// CallersOf returns the static call sites that resolve to the given function object.
// For a concrete method it also includes call sites of repository interface methods the
// method implements (CHA restricted to repository types).
func (p *Prog) CallersOf(f *types.Func) []CallSite {
	p.buildCallers()
	out := append([]CallSite(nil), p.callers[f]...)
	sig, _ := f.Type().(*types.Signature)
	if sig != nil && sig.Recv() != nil {
		recv := sig.Recv().Type()
		for o, sites := range p.callers {
			if o == f || o.Name() != f.Name() {
				continue
			}
			osig, _ := o.Type().(*types.Signature)
			if osig == nil || osig.Recv() == nil {
				continue
			}
			it, ok := osig.Recv().Type().Underlying().(*types.Interface)
			if !ok {
				continue
			}
			if types.Implements(recv, it) || types.Implements(types.NewPointer(recv), it) {
				out = append(out, sites...)
			}
		}
	}
	return out
}

// ConstInt evaluates an expression to an integer constant through type information.
func ConstInt(pkg *packages.Package, e ast.Expr) (int64, bool) {
	tv, ok := pkg.TypesInfo.Types[e]
	if !ok || tv.Value == nil {
		return 0, false
	}
	if tv.Value.Kind() != constant.Int {
		return 0, false
	}
	v, ok := constant.Int64Val(tv.Value)
	return v, ok
}

// ConstIntVia is ConstInt that also looks through local variables with exactly one
// definition inside scope (var x T = e, or x := e) and no other assignment.
func ConstIntVia(pkg *packages.Package, scope ast.Node, e ast.Expr) (int64, bool) {
	for depth := 0; depth < 6; depth++ {
		if k, ok := ConstInt(pkg, e); ok {
			return k, true
		}
		id, ok := Unparen(e).(*ast.Ident)
		if !ok {
			return 0, false
		}
		obj := pkg.TypesInfo.ObjectOf(id)
		if obj == nil {
			return 0, false
		}
		var def ast.Expr
		defs, writes := 0, 0
		ast.Inspect(scope, func(n ast.Node) bool {
			switch x := n.(type) {
			case *ast.ValueSpec:
				for i, nm := range x.Names {
					if pkg.TypesInfo.ObjectOf(nm) == obj {
						defs++
						if len(x.Values) == len(x.Names) {
							def = x.Values[i]
						}
					}
				}
			case *ast.AssignStmt:
				for i, l := range x.Lhs {
					li, isID := l.(*ast.Ident)
					if !isID || pkg.TypesInfo.ObjectOf(li) != obj {
						continue
					}
					if x.Tok == token.DEFINE && pkg.TypesInfo.Defs[li] == obj {
						defs++
						if len(x.Rhs) == len(x.Lhs) {
							def = x.Rhs[i]
						}
					} else {
						writes++
					}
				}
			case *ast.IncDecStmt:
				if li, isID := x.X.(*ast.Ident); isID && pkg.TypesInfo.ObjectOf(li) == obj {
					writes++
				}
			case *ast.UnaryExpr:
				if x.Op == token.AND {
					if li, isID := x.X.(*ast.Ident); isID && pkg.TypesInfo.ObjectOf(li) == obj {
						writes++
					}
				}
			}
			return true
		})
		if defs != 1 || writes != 0 || def == nil {
			return 0, false
		}
		e = def
	}
	return 0, false
}

// ConstString evaluates an expression to a string constant.
func ConstString(pkg *packages.Package, e ast.Expr) (string, bool) {
	tv, ok := pkg.TypesInfo.Types[e]
	if !ok || tv.Value == nil || tv.Value.Kind() != constant.String {
		return "", false
	}
	return constant.StringVal(tv.Value), true
}

// Unparen strips parentheses.
func Unparen(e ast.Expr) ast.Expr {
	for {
		p, ok := e.(*ast.ParenExpr)
		if !ok {
			return e
		}
		e = p.X
	}
}

// SelectorField returns the struct field object selected by e (x.f), or nil.
func SelectorField(pkg *packages.Package, e ast.Expr) *types.Var {
	se, ok := Unparen(e).(*ast.SelectorExpr)
	if !ok {
		return nil
	}
	if sel := pkg.TypesInfo.Selections[se]; sel != nil && sel.Kind() == types.FieldVal {
		v, _ := sel.Obj().(*types.Var)
		return v
	}
	return nil
}

// FindStruct returns the struct type named name in the package.
func FindStruct(pkg *packages.Package, name string) (*types.Named, *types.Struct) {
	if pkg == nil {
		return nil, nil
	}
	o := pkg.Types.Scope().Lookup(name)
	if o == nil {
		return nil, nil
	}
	n, ok := o.Type().(*types.Named)
	if !ok {
		return nil, nil
	}
	st, _ := n.Underlying().(*types.Struct)
	return n, st
}

// IsCompare reports whether op is an ordering or equality operator.
func IsCompare(op token.Token) bool {
	switch op {
	case token.LSS, token.LEQ, token.GTR, token.GEQ, token.EQL, token.NEQ:
		return true
	}
	return false
}

// CmpHolds evaluates "x op y" for the abstract ordering ord of x relative to y
// (-1: x<y, 0: x==y, +1: x>y).
func CmpHolds(op token.Token, ord int) bool {
	switch op {
	case token.LSS:
		return ord < 0
	case token.LEQ:
		return ord <= 0
	case token.GTR:
		return ord > 0
	case token.GEQ:
		return ord >= 0
	case token.EQL:
		return ord == 0
	case token.NEQ:
		return ord != 0
	}
	return false
}
