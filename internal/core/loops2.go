package core

import (
	"go/token"

	"golang.org/x/tools/go/ssa"
)

// Region returns the blocks executed as part of an iteration of the loop: everything
// reachable from the block entered when the loop condition holds, without passing the
// header again or the block entered when the condition fails. Unlike the natural loop
// it includes paths that leave the function from inside the body.
func (l *IndexLoop) Region() map[*ssa.BasicBlock]bool {
	out := map[*ssa.BasicBlock]bool{}
	if l.Stay == nil {
		for b := range l.Body {
			out[b] = true
		}
		return out
	}
	var visit func(b *ssa.BasicBlock)
	visit = func(b *ssa.BasicBlock) {
		if out[b] || b == l.Header || b == l.Exit {
			return
		}
		out[b] = true
		for _, s := range b.Succs {
			visit(s)
		}
	}
	visit(l.Stay)
	out[l.Header] = true
	return out
}

// Pos is a source position for reports about the loop.
func (l *IndexLoop) Pos() token.Pos {
	if l.Phi != nil {
		return l.Phi.Pos()
	}
	if l.Yield != nil {
		return l.Yield.Pos()
	}
	return token.NoPos
}

// Latches returns the blocks that end an iteration and start the next one: the sources of
// the back edges of a counting loop, or the `return true` blocks of a range-over-func body.
func (l *IndexLoop) Latches() []*ssa.BasicBlock {
	var out []*ssa.BasicBlock
	if l.Yield != nil {
		for _, b := range l.Yield.Blocks {
			if len(b.Instrs) == 0 {
				continue
			}
			if ret, ok := b.Instrs[len(b.Instrs)-1].(*ssa.Return); ok && len(ret.Results) == 1 {
				if k, isK := ret.Results[0].(*ssa.Const); isK && k.Value != nil && k.Value.String() == "false" {
					continue // break / return from inside the body
				}
				out = append(out, b)
			}
		}
		return out
	}
	for _, p := range l.Header.Preds {
		if l.Header.Dominates(p) {
			out = append(out, p)
		}
	}
	return out
}

// rangeFuncLoops recognises `for i, v := range slices.All(s)`, `slices.Values(s)` and
// `slices.Backward(s)` (s possibly a reslice s[lo:len(s)-k]): go/ssa compiles the body
// into a synthetic yield closure that the iterator calls once per element.
func rangeFuncLoops(fn *ssa.Function) []*IndexLoop {
	var out []*IndexLoop
	for _, b := range fn.Blocks {
		for _, in := range b.Instrs {
			call, ok := in.(*ssa.Call)
			if !ok || len(call.Call.Args) != 1 || call.Call.IsInvoke() {
				continue
			}
			mc, ok := call.Call.Args[0].(*ssa.MakeClosure)
			if !ok {
				continue
			}
			yield, _ := mc.Fn.(*ssa.Function)
			if yield == nil || yield.Synthetic != "range-over-func yield" {
				continue
			}
			it, ok := call.Call.Value.(*ssa.Call)
			if !ok || len(it.Call.Args) != 1 {
				continue
			}
			callee := it.Call.StaticCallee()
			if callee == nil || callee.Pkg == nil && callee.Origin() == nil {
				continue
			}
			o := callee
			if o.Origin() != nil {
				o = o.Origin()
			}
			if o.Pkg == nil || o.Pkg.Pkg.Path() != "slices" {
				continue
			}
			l := &IndexLoop{Yield: yield, Body: map[*ssa.BasicBlock]bool{}, Shape: "rangefunc"}
			switch o.Name() {
			case "All", "Values":
			case "Backward":
				l.Desc = true
			default:
				continue
			}
			for _, yb := range yield.Blocks {
				l.Body[yb] = true
			}
			if len(yield.Blocks) > 0 {
				l.Header = yield.Blocks[0]
			}
			if o.Name() != "Values" && len(yield.Params) > 0 {
				l.Index = yield.Params[0]
			}
			// the slice iterated: s, or s[lo:len(s)-k]
			src := it.Call.Args[0]
			l.LenOf, l.Lo, l.HiOff = src, 0, 1
			if sl, isSl := src.(*ssa.Slice); isSl && sl.Max == nil {
				lo, okLo := 0, true
				if sl.Low != nil {
					lo, okLo = constInt(sl.Low)
				}
				if !okLo {
					continue
				}
				if sl.High == nil {
					l.LenOf, l.Lo = sl.X, lo
				} else if x, c, okHi := lenMinus(sl.High); okHi && x == sl.X {
					l.LenOf, l.Lo, l.HiOff = sl.X, lo, c+1
				} else {
					continue
				}
			}
			out = append(out, l)
		}
	}
	return out
}
