package core

import "golang.org/x/tools/go/ssa"

// Region returns the blocks executed as part of an iteration of the loop: everything
// reachable from the block entered when the loop condition holds, without passing the
// header again or the block entered when the condition fails. Unlike the natural loop
// it includes paths that leave the function from inside the body.
func (l *IndexLoop) Region() map[*ssa.BasicBlock]bool {
	out := map[*ssa.BasicBlock]bool{}
	if l.Stay == nil {
		for b := range l.Body {
			out[b] = true
		}
		return out
	}
	var visit func(b *ssa.BasicBlock)
	visit = func(b *ssa.BasicBlock) {
		if out[b] || b == l.Header || b == l.Exit {
			return
		}
		out[b] = true
		for _, s := range b.Succs {
			visit(s)
		}
	}
	visit(l.Stay)
	out[l.Header] = true
	return out
}
