package core

import (
	"go/token"

	"golang.org/x/tools/go/ssa"
)

// IndexLoop describes a counting loop over the indices of a slice, recovered from SSA:
// the indices visited are Lo .. len(X)-HiOff (inclusive), in either direction.
type IndexLoop struct {
	Header *ssa.BasicBlock
	Phi    *ssa.Phi
	Index  ssa.Value // the value used as index in the body (the phi, or phi+1 for range loops)
	LenOf  ssa.Value // the slice whose length bounds the loop (argument of len), may be nil
	Lo     int
	HiOff  int
	Desc   bool
	Body   map[*ssa.BasicBlock]bool
	Stay   *ssa.BasicBlock // successor taken while the loop condition holds
	Exit   *ssa.BasicBlock // successor taken when it fails
	Shape  string
	Yield  *ssa.Function // range-over-func loops: the synthetic body closure (Phi, Stay, Exit are nil)
}

// NaturalLoop returns the blocks of the natural loop with the given header.
func NaturalLoop(h *ssa.BasicBlock) map[*ssa.BasicBlock]bool {
	body := map[*ssa.BasicBlock]bool{h: true}
	var work []*ssa.BasicBlock
	for _, p := range h.Preds {
		if h.Dominates(p) {
			work = append(work, p)
		}
	}
	for len(work) > 0 {
		b := work[len(work)-1]
		work = work[:len(work)-1]
		if body[b] {
			continue
		}
		body[b] = true
		for _, p := range b.Preds {
			work = append(work, p)
		}
	}
	return body
}

// lenMinus matches len(x) - c (c >= 0) and returns x, c.
func lenMinus(v ssa.Value) (ssa.Value, int, bool) {
	v = StripConv(v)
	if c, ok := v.(*ssa.Call); ok {
		if b, ok := c.Call.Value.(*ssa.Builtin); ok && b.Name() == "len" && len(c.Call.Args) == 1 {
			return c.Call.Args[0], 0, true
		}
	}
	if b, ok := v.(*ssa.BinOp); ok && b.Op == token.SUB {
		if k, ok := b.Y.(*ssa.Const); ok && k.Value != nil {
			if x, c, ok := lenMinus(b.X); ok {
				return x, c + int(k.Int64()), true
			}
		}
	}
	return nil, 0, false
}

func constInt(v ssa.Value) (int, bool) {
	k, ok := StripConv(v).(*ssa.Const)
	if !ok || k.Value == nil {
		return 0, false
	}
	return int(k.Int64()), true
}

// IndexLoops recovers the counting loops of fn.
func IndexLoops(fn *ssa.Function) []*IndexLoop {
	var out []*IndexLoop
	for _, h := range fn.Blocks {
		for _, in := range h.Instrs {
			phi, ok := in.(*ssa.Phi)
			if !ok {
				break
			}
			if len(phi.Edges) < 2 {
				continue
			}
			var init, step ssa.Value
			shape := true
			for i, e := range phi.Edges {
				if h.Dominates(h.Preds[i]) {
					if step != nil && step != e {
						shape = false
					}
					step = e
				} else {
					if init != nil && init != e {
						shape = false
					}
					init = e
				}
			}
			if init == nil || step == nil || !shape {
				continue
			}
			sb, ok := step.(*ssa.BinOp)
			if !ok || sb.X != ssa.Value(phi) {
				continue
			}
			k, ok := constInt(sb.Y)
			if !ok || k != 1 || (sb.Op != token.ADD && sb.Op != token.SUB) {
				continue
			}
			l := &IndexLoop{Header: h, Phi: phi, Index: phi, Desc: sb.Op == token.SUB, Body: NaturalLoop(h)}
			// loop condition: an If inside the loop comparing the index with a bound and leaving the loop
			var cond *ssa.BinOp
			var condTruthStay bool
			for b := range l.Body {
				if len(b.Instrs) == 0 {
					continue
				}
				ifi, ok := b.Instrs[len(b.Instrs)-1].(*ssa.If)
				if !ok {
					continue
				}
				v, neg := StripNot(ifi.Cond)
				bin, ok := v.(*ssa.BinOp)
				if !ok || !IsCompare(bin.Op) {
					continue
				}
				if bin.X != ssa.Value(phi) && bin.Y != ssa.Value(phi) && bin.X != step && bin.Y != step {
					continue
				}
				stay0, stay1 := l.Body[b.Succs[0]], l.Body[b.Succs[1]]
				if stay0 == stay1 {
					continue
				}
				cond = bin
				condTruthStay = stay0 != neg
				if stay0 {
					l.Stay, l.Exit = b.Succs[0], b.Succs[1]
				} else {
					l.Stay, l.Exit = b.Succs[1], b.Succs[0]
				}
				break
			}
			if cond == nil {
				continue
			}
			// normalise to "idx op bound"
			op := cond.Op
			idx, bound := cond.X, cond.Y
			if idx != ssa.Value(phi) && idx != step {
				idx, bound = bound, idx
				switch op {
				case token.LSS:
					op = token.GTR
				case token.LEQ:
					op = token.GEQ
				case token.GTR:
					op = token.LSS
				case token.GEQ:
					op = token.LEQ
				}
			}
			if !condTruthStay {
				switch op {
				case token.LSS:
					op = token.GEQ
				case token.LEQ:
					op = token.GTR
				case token.GTR:
					op = token.LEQ
				case token.GEQ:
					op = token.LSS
				case token.EQL:
					op = token.NEQ
				case token.NEQ:
					op = token.EQL
				}
			}
			rangeStyle := idx == step // range loops test phi+1
			if rangeStyle {
				l.Index = step
			}
			if !l.Desc {
				// ascending: init (or init+1 for range style) .. bound
				lo, ok := constInt(init)
				if !ok {
					continue
				}
				if rangeStyle {
					lo++
				}
				x, c, ok := lenMinus(bound)
				if !ok {
					continue
				}
				l.Lo, l.LenOf = lo, x
				switch op {
				case token.LSS:
					l.HiOff = c + 1
				case token.LEQ:
					l.HiOff = c
				case token.NEQ:
					l.HiOff = c + 1
				default:
					continue
				}
				l.Shape = "ascending"
			} else {
				x, c, ok := lenMinus(init)
				if !ok {
					continue
				}
				b, ok := constInt(bound)
				if !ok {
					continue
				}
				l.LenOf, l.HiOff = x, c
				switch op {
				case token.GEQ:
					l.Lo = b
				case token.GTR:
					l.Lo = b + 1
				default:
					continue
				}
				l.Shape = "descending"
			}
			out = append(out, l)
		}
	}
	for _, l := range out {
		l.elementOffset()
		l.throughReslice()
	}
	return append(out, rangeFuncLoops(fn)...)
}

// elementOffset: a loop that counts n = len(s) .. 1 and reads s[n-1] visits the elements
// 0 .. len(s)-1. When every element access to the bounding slice inside the loop uses the
// counter plus one and the same constant, the bounds are shifted to describe the elements.
func (l *IndexLoop) elementOffset() {
	if l.LenOf == nil || l.Index == nil {
		return
	}
	off, seen, consistent := 0, false, true
	for b := range l.Body {
		for _, in := range b.Instrs {
			ia, ok := in.(*ssa.IndexAddr)
			if !ok || !sameSlice(ia.X, l.LenOf) {
				continue
			}
			k := 0
			switch x := ia.Index.(type) {
			case *ssa.BinOp:
				c, isK := constInt(x.Y)
				if x.X != l.Index || !isK || (x.Op != token.ADD && x.Op != token.SUB) {
					consistent = false
					continue
				}
				k = c
				if x.Op == token.SUB {
					k = -c
				}
			default:
				if ia.Index != l.Index {
					consistent = false
					continue
				}
			}
			if seen && k != off {
				consistent = false
			}
			off, seen = k, true
		}
	}
	if seen && consistent && off != 0 {
		l.Lo, l.HiOff = l.Lo+off, l.HiOff-off
	}
}

// sameSlice: the same SSA value, or two loads of the same field of the same struct value
// (go/ssa re-loads k.tables for len(k.tables) and for k.tables[i]).
func sameSlice(a, b ssa.Value) bool {
	if a == b {
		return true
	}
	ua, ok1 := a.(*ssa.UnOp)
	ub, ok2 := b.(*ssa.UnOp)
	if !ok1 || !ok2 || ua.Op != token.MUL || ub.Op != token.MUL {
		return false
	}
	fa, ok1 := ua.X.(*ssa.FieldAddr)
	fb, ok2 := ub.X.(*ssa.FieldAddr)
	return ok1 && ok2 && fa.X == fb.X && fa.Field == fb.Field
}

// throughReslice expresses a loop over sub := base[low : len(base)-c] in terms of base:
// the indices low+Lo .. len(base)-(HiOff+c).
func (l *IndexLoop) throughReslice() {
	for i := 0; i < 3; i++ {
		sl, ok := l.LenOf.(*ssa.Slice)
		if !ok || sl.Max != nil {
			return
		}
		low := 0
		if sl.Low != nil {
			k, ok := constInt(sl.Low)
			if !ok {
				return
			}
			low = k
		}
		c := 0
		if sl.High != nil {
			x, k, ok := lenMinus(sl.High)
			if !ok || x != sl.X {
				return
			}
			c = k
		}
		l.LenOf, l.Lo, l.HiOff = sl.X, l.Lo+low, l.HiOff+c
	}
}

// CallsInLoop lists call instructions inside the loop body.
func (l *IndexLoop) Calls() []ssa.CallInstruction {
	var out []ssa.CallInstruction
	for b := range l.Region() {
		for _, in := range b.Instrs {
			if c, ok := in.(ssa.CallInstruction); ok {
				out = append(out, c)
			}
		}
	}
	return out
}
