package rules

import (
	"go/token"
	"go/types"

	"golang.org/x/tools/go/ssa"

	"olricvet/internal/core"
)

// fromGlobal: v is (a load of) a package-level variable of the repository.
func fromGlobal(v ssa.Value) *ssa.Global {
	for i := 0; i < 6; i++ {
		switch x := v.(type) {
		case *ssa.Global:
			return x
		case *ssa.UnOp:
			if x.Op != token.MUL {
				return nil
			}
			v = x.X
		case *ssa.ChangeType:
			v = x.X
		case *ssa.Phi:
			for _, e := range x.Edges {
				if g := fromGlobal(e); g != nil {
					return g
				}
			}
			return nil
		default:
			return nil
		}
	}
	return nil
}

// c07RequestStateNotShared: the per-request environment (dmap.env) carries option and
// bookkeeping objects that the operations write to — atomicIncrDecr records the key's
// remaining expiry in e.putConfig, Put paths set flags in it. Every request therefore gets
// objects of its own: no pointer stored into a field of an env refers to a package-level
// variable. A shared default object makes one request's options (an expiry carried over by
// an Incr on an expiring key) leak into every later request of the member.
func c07RequestStateNotShared(r *core.Run) {
	const rule = "request-state-not-shared"
	p := r.P
	n := counter{}
	stores := 0
	for _, fn := range p.FuncList {
		if fn.SSA == nil || skipPkg(fn) || core.RelPkg(fn.Pkg.PkgPath) != dmapPkg {
			continue
		}
		for _, f := range core.AllSSA(fn.SSA) {
			core.Instrs(f, func(in ssa.Instruction) {
				st, ok := in.(*ssa.Store)
				if !ok {
					return
				}
				fa, ok := st.Addr.(*ssa.FieldAddr)
				if !ok {
					return
				}
				nt, ok := deref(fa.X.Type()).(*types.Named)
				if !ok || nt.Obj().Name() != "env" {
					return
				}
				if _, isPtr := st.Val.Type().Underlying().(*types.Pointer); !isPtr {
					return
				}
				stores++
				g := fromGlobal(st.Val)
				if g == nil {
					return
				}
				r.Bad(rule, n.next(fnName(p, f)+" stores a package-level object into env."+core.LastField(fa)), site(r, instrPos(st)),
					"env."+core.LastField(fa)+" is set to the package-level variable "+g.Name()+": every request of the member shares one object that the operations write to, so the options of one request (an expiry carried over by Incr, a flag set by Put) apply to all later ones")
			})
		}
	}
	r.OK(rule, "pointer fields of dmap.env", "-", "every pointer stored into a request environment is the request's own object or the caller's")
	r.Floor(rule, stores, 3)
}
