package rules

import (
	"go/token"
	"go/types"

	"golang.org/x/tools/go/ssa"

	"olricvet/internal/core"
)

// fromGlobal: v is (a load of) a package-level variable of the repository.
func fromGlobal(v ssa.Value) *ssa.Global {
	for i := 0; i < 6; i++ {
		switch x := v.(type) {
		case *ssa.Global:
			return x
		case *ssa.UnOp:
			if x.Op != token.MUL {
				return nil
			}
			v = x.X
		case *ssa.ChangeType:
			v = x.X
		case *ssa.Phi:
			for _, e := range x.Edges {
				if g := fromGlobal(e); g != nil {
					return g
				}
			}
			return nil
		default:
			return nil
		}
	}
	return nil
}

// c07RequestStateNotShared: the per-request environment (dmap.env) carries option and
// bookkeeping objects that the operations write to — atomicIncrDecr records the key's
// remaining expiry in e.putConfig, Put paths set flags in it. Every request therefore gets
// objects of its own: no pointer stored into a field of an env refers to a package-level
// variable. A shared default object makes one request's options (an expiry carried over by
// an Incr on an expiring key) leak into every later request of the member.
func c07RequestStateNotShared(r *core.Run) {
	const rule = "request-state-not-shared"
	p := r.P
	n := counter{}
	stores := 0
	for _, fn := range p.FuncList {
		if fn.SSA == nil || skipPkg(fn) || core.RelPkg(fn.Pkg.PkgPath) != dmapPkg {
			continue
		}
		for _, f := range core.AllSSA(fn.SSA) {
			core.Instrs(f, func(in ssa.Instruction) {
				st, ok := in.(*ssa.Store)
				if !ok {
					return
				}
				fa, ok := st.Addr.(*ssa.FieldAddr)
				if !ok {
					return
				}
				nt, ok := deref(fa.X.Type()).(*types.Named)
				if !ok || nt.Obj().Name() != "env" {
					return
				}
				if _, isPtr := st.Val.Type().Underlying().(*types.Pointer); !isPtr {
					return
				}
				stores++
				g := fromGlobal(st.Val)
				if g == nil {
					return
				}
				r.Bad(rule, n.next(fnName(p, f)+" stores a package-level object into env."+core.LastField(fa)), site(r, instrPos(st)),
					"env."+core.LastField(fa)+" is set to the package-level variable "+g.Name()+": every request of the member shares one object that the operations write to, so the options of one request (an expiry carried over by Incr, a flag set by Put) apply to all later ones")
			})
		}
	}
	r.OK(rule, "pointer fields of dmap.env", "-", "every pointer stored into a request environment is the request's own object or the caller's")
	r.Floor(rule, stores, 3)
}

// c07TimestampAfterKeyLock: a read-modify-write stamps what it writes with a time taken
// AFTER it got the per-key lock. The lock orders the operations on a key; the timestamp is
// what readers (and the next read-modify-write, which collects primary and backup copies
// and takes the newest) order the copies by. A timestamp taken before waiting for the lock
// lets a later writer carry an older stamp: with asynchronous replication a reordered
// backup write then looks newest, the next operation reads the stale copy and an
// acknowledged update is lost.
func c07TimestampAfterKeyLock(r *core.Run) {
	const rule = "rmw-timestamp-after-lock"
	p := r.P
	cnt := 0
	for _, fn := range p.FuncList {
		if fn.SSA == nil || skipPkg(fn) || core.RelPkg(fn.Pkg.PkgPath) != dmapPkg {
			continue
		}
		f := fn.SSA
		locks := findInstrs(f, false, callTo(fnLockerLock))
		if len(locks) == 0 {
			continue
		}
		// only the sections that write: a put (or a helper that puts) follows the lock
		// (sections that build their own environment after the lock, like Lease through
		// Expire, stamp it at that moment; the ones judged here write the caller's env)
		isWrite := func(in ssa.Instruction) bool {
			if !callTo(dmapPkg+".(*DMap).put", fnPutOnCluster)(in) {
				return false
			}
			args := in.(ssa.CallInstruction).Common().Args
			return isParamValue(args[len(args)-1])
		}
		writes := findInstrs(f, false, isWrite)
		if len(writes) == 0 {
			continue
		}
		cnt++
		lock := locks[0]
		isStamp := func(in ssa.Instruction) bool {
			st, ok := in.(*ssa.Store)
			if !ok || core.LastField(st.Addr) != "timestamp" {
				return false
			}
			c, ok := st.Val.(*ssa.Call)
			if !ok || methodName(c) != "UnixNano" {
				return false
			}
			now, ok := c.Call.Args[0].(*ssa.Call)
			return ok && core.CalleeObj(now) != nil && core.QualName(core.CalleeObj(now)) == "time.Now"
		}
		stamps := findEventsVia(p, f, isStamp)
		ok := false
		for _, s := range stamps {
			if !core.Dominates(lock, s) {
				continue
			}
			all := true
			for _, w := range writes {
				if !core.Dominates(s, w) {
					all = false
				}
			}
			if all {
				ok = true
			}
		}
		r.Check(ok, rule, fn.Name, site(r, instrPos(lock)),
			"the environment's timestamp is set to time.Now() after the key lock is held and before the write",
			"the write is stamped with a time taken before the key lock was held (the time the request arrived): a call that waited for the lock writes an entry older than the one of the call that overtook it, so with asynchronous replication a stale backup copy can carry the highest timestamp and the next Incr/GetPut starts from it — an acknowledged update is lost")
	}
	r.Floor(rule, cnt, 3)
}

// isParamValue: v is a parameter, or a load of the cell a captured parameter lives in.
func isParamValue(v ssa.Value) bool {
	if _, ok := v.(*ssa.Parameter); ok {
		return true
	}
	u, ok := v.(*ssa.UnOp)
	if !ok || u.Op != token.MUL {
		return false
	}
	al, ok := u.X.(*ssa.Alloc)
	if !ok || al.Referrers() == nil {
		return false
	}
	for _, ref := range *al.Referrers() {
		if st, ok := ref.(*ssa.Store); ok && st.Addr == ssa.Value(al) {
			if _, isPar := st.Val.(*ssa.Parameter); !isPar {
				return false
			}
		}
	}
	return true
}
