package rules

import (
	"go/token"

	"golang.org/x/tools/go/ssa"

	"olricvet/internal/core"
)

// kvOldHeadReadOnly: whenever makeTable installs a new head (fresh or reused) the
// previous head is switched to ReadOnlyState on every path — otherwise two tables are
// writable, and compaction (which skips writable tables) never collects the old head.
func kvOldHeadReadOnly(r *core.Run) {
	name := kvPkg + ".(*KVStore).makeTable"
	fn := r.Need("old-head-read-only", name)
	if fn == nil {
		return
	}
	f := fn.SSA
	ro := constValue(r.P, tablePkg, "ReadOnlyState")
	// isHead: k.tables[len(k.tables)-1]
	isHead := func(recv ssa.Value) bool {
		u, ok := recv.(*ssa.UnOp)
		if !ok {
			return false
		}
		ia, ok := u.X.(*ssa.IndexAddr)
		if !ok || !isTablesLoad(ia.X) {
			return false
		}
		sub, ok := ia.Index.(*ssa.BinOp)
		if !ok || sub.Op != token.SUB {
			return false
		}
		kk, ok := sub.Y.(*ssa.Const)
		return ok && kk.Value != nil && kk.Int64() == 1 && lenArg(sub.X) != nil
	}
	isSetRO := func(in ssa.Instruction) bool {
		c, ok := in.(*ssa.Call)
		if !ok {
			return false
		}
		o := core.CalleeObj(c)
		if o == nil || core.QualName(o) != tablePkg+".(*Table).SetState" || len(c.Call.Args) != 2 {
			return false
		}
		k, ok := c.Call.Args[1].(*ssa.Const)
		if !ok || k.Value == nil || k.Int64() != ro {
			return false
		}
		return isHead(c.Call.Args[0])
	}
	// headNotWritable: the edge from -> to is taken only when the head's state is known to
	// differ from ReadWriteState (the head needs no switching then)
	rw := constValue(r.P, tablePkg, "ReadWriteState")
	headNotWritable := func(from, to *ssa.BasicBlock) bool {
		if len(from.Instrs) == 0 || len(from.Succs) != 2 {
			return false
		}
		ifi, ok := from.Instrs[len(from.Instrs)-1].(*ssa.If)
		if !ok {
			return false
		}
		bin, ok := ifi.Cond.(*ssa.BinOp)
		if !ok || (bin.Op != token.EQL && bin.Op != token.NEQ) {
			return false
		}
		call, k := bin.X, bin.Y
		if _, isK := call.(*ssa.Const); isK {
			call, k = k, call
		}
		kc, isK := k.(*ssa.Const)
		c, isC := call.(*ssa.Call)
		if !isK || !isC || kc.Value == nil || kc.Int64() != rw {
			return false
		}
		o := core.CalleeObj(c)
		if o == nil || core.QualName(o) != tablePkg+".(*Table).State" || len(c.Call.Args) != 1 || !isHead(c.Call.Args[0]) {
			return false
		}
		if bin.Op == token.EQL {
			return to == from.Succs[1]
		}
		return to == from.Succs[0]
	}
	// find the branch len(k.tables) != 0
	var gate *ssa.If
	gateIdx := 0
	for _, b := range f.Blocks {
		if len(b.Instrs) == 0 {
			continue
		}
		ifi, ok := b.Instrs[len(b.Instrs)-1].(*ssa.If)
		if !ok {
			continue
		}
		bin, ok := ifi.Cond.(*ssa.BinOp)
		if !ok || lenArg(bin.X) == nil || !isTablesLoad(lenArg(bin.X)) {
			continue
		}
		k, isK := bin.Y.(*ssa.Const)
		if !isK || k.Value == nil || k.Int64() != 0 {
			continue
		}
		if b.Index == 0 || b.Dominates(f.Blocks[len(f.Blocks)-1]) || gate == nil {
			gate = ifi
			if bin.Op == token.NEQ || bin.Op == token.GTR {
				gateIdx = 0
			} else {
				gateIdx = 1
			}
		}
		break
	}
	if gate == nil {
		r.Unknown("old-head-read-only", name, site(r, f.Pos()), "no test of len(k.tables) != 0 found")
		return
	}
	start := gate.Block().Succs[gateIdx]
	hit := pathSearch(start, nil, isSetRO, func(b *ssa.BasicBlock) bool {
		_, isRet := b.Instrs[len(b.Instrs)-1].(*ssa.Return)
		return isRet
	}, func(from, to *ssa.BasicBlock) bool { return !headNotWritable(from, to) })
	bad := hit != nil
	r.Check(!bad, "old-head-read-only", name, site(r, instrPos(gate)),
		"with a non-empty store every path through makeTable first switches the current head to ReadOnlyState, unless its state is already known not to be ReadWriteState",
		"makeTable can install a new head (e.g. by reusing a recycled table) without switching the previous head to ReadOnlyState: the old head stays writable, compaction skips it forever, and every such roll-over leaks one table of garbage")
}

// kvPutGrowsStore: both insert paths of the engine — Put (primary copies) and PutRaw
// (backup copies, read repair, migration, compaction) — open a new table and try again
// when the head table is full. If PutRaw gave up instead, a backup fragment would stop
// accepting entries once its first table is full; with WriteQuorum below ReplicaCount the
// Puts are still acknowledged, with the primary as their only copy.
func kvPutGrowsStore(r *core.Run) {
	const rule = "insert-grows-store"
	isFull := func(cd core.Cond) bool {
		call, ok := cd.Val.(*ssa.Call)
		return ok && cd.Truth && callTo("errors.Is")(call) && len(call.Call.Args) == 2 && core.IsGlobalLoad(call.Call.Args[1], tablePkg, "ErrNotEnoughSpace")
	}
	cnt := 0
	for _, name := range []string{kvPkg + ".(*KVStore).Put", kvPkg + ".(*KVStore).PutRaw"} {
		fn := r.Need(rule, name)
		if fn == nil {
			continue
		}
		f := fn.SSA
		inserts := core.CallsTo(f, false, core.Named(tablePkg+".(*Table).Put", tablePkg+".(*Table).PutRaw"))
		// closure-wrapped inserts (see kvSingleLiveVersion)
		core.Instrs(f, func(in ssa.Instruction) {
			c, ok := in.(ssa.CallInstruction)
			if !ok || in.Parent() != f {
				return
			}
			callee := c.Common().StaticCallee()
			if callee != nil && callee.Parent() == f && len(core.CallsTo(callee, false, core.Named(tablePkg+".(*Table).Put", tablePkg+".(*Table).PutRaw"))) > 0 {
				inserts = append(inserts, c)
			}
		})
		ok := false
		for _, mk := range findInstrs(f, false, callTo(kvPkg+".(*KVStore).makeTable")) {
			full := false
			for _, cd := range core.Conditions(mk.Block()) {
				if isFull(cd) {
					full = true
				}
			}
			if !full {
				continue
			}
			// after the new table was made the insert is attempted again
			for _, ins := range inserts {
				if reachesBlock(mk.Block(), ins.Block()) {
					ok = true
				}
			}
		}
		cnt++
		r.Check(ok, rule, name, site(r, f.Pos()),
			"a full head table leads to makeTable and another attempt",
			"when the head table is full the insert does not open a new table and try again: the fragment stops accepting entries once its first table is full — for PutRaw that is every backup copy, while the primary keeps acknowledging the writes")
	}
	r.Floor(rule, cnt, 2)
}

// kvIsHead: v is k.tables[len(k.tables)-1].
func kvIsHead(v ssa.Value) bool {
	u, ok := v.(*ssa.UnOp)
	if !ok {
		return false
	}
	ia, ok := u.X.(*ssa.IndexAddr)
	if !ok || !isTablesLoad(ia.X) {
		return false
	}
	sub, ok := ia.Index.(*ssa.BinOp)
	if !ok || sub.Op != token.SUB {
		return false
	}
	kk, ok := sub.Y.(*ssa.Const)
	return ok && kk.Value != nil && kk.Int64() == 1 && lenArg(sub.X) != nil
}

// kvInsertIntoWritableHead: a transfer drops tables one by one and leaves recycled
// tables in place, so the last table of a store that was moved away can be a recycled one.
// A recycled table has no coefficient (scans go by coefficient) and is skipped by Export:
// entries written into it are readable by key but are never listed and never migrate —
// they are lost with the next ownership change.
//
// Rule: in Put and PutRaw the insert into k.tables[len-1] is reached only after makeTable
// ran or after the head's state was found to be ReadWriteState.
func kvInsertIntoWritableHead(r *core.Run) {
	const rule = "insert-into-writable-head"
	rw := constValue(r.P, tablePkg, "ReadWriteState")
	cnt := 0
	for _, name := range []string{kvPkg + ".(*KVStore).Put", kvPkg + ".(*KVStore).PutRaw"} {
		fn := r.Need(rule, name)
		if fn == nil {
			continue
		}
		f := fn.SSA
		isInsert := func(in ssa.Instruction) bool {
			c, ok := in.(*ssa.Call)
			if !ok || !callTo(tablePkg+".(*Table).Put", tablePkg+".(*Table).PutRaw")(in) {
				return false
			}
			return len(c.Call.Args) > 0 && kvIsHead(c.Call.Args[0])
		}
		if len(findInstrs(f, false, isInsert)) == 0 {
			r.Unknown(rule, name, site(r, f.Pos()), "no insert into k.tables[len(k.tables)-1] found")
			continue
		}
		headWritable := func(from, to *ssa.BasicBlock) bool {
			if len(from.Instrs) == 0 || len(from.Succs) != 2 {
				return false
			}
			ifi, ok := from.Instrs[len(from.Instrs)-1].(*ssa.If)
			if !ok {
				return false
			}
			bin, ok := ifi.Cond.(*ssa.BinOp)
			if !ok || (bin.Op != token.EQL && bin.Op != token.NEQ) {
				return false
			}
			call, k := bin.X, bin.Y
			if _, isK := call.(*ssa.Const); isK {
				call, k = k, call
			}
			kc, isK := k.(*ssa.Const)
			c, isC := call.(*ssa.Call)
			if !isK || !isC || kc.Value == nil || kc.Int64() != rw {
				return false
			}
			o := core.CalleeObj(c)
			if o == nil || core.QualName(o) != tablePkg+".(*Table).State" || len(c.Call.Args) != 1 || !kvIsHead(c.Call.Args[0]) {
				return false
			}
			if bin.Op == token.EQL {
				return to == from.Succs[0]
			}
			return to == from.Succs[1]
		}
		hit := pathSearch(f.Blocks[0], nil, callTo(kvPkg+".(*KVStore).makeTable"), func(b *ssa.BasicBlock) bool {
			for _, in := range b.Instrs {
				if callTo(kvPkg + ".(*KVStore).makeTable")(in) {
					return false
				}
				if isInsert(in) {
					return true
				}
			}
			return false
		}, func(from, to *ssa.BasicBlock) bool { return !headWritable(from, to) })
		cnt++
		r.Check(hit == nil, rule, name, site(r, f.Pos()),
			"the insert into the last table is reached only through makeTable or after its state was found to be ReadWriteState",
			"the insert goes into whatever table is last without looking at its state: after a transfer dropped the other tables that can be a recycled table, which is not registered for scans and is skipped by Export — the entries are never listed and never migrate (lost with the next ownership change)"+blockAt(r, hit))
	}
	r.Floor(rule, cnt, 2)
}
