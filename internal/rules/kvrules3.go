package rules

import (
	"go/token"

	"golang.org/x/tools/go/ssa"

	"olricvet/internal/core"
)

// kvOldHeadReadOnly: whenever makeTable installs a new head (fresh or reused) the
// previous head is switched to ReadOnlyState on every path — otherwise two tables are
// writable, and compaction (which skips writable tables) never collects the old head.
func kvOldHeadReadOnly(r *core.Run) {
	name := kvPkg + ".(*KVStore).makeTable"
	fn := r.Need("old-head-read-only", name)
	if fn == nil {
		return
	}
	f := fn.SSA
	ro := constValue(r.P, tablePkg, "ReadOnlyState")
	isSetRO := func(in ssa.Instruction) bool {
		c, ok := in.(*ssa.Call)
		if !ok {
			return false
		}
		o := core.CalleeObj(c)
		if o == nil || core.QualName(o) != tablePkg+".(*Table).SetState" || len(c.Call.Args) != 2 {
			return false
		}
		k, ok := c.Call.Args[1].(*ssa.Const)
		if !ok || k.Value == nil || k.Int64() != ro {
			return false
		}
		// receiver: k.tables[len(k.tables)-1]
		recv := c.Call.Args[0]
		u, ok := recv.(*ssa.UnOp)
		if !ok {
			return false
		}
		ia, ok := u.X.(*ssa.IndexAddr)
		if !ok || !isTablesLoad(ia.X) {
			return false
		}
		sub, ok := ia.Index.(*ssa.BinOp)
		if !ok || sub.Op != token.SUB {
			return false
		}
		kk, ok := sub.Y.(*ssa.Const)
		return ok && kk.Value != nil && kk.Int64() == 1 && lenArg(sub.X) != nil
	}
	// find the branch len(k.tables) != 0
	var gate *ssa.If
	gateIdx := 0
	for _, b := range f.Blocks {
		if len(b.Instrs) == 0 {
			continue
		}
		ifi, ok := b.Instrs[len(b.Instrs)-1].(*ssa.If)
		if !ok {
			continue
		}
		bin, ok := ifi.Cond.(*ssa.BinOp)
		if !ok || lenArg(bin.X) == nil || !isTablesLoad(lenArg(bin.X)) {
			continue
		}
		k, isK := bin.Y.(*ssa.Const)
		if !isK || k.Value == nil || k.Int64() != 0 {
			continue
		}
		if b.Index == 0 || b.Dominates(f.Blocks[len(f.Blocks)-1]) || gate == nil {
			gate = ifi
			if bin.Op == token.NEQ || bin.Op == token.GTR {
				gateIdx = 0
			} else {
				gateIdx = 1
			}
		}
		break
	}
	if gate == nil {
		r.Unknown("old-head-read-only", name, site(r, f.Pos()), "no test of len(k.tables) != 0 found")
		return
	}
	start := gate.Block().Succs[gateIdx]
	bad := false
	if len(start.Instrs) > 0 && !isSetRO(start.Instrs[0]) {
		if ret := core.ReachesReturnFrom(start.Instrs[0], isSetRO, func(*ssa.Return) bool { return true }); ret != nil {
			bad = true
		}
	}
	r.Check(!bad, "old-head-read-only", name, site(r, instrPos(gate)),
		"with a non-empty store every path through makeTable first switches the current head to ReadOnlyState",
		"makeTable can install a new head (e.g. by reusing a recycled table) without switching the previous head to ReadOnlyState: the old head stays writable, compaction skips it forever, and every such roll-over leaks one table of garbage")
}

// kvPutGrowsStore: both insert paths of the engine — Put (primary copies) and PutRaw
// (backup copies, read repair, migration, compaction) — open a new table and try again
// when the head table is full. If PutRaw gave up instead, a backup fragment would stop
// accepting entries once its first table is full; with WriteQuorum below ReplicaCount the
// Puts are still acknowledged, with the primary as their only copy.
func kvPutGrowsStore(r *core.Run) {
	const rule = "insert-grows-store"
	isFull := func(cd core.Cond) bool {
		call, ok := cd.Val.(*ssa.Call)
		return ok && cd.Truth && callTo("errors.Is")(call) && len(call.Call.Args) == 2 && core.IsGlobalLoad(call.Call.Args[1], tablePkg, "ErrNotEnoughSpace")
	}
	cnt := 0
	for _, name := range []string{kvPkg + ".(*KVStore).Put", kvPkg + ".(*KVStore).PutRaw"} {
		fn := r.Need(rule, name)
		if fn == nil {
			continue
		}
		f := fn.SSA
		inserts := core.CallsTo(f, false, core.Named(tablePkg+".(*Table).Put", tablePkg+".(*Table).PutRaw"))
		// closure-wrapped inserts (see kvSingleLiveVersion)
		core.Instrs(f, func(in ssa.Instruction) {
			c, ok := in.(ssa.CallInstruction)
			if !ok || in.Parent() != f {
				return
			}
			callee := c.Common().StaticCallee()
			if callee != nil && callee.Parent() == f && len(core.CallsTo(callee, false, core.Named(tablePkg+".(*Table).Put", tablePkg+".(*Table).PutRaw"))) > 0 {
				inserts = append(inserts, c)
			}
		})
		ok := false
		for _, mk := range findInstrs(f, false, callTo(kvPkg+".(*KVStore).makeTable")) {
			full := false
			for _, cd := range core.Conditions(mk.Block()) {
				if isFull(cd) {
					full = true
				}
			}
			if !full {
				continue
			}
			// after the new table was made the insert is attempted again
			for _, ins := range inserts {
				if reachesBlock(mk.Block(), ins.Block()) {
					ok = true
				}
			}
		}
		cnt++
		r.Check(ok, rule, name, site(r, f.Pos()),
			"a full head table leads to makeTable and another attempt",
			"when the head table is full the insert does not open a new table and try again: the fragment stops accepting entries once its first table is full — for PutRaw that is every backup copy, while the primary keeps acknowledging the writes")
	}
	r.Floor(rule, cnt, 2)
}
