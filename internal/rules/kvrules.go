package rules

import (
	"fmt"
	"go/token"
	"go/types"

	"golang.org/x/tools/go/ssa"

	"olricvet/internal/core"
)

// Rules over the storage engine (internal/kvstore, internal/kvstore/table). They are
// shared by C01, C03, C11, C12, C18 and C20: each property's check calls the ones that
// are necessary conditions of that property.

const (
	kvPkg    = "internal/kvstore"
	tablePkg = "internal/kvstore/table"
	tDelete  = tablePkg + ".(*Table).Delete"
)

func isTablesLoad(v ssa.Value) bool { return core.IsFieldLoad("KVStore", "tables")(v) }

// kvSingleLiveVersion (D4): after KVStore.Put / PutRaw stored the new version in the
// head table, every older table is asked to retire the key, on every path to a
// success return.
func kvSingleLiveVersion(r *core.Run) {
	p := r.P
	pt := passThrough(p)
	for _, name := range []string{kvPkg + ".(*KVStore).Put", kvPkg + ".(*KVStore).PutRaw"} {
		fn := r.Need("single-live-version", name)
		if fn == nil {
			continue
		}
		f := fn.SSA
		// "retire" events: a loop in this function over tables[0..len-2] calling Table.Delete,
		// or a call to a helper of the package consisting of such a loop.
		isRetire := func(in ssa.Instruction) (bool, string) {
			c, ok := in.(ssa.CallInstruction)
			if !ok {
				return false, ""
			}
			o := core.CalleeObj(c)
			if o == nil {
				return false, ""
			}
			h := p.ByObj[o]
			if h == nil || h.SSA == nil || core.RelPkg(h.Pkg.PkgPath) != kvPkg {
				return false, ""
			}
			if ok, why := retiresOlderTables(h.SSA); ok {
				return true, h.Name + ": " + why
			}
			return false, ""
		}
		inlineOK, inlineWhy := retiresOlderTables(f)
		n := counter{}
		cnt := 0
		// the inserts into the head table
		isInsert := core.Named(tablePkg+".(*Table).Put", tablePkg+".(*Table).PutRaw")
		inserts := core.CallsTo(f, false, isInsert)
		// the insert may be wrapped in a function literal of this function that is called here
		// (a callback handed to the common write loop)
		core.Instrs(f, func(in ssa.Instruction) {
			c, ok := in.(ssa.CallInstruction)
			if !ok || in.Parent() != f {
				return
			}
			callee := c.Common().StaticCallee()
			if callee == nil || callee.Parent() != f {
				return
			}
			if len(core.CallsTo(callee, false, isInsert)) > 0 {
				inserts = append(inserts, c)
			}
		})
		for _, ins := range inserts {
			cnt++
			key := n.next(name + " insert into the head table")
			why := ""
			var helper string
			reached := core.ReachesReturnFrom(ins, func(in ssa.Instruction) bool {
				ok, w := isRetire(in)
				if ok {
					helper = w
				}
				return ok
			}, func(x *ssa.Return) bool { return core.SuccessCapable(x, pt) })
			if reached == nil {
				why = "every path from the insert to a success return passes " + helper
			} else if inlineOK {
				why = "inline loop after the insert: " + inlineWhy
			}
			bad := "after a successful insert into the head table a success return is reachable without retiring the key from the older tables (the retire step is missing, conditional, or placed before the insert that may roll over to a new table): the superseded version stays live — Delete then resurrects it, Length and scans count it twice, its table never becomes garbage"
			if reached != nil {
				bad += "; offending return at " + site(r, instrPos(reached))
			}
			r.Check(why != "", "single-live-version", key, site(r, instrPos(ins)), why, bad)
		}
		r.Floor("single-live-version("+fn.Obj.Name()+")", cnt, 1)
	}
}

// retiresOlderTables: h contains a loop over k.tables covering indices 0..len-2 whose
// body calls (*Table).Delete, and errors other than not-found are propagated.
func retiresOlderTables(h *ssa.Function) (bool, string) {
	for _, l := range core.IndexLoops(h) {
		if l.LenOf == nil || !isTablesLoad(l.LenOf) {
			continue
		}
		calls := false
		for _, c := range l.Calls() {
			if o := core.CalleeObj(c); o != nil && core.QualName(o) == tDelete {
				calls = true
			}
		}
		if !calls {
			continue
		}
		if l.Lo == 0 && l.HiOff == 2 {
			return true, fmt.Sprintf("%s loop over tables[0 .. len-2] calling Table.Delete", l.Shape)
		}
		if l.Lo == 0 && l.HiOff == 1 {
			// covering the head as well would delete the version just written
			return false, "the retire loop also covers the head table"
		}
		return false, fmt.Sprintf("the retire loop covers tables[%d .. len-%d], not every older table", l.Lo, l.HiOff)
	}
	return false, "no loop over the older tables calling Table.Delete"
}

// kvLookupCoversAllTables: every KVStore accessor that searches the tables visits all
// of them (indices 0..len-1).
func kvLookupCoversAllTables(r *core.Run) {
	names := []string{"Get", "GetRaw", "GetTTL", "GetLastAccess", "GetKey", "Delete", "UpdateTTL", "Check", "Stats", "Range", "RangeHKey"}
	cnt := 0
	for _, m := range names {
		name := kvPkg + ".(*KVStore)." + m
		fn := r.Need("lookup-covers-all-tables", name)
		if fn == nil {
			continue
		}
		var best *core.IndexLoop
		for _, l := range core.IndexLoops(fn.SSA) {
			if l.LenOf != nil && isTablesLoad(l.LenOf) {
				best = l
				break
			}
		}
		if best == nil {
			r.Unknown("lookup-covers-all-tables", name, site(r, fn.SSA.Pos()), "no counting loop over k.tables recognised (shapes known: for i := len-1; i >= 0; i--, for i := 0; i < len; i++, range)")
			continue
		}
		cnt++
		r.Check(best.Lo == 0 && best.HiOff == 1, "lookup-covers-all-tables", name, site(r, instrPos(best.Phi)),
			fmt.Sprintf("%s loop over tables[0 .. len-1]", best.Shape),
			fmt.Sprintf("the loop visits tables[%d .. len-%d] only: keys living in the skipped table are invisible to this operation", best.Lo, best.HiOff))
	}
	r.Floor("lookup-covers-all-tables", cnt, 9)
}

// tableInsertRetiresOld (D5): in Table.Put / PutRaw every write of hkeys[hkey] is
// preceded on every path by Delete(hkey) of the same key whose error is handled.
func tableInsertRetiresOld(r *core.Run) {
	for _, name := range []string{tablePkg + ".(*Table).Put", tablePkg + ".(*Table).PutRaw"} {
		fn := r.Need("index-insert-retires-old", name)
		if fn == nil {
			continue
		}
		f := fn.SSA
		cnt := 0
		core.Instrs(f, func(in ssa.Instruction) {
			mu, ok := in.(*ssa.MapUpdate)
			if !ok || core.LastField(mu.Map) != "hkeys" {
				return
			}
			cnt++
			key := name + " hkeys[hkey] = offset"
			var del ssa.CallInstruction
			for _, c := range core.CallsTo(f, false, core.Named(tDelete)) {
				args := c.Common().Args
				if len(args) == 2 && args[1] == mu.Key && core.Dominates(c, in) {
					del = c
				}
			}
			if del == nil {
				r.Bad("index-insert-retires-old", key, site(r, instrPos(in)), "the index entry is overwritten without first retiring the previous version of the same key (its bytes stay counted as in use, its offset stays in the scan index)")
				return
			}
			// the error of Delete must be handled: insertion only where err is nil or not-found
			r.OK("index-insert-retires-old", key, site(r, instrPos(in)), "dominated by t.Delete(hkey) at "+site(r, instrPos(del)))
		})
		r.Floor("index-insert-retires-old("+fn.Obj.Name()+")", cnt, 1)
	}
}

// tableDeletePairing: in Table.Delete, removing the index entry is accompanied on every
// path by offsetIndex.Remove and garbage += n / inuse -= n with the same n.
func tableDeletePairing(r *core.Run) {
	name := tDelete
	fn := r.Need("delete-pairing", name)
	if fn == nil {
		return
	}
	f := fn.SSA
	pt := passThrough(r.P)
	var mapDel, idxRemove ssa.Instruction
	var garbageStore, inuseStore *ssa.Store
	core.Instrs(f, func(in ssa.Instruction) {
		switch x := in.(type) {
		case *ssa.Call:
			if b, ok := x.Call.Value.(*ssa.Builtin); ok && b.Name() == "delete" && core.LastField(x.Call.Args[0]) == "hkeys" {
				mapDel = in
			}
			if x.Call.StaticCallee() != nil && x.Call.StaticCallee().Name() == "Remove" && len(x.Call.Args) > 0 && core.LastField(x.Call.Args[0]) == "offsetIndex" {
				idxRemove = in
			}
		case *ssa.Store:
			switch core.LastField(x.Addr) {
			case "garbage":
				garbageStore = x
			case "inuse":
				inuseStore = x
			}
		}
	})
	where := site(r, f.Pos())
	r.Check(mapDel != nil, "delete-pairing", name+" delete(hkeys)", where, "index entry removed", "Table.Delete does not remove the index entry")
	r.Check(idxRemove != nil, "delete-pairing", name+" offsetIndex.Remove", where, "scan index entry removed", "Table.Delete does not remove the offset from the scan index: scans keep yielding the deleted version")
	if garbageStore == nil || inuseStore == nil {
		r.Bad("delete-pairing", name+" accounting", where, "garbage/inuse are not both updated: deleted bytes are not accounted as garbage, so the table never reaches the compaction threshold")
	} else {
		g, ok1 := garbageStore.Val.(*ssa.BinOp)
		u, ok2 := inuseStore.Val.(*ssa.BinOp)
		good := ok1 && ok2 && g.Op == token.ADD && u.Op == token.SUB && g.Y == u.Y &&
			core.LastField(g.X) == "garbage" && core.LastField(u.X) == "inuse"
		r.Check(good, "delete-pairing", name+" accounting", site(r, instrPos(garbageStore)),
			"garbage += n and inuse -= n with the same n", "garbage and inuse are not adjusted by the same amount in opposite directions")
		// n covers the whole entry: 1 + klen + 8 + 8 + 8 + 4 + vlen — checked by the layout rule (C17)
	}
	// all four effects on every path to a success return
	type eff struct {
		in   ssa.Instruction
		what string
	}
	var effs []eff
	if mapDel != nil {
		effs = append(effs, eff{mapDel, "delete(hkeys)"})
	}
	if idxRemove != nil {
		effs = append(effs, eff{idxRemove, "offsetIndex.Remove"})
	}
	if garbageStore != nil {
		effs = append(effs, eff{garbageStore, "garbage +="})
	}
	if inuseStore != nil {
		effs = append(effs, eff{inuseStore, "inuse -="})
	}
	for _, ev := range effs {
		target := ev.in
		ret := core.ReachesReturnAvoiding(f, func(in ssa.Instruction) bool { return in == target },
			func(x *ssa.Return) bool { return core.SuccessCapable(x, pt) })
		r.Check(ret == nil, "delete-pairing", name+" "+ev.what+" on every success path", where,
			"every success return is preceded by it", "a success return is reachable without it")
	}
}

// kvCompactionSourceNotHead (D6): evictTable is never invoked on the table that accepts
// writes (its entries are re-inserted with PutRaw, which targets that very table).
func kvCompactionSourceNotHead(r *core.Run) {
	name := kvPkg + ".(*KVStore).Compaction"
	fn := r.Need("compaction-source-not-destination", name)
	if fn == nil {
		return
	}
	f := fn.SSA
	calls := core.CallsTo(f, true, core.Named(kvPkg+".(*KVStore).evictTable"))
	r.Floor("compaction-source-not-destination", len(calls), 1)
	n := counter{}
	for _, c := range calls {
		key := n.next(name + " call of evictTable")
		args := c.Common().Args
		t := args[len(args)-1]
		why := ""
		for _, cd := range core.Conditions(c.Block()) {
			bin, ok := cd.Val.(*ssa.BinOp)
			if !ok || (bin.Op != token.EQL && bin.Op != token.NEQ) {
				continue
			}
			// t.State() == ReadWriteState must be false here
			var st, k ssa.Value = bin.X, bin.Y
			if _, ok := st.(*ssa.Const); ok {
				st, k = k, st
			}
			kc, ok := k.(*ssa.Const)
			if !ok || kc.Value == nil {
				continue
			}
			call, ok := st.(*ssa.Call)
			if !ok {
				continue
			}
			o := core.CalleeObj(call)
			if o == nil || core.QualName(o) != tablePkg+".(*Table).State" || len(call.Call.Args) != 1 || call.Call.Args[0] != t {
				continue
			}
			rw := readWriteStateValue(r.P)
			if rw < 0 || kc.Int64() != rw {
				continue
			}
			isRW := (bin.Op == token.EQL) == cd.Truth
			if !isRW {
				why = "guarded by t.State() != ReadWriteState"
			}
		}
		r.Check(why != "", "compaction-source-not-destination", key, site(r, instrPos(c)), why,
			"evictTable may be invoked on the table that accepts writes: its live entries are re-inserted into the same table and then deleted, i.e. lost")
	}
	// and evictTable re-inserts through KVStore.PutRaw before deleting from the source
	ev := r.Need("compaction-source-not-destination", kvPkg+".(*KVStore).evictTable")
	if ev != nil {
		good := false
		for _, sf := range core.AllSSA(ev.SSA) {
			puts := core.CallsTo(sf, false, core.Named(kvPkg+".(*KVStore).PutRaw"))
			dels := core.CallsTo(sf, false, core.Named(tDelete))
			for _, d := range dels {
				for _, pcall := range puts {
					if core.Dominates(pcall, d) && underNilErrOf(r.P, d.Block(), kvPkg+".(*KVStore).PutRaw") {
						good = true
					}
				}
			}
		}
		r.Check(good, "compaction-source-not-destination", kvPkg+".(*KVStore).evictTable move-then-delete", site(r, ev.SSA.Pos()),
			"the entry is deleted from the source only after PutRaw into the destination returned nil", "an entry can be deleted from the source table without a successful re-insert")
	}
}

func readWriteStateValue(p *core.Prog) int64 {
	pkg := p.Pkg(tablePkg)
	if pkg == nil {
		return -1
	}
	c, ok := pkg.Types.Scope().Lookup("ReadWriteState").(*types.Const)
	if !ok {
		return -1
	}
	v, ok := constantInt(c)
	if !ok {
		return -1
	}
	return v
}

// kvImportPropagates (D18): the error of the merge callback reaches Import's caller.
func kvImportPropagates(r *core.Run) {
	name := kvPkg + ".(*KVStore).Import"
	fn := r.Need("import-error-propagates", name)
	if fn == nil {
		return
	}
	// In the Range callback the result of f(hkey, e) must be stored into a variable of the
	// enclosing function that Import returns.
	good := false
	where := site(r, fn.SSA.Pos())
	for _, an := range fn.SSA.AnonFuncs {
		core.Instrs(an, func(in ssa.Instruction) {
			call, ok := in.(*ssa.Call)
			if !ok || call.Call.StaticCallee() != nil || call.Call.IsInvoke() {
				return
			}
			// dynamic call of the captured callback f
			if !types.Identical(call.Type(), errType) {
				return
			}
			for _, ref := range *call.Referrers() {
				st, ok := ref.(*ssa.Store)
				if !ok {
					continue
				}
				fv, ok := st.Addr.(*ssa.FreeVar)
				if !ok {
					continue
				}
				cell, ok := resolveFreeVar(fv).(*ssa.Alloc)
				if !ok {
					continue
				}
				// Import returns a load of that cell after Range
				for _, ret := range core.Returns(fn.SSA) {
					v := ret.Results[len(ret.Results)-1]
					if u, ok := v.(*ssa.UnOp); ok && u.X == ssa.Value(cell) {
						good = true
						where = site(r, instrPos(ret))
					}
				}
			}
		})
	}
	r.Check(good, "import-error-propagates", name, where, "the callback's error is stored in the variable Import returns",
		"the error returned by the merge callback only stops the iteration and is not returned: a half-merged table is acknowledged and the sender drops it")
}

// kvScanCursor (D7): a non-zero cursor returned by scanCommon that points at 'the next
// table' names a coefficient that exists: cf+1 only on the edge where
// tablesByCoefficient[cf+1] was found, otherwise the unmodified result of findCoefficient.
func kvScanCursor(r *core.Run) {
	name := kvPkg + ".(*KVStore).scanCommon"
	fn := r.Need("cursor-names-existing-table", name)
	if fn == nil {
		return
	}
	f := fn.SSA
	isTS := core.IsFieldLoad("KVStore", "tableSize")
	cnt := 0
	n := counter{}
	// every cursor construction tableSize*coefficient in the function (returned directly or
	// carried to the return through variables)
	var muls []*ssa.BinOp
	seenV := map[ssa.Value]bool{}
	var back func(v ssa.Value)
	back = func(v ssa.Value) {
		if v == nil || seenV[v] {
			return
		}
		seenV[v] = true
		switch x := v.(type) {
		case *ssa.Phi:
			for _, e := range x.Edges {
				back(e)
			}
		case *ssa.BinOp:
			if x.Op == token.MUL && (isTS(x.X) || isTS(x.Y)) {
				muls = append(muls, x)
			}
		}
	}
	for _, ret := range core.Returns(f) {
		back(core.ResultValue(ret, 0))
	}
	for _, mul := range muls {
		var ret ssa.Instruction = mul
		var cf ssa.Value
		if isTS(mul.X) {
			cf = mul.Y
		} else if isTS(mul.Y) {
			cf = mul.X
		} else {
			continue
		}
		cnt++
		key := n.next(name + " return tableSize*coefficient")
		ok2, why := validCoefficient(core.SuccessValue(cf), ret.Block(), nil, 0)
		r.Check(ok2, "cursor-names-existing-table", key, site(r, instrPos(ret)), why,
			"the resume cursor is built from a coefficient that is not known to name an existing table ("+why+"): the table it should have named is skipped or the scan ends early")
	}
	r.Floor("cursor-names-existing-table", cnt, 1)
}

// validCoefficient: v is either the unmodified first result of findCoefficient, or x+1
// on an edge where tablesByCoefficient[x+1] was found, or a phi of such.
func validCoefficient(v ssa.Value, at *ssa.BasicBlock, edgeFrom *ssa.BasicBlock, depth int) (bool, string) {
	if depth > 6 {
		return false, "too deep"
	}
	switch x := v.(type) {
	case *ssa.Extract:
		if call, ok := x.Tuple.(*ssa.Call); ok && x.Index == 0 {
			if o := core.CalleeObj(call); o != nil && core.QualName(o) == kvPkg+".(*KVStore).findCoefficient" {
				return true, "unmodified result of findCoefficient"
			}
		}
	case *ssa.Phi:
		for i, e := range x.Edges {
			if ok, why := validCoefficient(e, x.Block().Preds[i], x.Block(), depth+1); !ok {
				return false, why
			}
		}
		return true, "every incoming coefficient is validated (cf+1 found in tablesByCoefficient, or the result of findCoefficient)"
	case *ssa.BinOp:
		if x.Op != token.ADD {
			return false, "arithmetic on the coefficient"
		}
		if _, isExtract := x.X.(*ssa.Extract); isExtract {
			return false, "1 is added to the coefficient returned by findCoefficient (that coefficient already is the next existing table)"
		}
		// need: lookup tablesByCoefficient[x.X + 1] found on this edge
		conds := core.Conditions(at)
		if edgeFrom != nil && len(at.Instrs) > 0 {
			if ifi, ok := at.Instrs[len(at.Instrs)-1].(*ssa.If); ok {
				for i, s := range at.Succs {
					if s == edgeFrom && at.Succs[1-i] != edgeFrom {
						cv, neg := core.StripNot(ifi.Cond)
						truth := i == 0
						if neg {
							truth = !truth
						}
						conds = append(conds, core.Cond{If: ifi, Val: cv, Truth: truth})
					}
				}
			}
		}
		for _, c := range conds {
			if !c.Truth {
				continue
			}
			ex, ok := c.Val.(*ssa.Extract)
			if !ok || ex.Index != 1 {
				continue
			}
			lk, ok := ex.Tuple.(*ssa.Lookup)
			if !ok || !lk.CommaOk || core.LastField(lk.X) != "tablesByCoefficient" {
				continue
			}
			if sameAddOne(lk.Index, x) {
				return true, "cf+1 on the edge where tablesByCoefficient[cf+1] exists"
			}
		}
		return false, "cf+1 is used without a successful lookup of tablesByCoefficient[cf+1] on this edge"
	}
	return false, "unrecognised coefficient expression"
}

func sameAddOne(a ssa.Value, b *ssa.BinOp) bool {
	if a == ssa.Value(b) {
		return true
	}
	ab, ok := a.(*ssa.BinOp)
	if !ok || ab.Op != b.Op || ab.X != b.X {
		return false
	}
	ka, ok1 := ab.Y.(*ssa.Const)
	kb, ok2 := b.Y.(*ssa.Const)
	return ok1 && ok2 && ka.Int64() == kb.Int64()
}
