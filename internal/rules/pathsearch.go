package rules

import (
	"go/token"

	"golang.org/x/tools/go/ssa"

	"olricvet/internal/core"
)

// pathSearch explores the paths from start inside region and returns the first block
// accepted by goal that is reached without executing an instruction matching stop and
// without taking an edge rejected by edgeOK. The search is path sensitive for nil tests:
// it remembers which values were found nil / non-nil on the edges taken, resolves phis
// against the edge they were entered through, and does not follow an edge that
// contradicts what is already known (so `if err == nil { err = f() }; if err != nil
// { return }` is understood: the path around f with a non-nil err cannot reach the code
// after the second test). The exploration is bounded; on exhaustion it answers with the
// block where it gave up (a conservative "found").
func pathSearch(start *ssa.BasicBlock, region map[*ssa.BasicBlock]bool, stop instrPred, goal func(b *ssa.BasicBlock) bool, edgeOK func(from, to *ssa.BasicBlock) bool) *ssa.BasicBlock {
	return pathSearchFrom(nil, start, region, stop, goal, edgeOK)
}

// pathSearchFrom is pathSearch for a start block entered over the edge from -> start.
func pathSearchFrom(from0, start *ssa.BasicBlock, region map[*ssa.BasicBlock]bool, stop instrPred, goal func(b *ssa.BasicBlock) bool, edgeOK func(from, to *ssa.BasicBlock) bool) *ssa.BasicBlock {
	return pathSearchAssume(from0, start, region, stop, goal, edgeOK, nil)
}

// pathSearchAssume is pathSearchFrom with the outcome of some boolean values fixed in
// advance (the comparison whose bad outcome is being followed).
func pathSearchAssume(from0, start *ssa.BasicBlock, region map[*ssa.BasicBlock]bool, stop instrPred, goal func(b *ssa.BasicBlock) bool, edgeOK func(from, to *ssa.BasicBlock) bool, assume map[ssa.Value]bool) *ssa.BasicBlock {
	type fact struct {
		v   ssa.Value
		nil bool
	}
	steps := 0
	onPath := map[*ssa.BasicBlock]bool{}
	var found *ssa.BasicBlock
	var run func(b, from *ssa.BasicBlock, facts map[ssa.Value]bool, alias map[ssa.Value]ssa.Value, depth int)
	resolve := func(v ssa.Value, alias map[ssa.Value]ssa.Value) ssa.Value {
		for i := 0; i < 8; i++ {
			a, ok := alias[v]
			if !ok {
				return v
			}
			v = a
		}
		return v
	}
	run = func(b, from *ssa.BasicBlock, facts map[ssa.Value]bool, alias map[ssa.Value]ssa.Value, depth int) {
		if found != nil || (region != nil && !region[b]) || onPath[b] {
			return
		}
		onPath[b] = true
		defer delete(onPath, b)
		steps++
		if steps > 20000 || depth > 200 {
			found = b
			return
		}
		// bind phis to the value coming in over the edge taken
		var bound []ssa.Value
		for _, in := range b.Instrs {
			phi, ok := in.(*ssa.Phi)
			if !ok {
				break
			}
			for i, p := range b.Preds {
				if p == from && i < len(phi.Edges) {
					alias[phi] = phi.Edges[i]
					bound = append(bound, phi)
					break
				}
			}
		}
		defer func() {
			for _, v := range bound {
				delete(alias, v)
			}
		}()
		for _, in := range b.Instrs {
			if stop != nil && stop(in) {
				return
			}
		}
		if goal(b) {
			found = b
			return
		}
		if len(b.Instrs) == 0 {
			return
		}
		ifi, isIf := b.Instrs[len(b.Instrs)-1].(*ssa.If)
		for i, s := range b.Succs {
			if edgeOK != nil && !edgeOK(b, s) {
				continue
			}
			var learned *fact
			if isIf && len(b.Succs) == 2 && b.Succs[0] != b.Succs[1] {
				cond := ifi.Cond
				neg := false
				for {
					u, ok := cond.(*ssa.UnOp)
					if !ok || u.Op != token.NOT {
						break
					}
					cond, neg = u.X, !neg
				}
				// a flag that is a constant on the way taken (phi of constants, bound above)
				rc := resolve(cond, alias)
				if k, isK := rc.(*ssa.Const); isK && k.Value != nil && (k.Value.String() == "true" || k.Value.String() == "false") {
					if ((k.Value.String() == "true") != neg) != (i == 0) {
						continue
					}
				}
				if av, fixed := assume[rc]; fixed {
					if (av != neg) != (i == 0) {
						continue
					}
				}
				if bin, ok := cond.(*ssa.BinOp); ok && (bin.Op == token.EQL || bin.Op == token.NEQ) {
					var v ssa.Value
					if k, isK := bin.Y.(*ssa.Const); isK && k.IsNil() {
						v = bin.X
					} else if k, isK := bin.X.(*ssa.Const); isK && k.IsNil() {
						v = bin.Y
					}
					if v != nil {
						truth := (i == 0) != neg
						isNil := (bin.Op == token.EQL) == truth
						rv := resolve(v, alias)
						if k, isK := rv.(*ssa.Const); isK {
							if k.IsNil() != isNil {
								continue // contradicts a constant
							}
						} else if known, ok := facts[rv]; ok {
							if known != isNil {
								continue // contradicts an earlier test on this path
							}
						} else {
							learned = &fact{rv, isNil}
						}
					}
				}
			}
			if learned != nil {
				facts[learned.v] = learned.nil
			}
			run(s, b, facts, alias, depth+1)
			if learned != nil {
				delete(facts, learned.v)
			}
		}
	}
	run(start, from0, map[ssa.Value]bool{}, map[ssa.Value]ssa.Value{}, 0)
	return found
}

// edgeOnlyFails: after taking successor idx of block b (a test that found something wrong)
// the function can only fail: no return that can report success and no way back to b (the
// next iteration) is reachable. Path sensitive, so the test may feed a flag that is
// examined later (valid := a && b; if !valid { return err }).
func edgeOnlyFails(p *core.Prog, b *ssa.BasicBlock, idx int) bool {
	if idx >= len(b.Succs) {
		return false
	}
	pt := passThrough(p)
	anyReturn := false
	hit := pathSearchFrom(b, b.Succs[idx], nil, nil, func(x *ssa.BasicBlock) bool {
		if x == b {
			return true
		}
		if len(x.Instrs) == 0 {
			return false
		}
		if ret, ok := x.Instrs[len(x.Instrs)-1].(*ssa.Return); ok {
			anyReturn = true
			return core.SuccessCapable(ret, pt)
		}
		return false
	}, nil)
	return hit == nil && anyReturn
}

// valueOnlyFails: when the boolean value v has the outcome `outcome` the function can only
// fail from v's block on (no success-capable return, no next iteration of the loop that
// contains v). Covers both `if v { return err }` and flag := a && v; if !flag { return err }.
func valueOnlyFails(p *core.Prog, v ssa.Instruction, outcome bool) bool {
	val, ok := v.(ssa.Value)
	if !ok {
		return false
	}
	pt := passThrough(p)
	b := v.Block()
	// the loop header to which a "continue" would lead: any block that dominates b and is
	// reachable again from b counts as the next iteration
	anyReturn := false
	first := true
	hit := pathSearchAssume(nil, b, nil, nil, func(x *ssa.BasicBlock) bool {
		if first {
			first = false
			return false
		}
		if x == b || (x.Dominates(b) && x != b && hasBackEdge(x)) {
			return true
		}
		if len(x.Instrs) == 0 {
			return false
		}
		if ret, isRet := x.Instrs[len(x.Instrs)-1].(*ssa.Return); isRet {
			anyReturn = true
			return core.SuccessCapable(ret, pt)
		}
		return false
	}, nil, map[ssa.Value]bool{val: outcome})
	return hit == nil && anyReturn
}

func hasBackEdge(h *ssa.BasicBlock) bool {
	for _, pr := range h.Preds {
		if h.Dominates(pr) {
			return true
		}
	}
	return false
}
