package rules

import (
	"fmt"
	"go/ast"
	"go/token"
	"go/types"
	"strings"

	"golang.org/x/tools/go/ssa"

	"olricvet/internal/core"
)

const (
	fnIsKeyExpired   = dmapPkg + ".isKeyExpired"
	fnCheckPutConds  = dmapPkg + ".(*DMap).checkPutConditions"
	fnGetOnFragment  = dmapPkg + ".(*DMap).getOnFragment"
	fnPrepareTTL     = dmapPkg + ".prepareTTL"
	fnAtomicIncrDecr = dmapPkg + ".(*DMap).atomicIncrDecr"
)

func init() {
	register(&Property{
		ID: "C09",
		Explain: "Static structural necessary conditions of 'a key is visible until its expiry and never after it' (wall-clock placement of operations and background eviction timing are NOT decided): " +
			"(read-checks-expiry) every entry-returning path of getOnFragment and of the quorum read lies on the false edge of isKeyExpired(entry.TTL()); " +
			"(expiry-boundary) isKeyExpired: ttl == 0 never expires, otherwise expired iff now >= ttl (truth table {visible, expired, expired}); " +
			"(conditions-consult-expiry) for each presence-dependent mode (NX, XX, ttl-only update) every path of checkPutConditions from the mode's true edge to a success return evaluates isKeyExpired on the stored ttl, and checkPutConditions dominates every insert of putOnCluster; " +
			"(ttl-exhaustive) prepareTTL has one case per ttl option of PutConfig plus the default-ttl branch, each dividing nanoseconds by 1e6, and Incr/Decr re-arm the remaining ttl; " +
			"(unit-agreement) every encoder and decoder of EX/PX/EXAT/PXAT, Expire/PExpire, LockLease/PLockLease, Lock EX/PX and the lock deadline agree on seconds vs milliseconds; " +
			"(explicit-expiry-wins) prepareTTL derives the deadline from env.timeout (the DMap's default TTL, or the remaining time carried by Incr/Decr) only on the false edges of HasEX, HasPX, HasEXAT and HasPXAT; " +
			"(sanitize-keeps-every-copy, shared with C06) the version list of a quorum read loses only the holders without a copy before the newest-first comparison, never an expired version; " +
			"(timeout-needs-ttl-mode) a request's default-timeout field is only set together with the ttl-only mode, the only mode whose forwarding transmits it (shared with C08/C15); " +
			"(lookup-visits-every-table) shared with C11: ttl updates reach keys in every storage table.",
		Run: func(r *core.Run) {
			c09ReadChecksExpiry(r)
			c09ExpiryBoundary(r)
			c09ConditionsConsultExpiry(r)
			c09TTLExhaustive(r)
			unitAgreement(r)
			timeoutNeedsTTLMode(r)
			kvLookupVisitsEveryTable(r)
			kvLookupCoversAllTables(r)
			c09ExplicitExpiryWins(r)
			customConfigOverrides(r)
			c09SubMillisecondKept(r)
			c15ParserConsumesAllArguments(r)
			c09IncrByFloatKeepsExpiry(r)
			c09ScanSkipsExpired(r)
			c10TTLUpdateDoesNotEvict(r)
			optionGroups(r)
			c03PreviousOwners(r)
			c09SanitizeKeepsVersions(r)
			c06CollectedVersionsComplete(r)
			c09RelativeExpiryFromNow(r)
			c02ReplicateBeforeAck(r)
		},
	})
}

func isExpiredCall(v ssa.Value) bool {
	c, ok := v.(*ssa.Call)
	if !ok {
		return false
	}
	o := core.CalleeObj(c)
	return o != nil && core.QualName(o) == fnIsKeyExpired
}

func c09ReadChecksExpiry(r *core.Run) {
	pt := passThrough(r.P)
	for _, name := range []string{fnGetOnFragment, fnGetOnCluster} {
		fn := r.Need("read-checks-expiry", name)
		if fn == nil {
			continue
		}
		cnt := 0
		n := counter{}
		for _, ret := range core.Returns(fn.SSA) {
			ev := core.ResultValue(ret, 1)
			if ev == nil || core.ErrState(ev, ret.Block(), pt) == core.NonNil {
				continue
			}
			cnt++
			ok := false
			for _, cd := range core.Conditions(ret.Block()) {
				if isExpiredCall(cd.Val) && !cd.Truth {
					// the argument is the TTL() of an entry
					call := cd.Val.(*ssa.Call)
					if a, isCall := call.Call.Args[0].(*ssa.Call); isCall && methodName(a) == "TTL" {
						ok = true
					}
				}
			}
			r.Check(ok, "read-checks-expiry", n.next(name+" entry-returning path"), site(r, instrPos(ret)),
				"on the false edge of isKeyExpired(entry.TTL())", "an entry can be returned without the expiry test: a key past its deadline that background eviction has not removed yet is still visible")
		}
		r.Floor("read-checks-expiry("+fn.Obj.Name()+")", cnt, 1)
	}
}

func c09ExpiryBoundary(r *core.Run) {
	fn := r.Need("expiry-boundary", fnIsKeyExpired)
	if fn == nil {
		return
	}
	f := fn.SSA
	ttl := ssa.Value(f.Params[0])
	// (1) ttl == 0 => false
	zeroOK := false
	for _, ret := range core.Returns(f) {
		k, isK := core.ResultValue(ret, 0).(*ssa.Const)
		if !isK || k.Value == nil || k.Value.String() != "false" {
			continue
		}
		for _, cd := range core.Conditions(ret.Block()) {
			bin, ok := cd.Val.(*ssa.BinOp)
			if !ok {
				continue
			}
			if bin.X == ttl {
				if kk, isKK := bin.Y.(*ssa.Const); isKK && kk.Value != nil && kk.Int64() == 0 && (bin.Op == token.EQL) == cd.Truth {
					zeroOK = true
				}
			}
		}
	}
	r.Check(zeroOK, "expiry-boundary", fnIsKeyExpired+" ttl==0", site(r, f.Pos()), "ttl == 0 means no expiry", "a key without ttl is not treated as never expiring")
	// (2) the comparison now vs ttl
	var cmp *ssa.BinOp
	core.Instrs(f, func(in ssa.Instruction) {
		if bin, ok := in.(*ssa.BinOp); ok && core.IsCompare(bin.Op) {
			if (bin.Y == ttl && derivesFromNow(bin.X)) || (bin.X == ttl && derivesFromNow(bin.Y)) {
				cmp = bin
			}
		}
	})
	if cmp == nil {
		r.Bad("expiry-boundary", fnIsKeyExpired+" now vs ttl", site(r, f.Pos()), "no comparison between the current time and the ttl")
		return
	}
	op := cmp.Op
	if cmp.X == ttl {
		op = flip(op)
	}
	// the function's result for each ordering of now and ttl: the comparison may be
	// returned as it is or select between constant results (early return form)
	var tbl [3]bool
	decided := true
	for i, ord := range []int{-1, 0, 1} {
		res, ok := core.BoolResult(f, cmp.Block(), 0, map[ssa.Value]bool{cmp: core.CmpHolds(op, ord)})
		if !ok {
			decided = false
		}
		tbl[i] = res
	}
	if !decided {
		r.Unknown("expiry-boundary", fnIsKeyExpired+" now vs ttl", site(r, instrPos(cmp)), "the result is not a function of the comparison between now and ttl alone")
		return
	}
	r.Check(tbl == [3]bool{false, true, true}, "expiry-boundary", fnIsKeyExpired+" now vs ttl", site(r, instrPos(cmp)),
		"expired iff now >= ttl ({visible, expired, expired} over now{<,==,>}ttl)",
		fmt.Sprintf("expired over now{<,==,>}ttl = %v; required {false,true,true}: a key is observable at or after its deadline, or hidden before it", tbl))
	// the time unit: UnixNano()/1e6 (milliseconds, the unit ttl is stored in)
	unitOK := false
	core.Instrs(f, func(in ssa.Instruction) {
		if bin, ok := in.(*ssa.BinOp); ok && bin.Op == token.QUO {
			if k, isK := bin.Y.(*ssa.Const); isK && k.Value != nil && k.Int64() == 1000000 && derivesFromNow(bin.X) {
				unitOK = true
			}
		}
	})
	r.Check(unitOK, "expiry-boundary", fnIsKeyExpired+" millisecond clock", site(r, f.Pos()), "now is UnixNano()/1e6, the unit ttl is stored in", "the current time is not converted to milliseconds (the unit ttl is stored in)")
}

func derivesFromNow(v ssa.Value) bool {
	for i := 0; i < 6 && v != nil; i++ {
		switch x := v.(type) {
		case *ssa.BinOp:
			return derivesFromNow(x.X) || derivesFromNow(x.Y)
		case *ssa.Convert:
			v = x.X
		case *ssa.Call:
			n := methodName(x)
			if n == "UnixNano" || n == "UnixMilli" || n == "Now" {
				return true
			}
			return false
		default:
			return false
		}
	}
	return false
}

func c09ConditionsConsultExpiry(r *core.Run) {
	fn := r.Need("conditions-consult-expiry", fnCheckPutConds)
	if fn == nil {
		return
	}
	f := fn.SSA
	isExp := func(in ssa.Instruction) bool {
		c, ok := in.(*ssa.Call)
		if !ok || !isExpiredCall(c) {
			return false
		}
		// the argument is the ttl obtained from storage.GetTTL
		if ex, isEx := c.Call.Args[0].(*ssa.Extract); isEx {
			if g, isCall := ex.Tuple.(*ssa.Call); isCall && engineCall("GetTTL")(g) {
				return true
			}
		}
		return false
	}
	for _, flag := range []string{"HasNX", "HasXX", "OnlyUpdateTTL"} {
		pred := core.IsFieldLoad("PutConfig", flag)
		found := false
		for _, b := range f.Blocks {
			if len(b.Instrs) == 0 {
				continue
			}
			ifi, ok := b.Instrs[len(b.Instrs)-1].(*ssa.If)
			if !ok {
				continue
			}
			v, neg := core.StripNot(ifi.Cond)
			if !pred(v) {
				continue
			}
			found = true
			idx := 0
			if neg {
				idx = 1
			}
			start := b.Succs[idx]
			bad := !consultsExpiry(r.P, f, start, isExp, 0)
			r.Check(!bad, "conditions-consult-expiry", fnCheckPutConds+" mode "+flag, site(r, instrPos(ifi)),
				"from the mode's true edge every path to a success return evaluates isKeyExpired(GetTTL(hkey))",
				"with "+flag+" set the conditions can succeed without evaluating the stored key's expiry: an expired but not yet evicted key is treated as live ("+map[string]string{"HasNX": "NX fails on a dead key", "HasXX": "XX overwrites a dead key", "OnlyUpdateTTL": "Expire revives a dead key"}[flag]+")")
		}
		if !found {
			r.Bad("conditions-consult-expiry", fnCheckPutConds+" mode "+flag, site(r, f.Pos()),
				"checkPutConditions never branches on "+flag+": this presence-dependent mode is applied without looking at the stored key and its expiry")
		}
	}
	// outcome identities: NX on a live key => ErrKeyFound; XX/Expire on a dead key => ErrKeyNotFound
	for _, in := range findInstrs(f, false, isExp) {
		c := in.(*ssa.Call)
		for _, ref := range *c.Referrers() {
			ifi, ok := ref.(*ssa.If)
			if !ok {
				continue
			}
			_ = ifi
		}
	}
	// checkPutConditions precedes every write of putOnCluster and its error aborts
	if p := r.Need("conditions-consult-expiry", fnPutOnCluster); p != nil {
		for _, w := range findInstrs(p.SSA, false, callTo(fnSyncPut, fnAsyncPut, fnPutEntryFrag)) {
			r.Check(underNilErrOf(r.P, w.Block(), fnCheckPutConds), "conditions-consult-expiry", fnPutOnCluster+" write after conditions", site(r, instrPos(w)),
				"every write path is reached only with nil checkPutConditions", "a write is reachable although checkPutConditions failed or was not evaluated")
		}
	}
}

func c09TTLExhaustive(r *core.Run) {
	fn := r.Need("ttl-exhaustive", fnPrepareTTL)
	if fn == nil {
		return
	}
	f := fn.SSA
	_, st := core.FindStruct(r.P.Pkg(dmapPkg), "PutConfig")
	if st == nil {
		r.Unknown("ttl-exhaustive", "PutConfig", "-", "struct not found")
		return
	}
	// ttl options = bool fields HasX with a sibling X of type time.Duration
	for i := 0; i < st.NumFields(); i++ {
		fl := st.Field(i)
		if !strings.HasPrefix(fl.Name(), "Has") {
			continue
		}
		val := strings.TrimPrefix(fl.Name(), "Has")
		hasVal := false
		for j := 0; j < st.NumFields(); j++ {
			if st.Field(j).Name() == val {
				hasVal = true
			}
		}
		if !hasVal {
			continue
		}
		// a branch on HasX whose true edge reads X
		pred := core.IsFieldLoad("PutConfig", fl.Name())
		ok := false
		for _, b := range f.Blocks {
			if len(b.Instrs) == 0 {
				continue
			}
			ifi, isIf := b.Instrs[len(b.Instrs)-1].(*ssa.If)
			if !isIf || !pred(ifi.Cond) {
				continue
			}
			for _, in := range b.Succs[0].Instrs {
				if u, isU := in.(*ssa.UnOp); isU && core.LastField(u) == val {
					ok = true
				}
			}
		}
		r.Check(ok, "ttl-exhaustive", fnPrepareTTL+" case "+fl.Name(), site(r, f.Pos()),
			"prepareTTL has a case for "+fl.Name()+" that reads "+val, "prepareTTL has no case for the ttl option "+fl.Name()+": the option is accepted and silently ignored")
	}
	// default branch uses e.timeout
	usesTimeout := false
	core.Instrs(f, func(in ssa.Instruction) {
		if u, ok := in.(*ssa.UnOp); ok && core.LastField(u) == "timeout" {
			usesTimeout = true
		}
	})
	r.Check(usesTimeout, "ttl-exhaustive", fnPrepareTTL+" default ttl", site(r, f.Pos()), "the default branch applies the request's timeout (DMap default ttl / Expire)", "the default ttl / Expire timeout is never applied")
	// every ns value is divided by 1e6
	divs, nsReads := 0, 0
	core.Instrs(f, func(in ssa.Instruction) {
		if bin, ok := in.(*ssa.BinOp); ok && bin.Op == token.QUO {
			if k, isK := bin.Y.(*ssa.Const); isK && k.Value != nil && k.Int64() == 1000000 {
				divs++
			}
		}
		if c, ok := in.(*ssa.Call); ok && methodName(c) == "Nanoseconds" {
			nsReads++
		}
	})
	// every nanosecond reading that is used arithmetically reaches the result through a
	// division by 1e6 (a reading that is only compared, e.g. ns != 0, is not a conversion)
	undivided := 0
	used := 0
	core.Instrs(f, func(in ssa.Instruction) {
		c, ok := in.(*ssa.Call)
		if !ok || methodName(c) != "Nanoseconds" {
			return
		}
		arith := false
		var reachesUndivided func(v ssa.Value, depth int) bool
		reachesUndivided = func(v ssa.Value, depth int) bool {
			if depth > 8 {
				return false
			}
			refs := v.Referrers()
			if refs == nil {
				return false
			}
			for _, ref := range *refs {
				switch x := ref.(type) {
				case *ssa.BinOp:
					if core.IsCompare(x.Op) {
						continue
					}
					arith = true
					if x.Op == token.QUO {
						if k, isK := x.Y.(*ssa.Const); isK && k.Value != nil && k.Int64() == 1000000 {
							continue // converted
						}
					}
					if reachesUndivided(x, depth+1) {
						return true
					}
				case *ssa.Convert:
					if reachesUndivided(x, depth+1) {
						return true
					}
				case *ssa.Phi:
					if reachesUndivided(x, depth+1) {
						return true
					}
				case *ssa.Return:
					return true
				case *ssa.Store:
					return true
				}
			}
			return false
		}
		bad := reachesUndivided(c, 0)
		if arith {
			used++
			if bad {
				undivided++
			}
		}
	})
	_, _ = divs, nsReads
	r.Check(undivided == 0 && used >= 5, "ttl-exhaustive", fnPrepareTTL+" millisecond conversion", site(r, f.Pos()),
		fmt.Sprintf("%d nanosecond quantities, each divided by 1e6 before it is stored", used), fmt.Sprintf("%d of %d nanosecond quantities reach the result without a division by 1e6: some ttl is stored in the wrong unit", undivided, used))
	// Incr/Decr keep the ttl: HasPX set when the loaded ttl != 0
	if a := r.Need("ttl-exhaustive", fnAtomicIncrDecr); a != nil {
		ok := false
		core.Instrs(a.SSA, func(in ssa.Instruction) {
			st, isSt := in.(*ssa.Store)
			if !isSt || core.LastField(st.Addr) != "HasPX" {
				return
			}
			extra := false
			hasTTL := false
			for _, cd := range core.Conditions(in.Block()) {
				if bin, isBin := cd.Val.(*ssa.BinOp); isBin && bin.Op == token.NEQ && cd.Truth {
					if _, isEx := bin.X.(*ssa.Extract); isEx {
						hasTTL = true
						continue
					}
				}
				if _, _, isErr := isErrNilTest(cd); isErr {
					continue
				}
				// a test of the remaining time makes the carry-over conditional
				if mentionsTime(cd.Val, 0) {
					extra = true
				}
			}
			if hasTTL && !extra {
				ok = true
			}
		})
		r.Check(ok, "ttl-exhaustive", fnAtomicIncrDecr+" keeps the ttl", site(r, a.SSA.Pos()), "the remaining ttl is re-armed whenever the loaded ttl != 0, under no further condition", "Incr/Decr can drop the key's expiry (the carry-over is missing or depends on something besides 'the key has a ttl', e.g. on the remaining time being positive: an increment that straddles the deadline writes the counter back with no expiry at all)")
	}
}

// unitAgreement: AST-level table check of seconds vs milliseconds.
func unitAgreement(r *core.Run) {
	p := r.P
	unitOfName := func(n string) string {
		switch n {
		case "EX", "EXAT", "Seconds", "Deadline":
			return "s"
		case "PX", "PXAT", "Milliseconds":
			return "ms"
		}
		return ""
	}
	cnt := 0
	n := counter{}
	for _, pk := range p.Pkgs {
		rel := core.RelPkg(pk.PkgPath)
		if strings.HasPrefix(rel, "internal/test") || strings.HasPrefix(rel, "cmd/") || rel == "config" {
			continue
		}
		for _, file := range pk.Syntax {
			ast.Inspect(file, func(nd ast.Node) bool {
				switch x := nd.(type) {
				case *ast.BinaryExpr:
					if x.Op != token.MUL {
						return true
					}
					tu := timeUnit(pk.TypesInfo, x.X)
					other := x.Y
					if tu == "" {
						tu = timeUnit(pk.TypesInfo, x.Y)
						other = x.X
					}
					if tu == "" {
						return true
					}
					fld, owner := namedField(pk.TypesInfo, other)
					if fld == "" {
						return true
					}
					want := unitOfName(fld)
					if fld == "Timeout" {
						switch owner {
						case "LockLease":
							want = "s"
						case "PLockLease":
							want = "ms"
						}
					}
					if want == "" {
						return true
					}
					// a fractional (float) wire value must be multiplied in floating point,
					// otherwise the fraction is truncated before scaling
					if ft := fieldType(pk.TypesInfo, other); ft != nil {
						if b, isB := ft.Underlying().(*types.Basic); isB && b.Info()&types.IsFloat != 0 {
							pt, _ := pk.TypesInfo.Types[x].Type.Underlying().(*types.Basic)
							isFloatProduct := pt != nil && pt.Info()&types.IsFloat != 0
							cnt++
							r.Check(isFloatProduct, "unit-agreement", n.next("decode "+owner+"."+fld+" keeps the fraction"), p.Pos(x.Pos()),
								"the fractional value is scaled in floating point before the conversion to a duration",
								owner+"."+fld+" is a fractional number of seconds but is converted to an integer duration before it is multiplied by the unit: the fraction is lost on every path that decodes the wire form (EX 2.5 becomes 2s, EX 0.8 becomes an already expired key), while the local path keeps it")
						}
					}
					cnt++
					r.Check(want == tu, "unit-agreement", n.next("decode "+owner+"."+fld), p.Pos(x.Pos()),
						owner+"."+fld+" is multiplied by the matching time unit", fmt.Sprintf("%s.%s carries %s on the wire but is multiplied by the %s unit: the expiry is off by a factor of 1000", owner, fld, map[string]string{"s": "seconds", "ms": "milliseconds"}[want], map[string]string{"s": "second", "ms": "millisecond"}[tu]))
				case *ast.CallExpr:
					se, ok := x.Fun.(*ast.SelectorExpr)
					if !ok {
						return true
					}
					// encoders: SetEX(d.Seconds()), NewLockLease(..., d.Seconds()), e.Seconds.Seconds()
					name := se.Sel.Name
					want := ""
					switch name {
					case "SetEX", "SetEXAT":
						want = "s"
					case "SetPX", "SetPXAT":
						want = "ms"
					case "NewLockLease", "NewLock":
						want = "s"
					case "NewPLockLease":
						want = "ms"
					}
					if want != "" {
						for _, a := range x.Args {
							if u := durationMethod(pk.TypesInfo, a); u != "" {
								cnt++
								r.Check(u == want, "unit-agreement", n.next("encode "+name), p.Pos(a.Pos()),
									name+" receives the matching unit", fmt.Sprintf("%s expects %s but receives the duration in the other unit: the expiry is off by a factor of 1000", name, map[string]string{"s": "seconds", "ms": "milliseconds"}[want]))
							}
						}
					}
					// field named Seconds / Milliseconds converted with the other method
					if u := durationMethod(pk.TypesInfo, x); u != "" {
						if inner, ok := se.X.(*ast.SelectorExpr); ok {
							if w := unitOfName(inner.Sel.Name); w != "" && (inner.Sel.Name == "Seconds" || inner.Sel.Name == "Milliseconds") {
								cnt++
								r.Check(u == w, "unit-agreement", n.next("encode field "+inner.Sel.Name), p.Pos(x.Pos()),
									"the field is written in the unit its name says", "a field named "+inner.Sel.Name+" is written in the other unit")
							}
						}
					}
				}
				return true
			})
		}
	}
	r.Floor("unit-agreement", cnt, 24)
}

// timeUnit: e is (a conversion of) time.Second / time.Millisecond.
func timeUnit(info *types.Info, e ast.Expr) string {
	e = core.Unparen(e)
	if c, ok := e.(*ast.CallExpr); ok && len(c.Args) == 1 {
		if tv, ok := info.Types[c.Fun]; ok && tv.IsType() {
			return timeUnit(info, c.Args[0])
		}
	}
	se, ok := e.(*ast.SelectorExpr)
	if !ok {
		return ""
	}
	obj := info.Uses[se.Sel]
	if obj == nil || obj.Pkg() == nil || obj.Pkg().Path() != "time" {
		return ""
	}
	switch obj.Name() {
	case "Second":
		return "s"
	case "Millisecond":
		return "ms"
	}
	return ""
}

// namedField: e is (a conversion of) x.F; returns F and the name of x's struct type.
func namedField(info *types.Info, e ast.Expr) (string, string) {
	e = core.Unparen(e)
	if c, ok := e.(*ast.CallExpr); ok && len(c.Args) == 1 {
		if tv, ok := info.Types[c.Fun]; ok && tv.IsType() {
			return namedField(info, c.Args[0])
		}
	}
	se, ok := e.(*ast.SelectorExpr)
	if !ok {
		if id, ok := e.(*ast.Ident); ok {
			// a local named like the wire field (seconds / milliseconds)
			switch strings.ToLower(id.Name) {
			case "seconds":
				return "Seconds", "local"
			case "milliseconds":
				return "Milliseconds", "local"
			}
		}
		return "", ""
	}
	sel := info.Selections[se]
	if sel == nil || sel.Kind() != types.FieldVal {
		return "", ""
	}
	owner := ""
	if n, ok := deref(sel.Recv()).(*types.Named); ok {
		owner = n.Obj().Name()
	}
	return se.Sel.Name, owner
}

// durationMethod: e is d.Seconds() / d.Milliseconds() on a time.Duration.
func durationMethod(info *types.Info, e ast.Expr) string {
	c, ok := core.Unparen(e).(*ast.CallExpr)
	if !ok {
		return ""
	}
	se, ok := c.Fun.(*ast.SelectorExpr)
	if !ok {
		return ""
	}
	tv, ok := info.Types[se.X]
	if !ok {
		return ""
	}
	n, ok := tv.Type.(*types.Named)
	if !ok || n.Obj().Name() != "Duration" || n.Obj().Pkg() == nil || n.Obj().Pkg().Path() != "time" {
		return ""
	}
	switch se.Sel.Name {
	case "Seconds":
		return "s"
	case "Milliseconds":
		return "ms"
	}
	return ""
}

// timeoutNeedsTTLMode: outside putOnCluster (which applies the DMap's default ttl on the
// owner) a request's timeout field is only assigned in functions that also select the
// ttl-only mode — the only mode whose forwarding (DM.PEXPIRE) transmits the timeout.
func timeoutNeedsTTLMode(r *core.Run) {
	p := r.P
	cnt := 0
	for _, fn := range p.FuncList {
		if fn.SSA == nil || core.RelPkg(fn.Pkg.PkgPath) != dmapPkg || fn.Name == fnPutOnCluster {
			continue
		}
		var stores []ssa.Instruction
		core.Instrs(fn.SSA, func(in ssa.Instruction) {
			if st, ok := in.(*ssa.Store); ok && core.LastField(st.Addr) == "timeout" {
				if fa, ok := st.Addr.(*ssa.FieldAddr); ok {
					if nt, ok := deref(fa.X.Type()).(*types.Named); ok && nt.Obj().Name() == "env" {
						stores = append(stores, in)
					}
				}
			}
		})
		if len(stores) == 0 {
			continue
		}
		cnt++
		// the same function stores a PutConfig with OnlyUpdateTTL = true into the request
		mode := false
		core.Instrs(fn.SSA, func(in ssa.Instruction) {
			if st, ok := in.(*ssa.Store); ok && core.LastField(st.Addr) == "OnlyUpdateTTL" {
				if k, isK := st.Val.(*ssa.Const); isK && k.Value != nil && k.Value.String() == "true" {
					mode = true
				}
			}
		})
		r.Check(mode, "timeout-needs-ttl-mode", fn.Name+" sets env.timeout", site(r, instrPos(stores[0])),
			"the timeout is set together with the ttl-only mode (forwarded as DM.PEXPIRE)",
			"a request carries a timeout without the ttl-only mode: on the partition owner prepareTTL honours it, but the forwarding encoder transmits a timeout only for the ttl-only mode, so the same operation issued through a non-owner member loses its expiry (e.g. a lock that is never released)")
	}
	r.Floor("timeout-needs-ttl-mode", cnt, 1) // three today; the scan is over every store to env.timeout, handlers may be merged
}

// consultsExpiry: from block start every path of f to a return that can report success
// (1) asks the store for the key's ttl and (2) where the key is present (GetTTL's error
// is nil) evaluates isKeyExpired on it first. A call of a same-package helper that does
// both on all of its own success paths counts as the consultation (one level).
func consultsExpiry(p *core.Prog, f *ssa.Function, start *ssa.BasicBlock, isExp instrPred, depth int) bool {
	pt := passThrough(p)
	getTTL := engineCall("GetTTL")
	var helperConsults instrPred = func(ssa.Instruction) bool { return false }
	if depth == 0 {
		memo := map[*ssa.Function]bool{}
		helperConsults = func(in ssa.Instruction) bool {
			c, ok := in.(*ssa.Call)
			if !ok {
				return false
			}
			h := p.ByObj[core.CalleeObj(c)]
			if h == nil || h.SSA == nil || h.SSA == f || f.Pkg == nil || h.Pkg.PkgPath != f.Pkg.Pkg.Path() || len(h.SSA.Blocks) == 0 || core.ErrIndex(h.SSA) < 0 {
				return false
			}
			v, known := memo[h.SSA]
			if !known {
				v = len(findInstrs(h.SSA, false, getTTL)) > 0 && consultsExpiry(p, h.SSA, h.SSA.Blocks[0], isExp, 1)
				memo[h.SSA] = v
			}
			return v
		}
	}
	consult := func(in ssa.Instruction) bool { return getTTL(in) || helperConsults(in) }
	bad := false
	if len(start.Instrs) > 0 {
		first := start.Instrs[0]
		if !consult(first) {
			if ret := core.ReachesReturnFrom(first, consult, func(x *ssa.Return) bool { return core.SuccessCapable(x, pt) }); ret != nil {
				bad = true
			}
		}
	}
	for _, g := range findInstrs(f, false, getTTL) {
		if !start.Dominates(g.Block()) && start != g.Block() {
			continue
		}
		call := g.(*ssa.Call)
		var errv ssa.Value
		for _, ref := range *call.Referrers() {
			if ex, ok := ref.(*ssa.Extract); ok && ex.Index == 1 {
				errv = ex
			}
		}
		if errv == nil {
			bad = true
			continue
		}
		tested := false
		for _, blk := range f.Blocks {
			if len(blk.Instrs) == 0 {
				continue
			}
			ifi2, ok := blk.Instrs[len(blk.Instrs)-1].(*ssa.If)
			if !ok {
				continue
			}
			cv, neg2 := core.StripNot(ifi2.Cond)
			v2, nonNilTrue, ok := isErrNilTest(core.Cond{If: ifi2, Val: cv, Truth: true})
			if !ok || v2 != errv {
				continue
			}
			if neg2 {
				nonNilTrue = !nonNilTrue
			}
			nilIdx := 1
			if !nonNilTrue {
				nilIdx = 0
			}
			tested = true
			ns := blk.Succs[nilIdx]
			if len(ns.Instrs) > 0 && !isExp(ns.Instrs[0]) {
				if ret := core.ReachesReturnFrom(ns.Instrs[0], isExp, func(x *ssa.Return) bool { return core.SuccessCapable(x, pt) }); ret != nil {
					bad = true
				}
			}
		}
		if !tested {
			bad = true
		}
	}
	return !bad
}

// mentionsTime: the value is computed from the clock (a call into package time).
func mentionsTime(v ssa.Value, depth int) bool {
	if depth > 6 || v == nil {
		return false
	}
	switch x := v.(type) {
	case *ssa.BinOp:
		return mentionsTime(x.X, depth+1) || mentionsTime(x.Y, depth+1)
	case *ssa.UnOp:
		return mentionsTime(x.X, depth+1)
	case *ssa.Convert:
		return mentionsTime(x.X, depth+1)
	case *ssa.Phi:
		for _, e := range x.Edges {
			if mentionsTime(e, depth+1) {
				return true
			}
		}
	case *ssa.Call:
		if o := core.CalleeObj(x); o != nil && o.Pkg() != nil && o.Pkg().Path() == "time" {
			return true
		}
		for _, a := range x.Call.Args {
			if mentionsTime(a, depth+1) {
				return true
			}
		}
	}
	return false
}
