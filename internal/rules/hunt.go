package rules

import (
	"fmt"
	"go/token"
	"go/types"

	"golang.org/x/tools/go/ssa"

	"olricvet/internal/core"
)

// Rules written for the defects D36-D46 (found by reading sessions with failing
// demonstrations, repaired in /repo): each states the structural condition the repair
// established and is violated by the tree before the repair.

// c20ClosedFragmentCompactionDone (D36): fragment.Compaction answers "done" for a fragment
// that is closed. The compaction worker polls a fragment until it reports done and the
// trigger waits for all its workers: "not done" for a dead fragment stops compaction on the
// member for good.
func c20ClosedFragmentCompactionDone(r *core.Run) {
	const rule = "closed-fragment-compaction-done"
	fn := r.Need(rule, dmapPkg+".(*fragment).Compaction")
	if fn == nil {
		return
	}
	f := fn.SSA
	cnt := 0
	for _, ret := range core.Returns(f) {
		// returns that do not hand on the engine's answer
		if _, isExtract := ret.Results[0].(*ssa.Extract); isExtract {
			continue
		}
		cnt++
		k, isK := ret.Results[0].(*ssa.Const)
		done := isK && k.Value != nil && k.Value.String() == "true"
		r.Check(done, rule, fn.Name+" without asking the engine", site(r, instrPos(ret)),
			"a fragment that is closed reports its compaction as done",
			"a closed or destroyed fragment reports its compaction as NOT done: callCompactionOnFragment polls it until shutdown and triggerCompaction waits for that worker, so nothing on the member is compacted again")
	}
	r.Floor(rule, cnt, 1)
}

// c10LRUSampleSize (D37): the LRU sample holds exactly LRUSamples keys: the callback stops
// the range when the number of collected items (counted from zero) reaches LRUSamples.
func c10LRUSampleSize(r *core.Run) {
	const rule = "lru-sample-size"
	fn := r.Need(rule, dmapPkg+".(*DMap).evictKeyWithLRU")
	if fn == nil {
		return
	}
	found := false
	for _, f := range core.AllSSA(fn.SSA) {
		if f == fn.SSA {
			continue
		}
		core.Instrs(f, func(in ssa.Instruction) {
			bin, ok := in.(*ssa.BinOp)
			if !ok || !core.IsCompare(bin.Op) {
				return
			}
			var counter ssa.Value
			if core.LastField(bin.Y) == "lruSamples" {
				counter = bin.X
			} else if core.LastField(bin.X) == "lruSamples" {
				counter = bin.Y
			} else {
				return
			}
			found = true
			fromZero, what := false, "a counter whose start cannot be determined"
			counter = core.StripConv(counter)
			if c, isCall := counter.(*ssa.Call); isCall {
				if b, isB := c.Call.Value.(*ssa.Builtin); isB && b.Name() == "len" {
					fromZero, what = true, "len of the collected items"
				}
			} else if u, isLoad := counter.(*ssa.UnOp); isLoad && u.Op == token.MUL {
				// a captured counter: its initial value is what the parent stored first
				if fv, ok := u.X.(*ssa.FreeVar); ok {
					idx := -1
					for i, v := range f.FreeVars {
						if v == fv {
							idx = i
						}
					}
					core.Instrs(fn.SSA, func(pin ssa.Instruction) {
						mc, ok := pin.(*ssa.MakeClosure)
						if !ok || mc.Fn != ssa.Value(f) || idx < 0 || idx >= len(mc.Bindings) {
							return
						}
						if al, ok := mc.Bindings[idx].(*ssa.Alloc); ok {
							for _, ref := range *al.Referrers() {
								if st, ok := ref.(*ssa.Store); ok && st.Addr == ssa.Value(al) && st.Parent() == fn.SSA {
									if k, ok := st.Val.(*ssa.Const); ok && k.Value != nil {
										fromZero = k.Int64() == 0
										what = fmt.Sprintf("a counter starting at %d", k.Int64())
									}
								}
							}
						}
					})
				}
			}
			stopsAt := bin.Op == token.GEQ || bin.Op == token.LSS
			r.Check(fromZero && stopsAt, rule, fn.Name+" stop condition", site(r, instrPos(bin)),
				"the range stops when "+what+" reaches LRUSamples",
				"the LRU sample is not LRUSamples keys ("+what+" compared with "+bin.Op.String()+"): one key too few is sampled, and with LRUSamples=1 nothing is sampled so every Put at the limit fails with 'nothing found to expire'")
		})
	}
	if !found {
		r.Unknown(rule, fn.Name+" stop condition", site(r, fn.SSA.Pos()), "no comparison with lruSamples in the range callback")
	}
}

// c10TTLUpdateDoesNotEvict (D38): the LRU eviction that makes room for a new entry is not
// run for a ttl-only update (Expire), which adds nothing.
func c10TTLUpdateDoesNotEvict(r *core.Run) {
	const rule = "ttl-update-does-not-evict"
	fn := r.Need(rule, fnPutOnCluster)
	if fn == nil {
		return
	}
	isOUT := core.IsFieldLoad("PutConfig", "OnlyUpdateTTL")
	cnt := 0
	for _, in := range findInstrs(fn.SSA, false, callTo(dmapPkg+".(*DMap).setLRUEvictionStats")) {
		cnt++
		ok := false
		for _, cd := range core.Conditions(in.Block()) {
			if isOUT(cd.Val) && !cd.Truth {
				ok = true
			}
		}
		r.Check(ok, rule, fnPutOnCluster+" call of setLRUEvictionStats", site(r, instrPos(in)),
			"room is made only for requests that add an entry (not on the OnlyUpdateTTL edge)",
			"the LRU eviction also runs for a ttl-only update: Expire on a full DMap evicts a stored key for nothing — with a per-partition share of one key the very key it is updating, and it answers key-not-found")
	}
	r.Floor(rule, cnt, 1)
}

// c09IncrByFloatKeepsExpiry (D39): like Incr and Decr, IncrByFloat carries the expiry of
// the value it read over to the value it writes.
func c09IncrByFloatKeepsExpiry(r *core.Run) {
	const rule = "incr-by-float-keeps-expiry"
	fn := r.Need(rule, dmapPkg+".(*DMap).atomicIncrByFloat")
	if fn == nil {
		return
	}
	ok := false
	var where ssa.Instruction
	core.Instrs(fn.SSA, func(in ssa.Instruction) {
		st, isSt := in.(*ssa.Store)
		if !isSt {
			return
		}
		switch core.LastField(st.Addr) {
		case "HasPX", "HasPXAT", "HasEX", "HasEXAT":
		default:
			return
		}
		if k, isK := st.Val.(*ssa.Const); !isK || k.Value == nil || k.Value.String() != "true" {
			return
		}
		// set exactly when the entry read has an expiry
		for _, cd := range core.Conditions(st.Block()) {
			bin, isBin := cd.Val.(*ssa.BinOp)
			if !isBin {
				continue
			}
			for _, op := range []ssa.Value{bin.X, bin.Y} {
				if c, isCall := core.StripConv(op).(*ssa.Call); isCall && methodName(c) == "TTL" {
					ok, where = true, in
				}
			}
		}
	})
	pos := fn.SSA.Pos()
	if where != nil {
		pos = instrPos(where)
	}
	r.Check(ok, rule, fn.Name, site(r, pos),
		"an expiry option is set when the entry read carries an expiry",
		"IncrByFloat writes its result without the expiry of the value it read: after one IncrByFloat a key stored with a time-to-live never expires")
}

// c10CompactionKeepsAccessTimes (D40): moving entries between tables is not an access.
// evictTable must not read entries through Table.Get (directly or through Table.Range),
// which stamps the entry with the current time.
func c10CompactionKeepsAccessTimes(r *core.Run) {
	const rule = "compaction-keeps-access-times"
	fn := r.Need(rule, kvPkg+".(*KVStore).evictTable")
	if fn == nil {
		return
	}
	get := r.P.Fn(tablePkg + ".(*Table).Get")
	if get == nil {
		r.Unknown(rule, fn.Name, site(r, fn.SSA.Pos()), "Table.Get not found")
		return
	}
	reach := reachable(r.P, []*core.Fn{fn})
	r.Check(!reach[get], rule, fn.Name, site(r, fn.SSA.Pos()),
		"the entries are copied raw; Table.Get (which records an access) is not reached",
		"compaction reads the entries it moves through Table.Get (e.g. by walking with Table.Range): every moved entry is stamped with the current time, so under write churn an untouched key never becomes idle")
}

// c10LimitsJudgedOnCurrentStats (D41): after the MaxKeys eviction the MaxInuse limit is
// judged on statistics read again.
func c10LimitsJudgedOnCurrentStats(r *core.Run) {
	const rule = "limits-judged-on-current-stats"
	fn := r.Need(rule, dmapPkg+".(*DMap).setLRUEvictionStats")
	if fn == nil {
		return
	}
	f := fn.SSA
	evicts := findInstrs(f, false, callTo(dmapPkg+".(*DMap).evictKeyWithLRU"))
	if len(evicts) < 2 {
		r.OK(rule, fn.Name, site(r, f.Pos()), "fewer than two evictions in one pass")
		return
	}
	isStats := func(in ssa.Instruction) bool {
		c, ok := in.(ssa.CallInstruction)
		return ok && engineCall("Stats")(in) && c != nil
	}
	first := evicts[0]
	second := evicts[1]
	if !reachableAfter(first, second) {
		first, second = second, first
	}
	// every way from the first eviction to the second passes a fresh Stats()
	stale := false
	for _, s := range first.Block().Succs {
		if reachesInstrAvoidingInstr(s, func(in ssa.Instruction) bool { return in == second }, isStats) {
			stale = true
		}
	}
	r.Check(!stale, rule, fn.Name, site(r, instrPos(second)),
		"the statistics are read again between the two evictions",
		"the second limit is judged on the statistics taken before the first eviction: a second key is evicted for nothing, or — when the first eviction emptied the fragment — the Put fails with 'nothing found to expire'")
}

// c09ScanSkipsExpired (D42): a scan does not list a key whose deadline has passed.
func c09ScanSkipsExpired(r *core.Run) {
	const rule = "scan-skips-expired"
	fn := r.Need(rule, dmapPkg+".(*DMap).scanOnFragment")
	if fn == nil {
		return
	}
	p := r.P
	n := counter{}
	cnt := 0
	for _, f := range core.AllSSA(fn.SSA) {
		if f == fn.SSA {
			continue
		}
		core.Instrs(f, func(in ssa.Instruction) {
			c, ok := in.(*ssa.Call)
			if !ok {
				return
			}
			if b, isB := c.Call.Value.(*ssa.Builtin); !isB || b.Name() != "append" {
				return
			}
			cnt++
			guarded := false
			for _, cd := range core.Conditions(c.Block()) {
				if readsExpiry(p, cd.Val, 0) {
					guarded = true
				}
			}
			r.Check(guarded, rule, n.next(fn.Name+" lists a key"), site(r, instrPos(c)),
				"a key is listed only when its expiry test fails",
				"the scan lists every stored key whatever its expiry: a key that Get reports as not found is still returned by DM.SCAN and the iterators until the background eviction removes it")
		})
	}
	r.Floor(rule, cnt, 2)
}

// c05QuorumErrorKeepsIdentity (D45): isOperable returns the routing table's registered
// error as it is; converting it to the public value strips the wire prefix.
func c05QuorumErrorKeepsIdentity(r *core.Run) {
	const rule = "error-identity"
	fn := r.Need(rule, "olric.(*Olric).isOperable")
	if fn == nil {
		return
	}
	f := fn.SSA
	var q *ssa.Call
	for _, in := range findInstrs(f, false, callTo("internal/cluster/routingtable.(*RoutingTable).CheckMemberCountQuorum")) {
		q, _ = in.(*ssa.Call)
	}
	if q == nil {
		r.Unknown(rule, fn.Name+" quorum error", site(r, f.Pos()), "no call of CheckMemberCountQuorum")
		return
	}
	ok, seen := true, false
	for _, ret := range core.Returns(f) {
		v := ret.Results[0]
		if v == ssa.Value(q) {
			seen = true
			continue
		}
		// a conversion of the quorum error
		if c, isCall := v.(*ssa.Call); isCall {
			for _, a := range c.Call.Args {
				if a == ssa.Value(q) {
					ok = false
				}
			}
		}
	}
	r.Check(ok && seen, rule, fn.Name+" quorum error", site(r, instrPos(q)),
		"the registered error of CheckMemberCountQuorum is returned unconverted (it is written to the wire with its prefix)",
		"the member-count quorum error is converted before it is written to the wire: the converted value has no registered prefix, so a cluster client or a forwarding member receives a generic error and errors.Is(err, ErrClusterQuorum) is false")
}

// c06ReadRepairOnlyCurrentHolders (D46): read repair writes to backups (PutEntry stores into
// the receiver's BACKUP partition). A previous PRIMARY owner must not be repaired that way:
// the copy would sit in a partition no owner list refers to, Delete would miss it and the
// hand-over would bring the deleted key back.
func c06ReadRepairOnlyCurrentHolders(r *core.Run) {
	const rule = "read-repair-only-current-holders"
	fn := r.Need(rule, dmapPkg+".(*DMap).readRepair")
	if fn == nil {
		return
	}
	f := fn.SSA
	cnt := 0
	for _, in := range findInstrs(f, false, callTo(fnRedisProcess)) {
		cnt++
		ok := false
		for _, cd := range core.Conditions(in.Block()) {
			if core.LastField(cd.Val) == "previousOwner" && !cd.Truth {
				ok = true
			}
			if u, isU := cd.Val.(*ssa.UnOp); isU && core.LastField(u.X) == "previousOwner" && !cd.Truth {
				ok = true
			}
		}
		r.Check(ok, rule, fn.Name+" remote repair", site(r, instrPos(in)),
			"a version read from a previous owner is not repaired (the hand-over brings it to the current owner)",
			"read repair sends PutEntry to every holder of a stale version, previous primary owners included: PutEntry stores into the receiver's backup partition, which no owner list refers to, so a later Delete misses that copy and the hand-over merges the deleted key back")
	}
	r.Floor(rule, cnt, 1)
	// and lookupOnPreviousOwner marks what it returns
	if g := r.Need(rule, dmapPkg+".(*DMap).lookupOnPreviousOwner"); g != nil {
		marked := false
		core.Instrs(g.SSA, func(in ssa.Instruction) {
			if st, ok := in.(*ssa.Store); ok && core.LastField(st.Addr) == "previousOwner" {
				if k, isK := st.Val.(*ssa.Const); isK && k.Value != nil && k.Value.String() == "true" {
					marked = true
				}
			}
		})
		r.Check(marked, rule, g.Name+" marks its version", site(r, g.SSA.Pos()),
			"the version read from a previous owner is marked as such", "versions read from previous owners are not told apart from the backups' versions")
	}
}

var _ = types.Universe

// readsExpiry: the value depends on an entry's TTL() or on a predicate of the repository
// that reads the clock (isKeyExpired and the like), looking through operators, phis and
// the temporaries of inlined helpers.
func readsExpiry(p *core.Prog, v ssa.Value, depth int) bool {
	if v == nil || depth > 8 {
		return false
	}
	switch x := v.(type) {
	case *ssa.Call:
		if methodName(x) == "TTL" {
			return true
		}
		if h := p.ByObj[core.CalleeObj(x)]; h != nil && h.SSA != nil {
			clock := findInstrs(h.SSA, true, func(in ssa.Instruction) bool {
				ci, ok := in.(ssa.CallInstruction)
				if !ok {
					return false
				}
				o := core.CalleeObj(ci)
				return o != nil && core.QualName(o) == "time.Now"
			})
			if len(clock) > 0 {
				return true
			}
		}
		for _, a := range x.Call.Args {
			if readsExpiry(p, a, depth+1) {
				return true
			}
		}
	case *ssa.BinOp:
		return readsExpiry(p, x.X, depth+1) || readsExpiry(p, x.Y, depth+1)
	case *ssa.UnOp:
		if al, ok := x.X.(*ssa.Alloc); ok && x.Op == token.MUL {
			for _, ref := range *al.Referrers() {
				if st, ok := ref.(*ssa.Store); ok && st.Addr == ssa.Value(al) && readsExpiry(p, st.Val, depth+1) {
					return true
				}
			}
			return false
		}
		return readsExpiry(p, x.X, depth+1)
	case *ssa.Phi:
		for _, e := range x.Edges {
			if readsExpiry(p, e, depth+1) {
				return true
			}
		}
	case *ssa.Convert:
		return readsExpiry(p, x.X, depth+1)
	}
	return false
}
