package rules

import (
	"fmt"
	"go/token"

	"golang.org/x/tools/go/ssa"

	"olricvet/internal/core"
)

const (
	dmapPkg        = "internal/dmap"
	fnPutOnCluster = dmapPkg + ".(*DMap).putOnCluster"
	fnSyncPut      = dmapPkg + ".(*DMap).syncPutOnCluster"
	fnAsyncPut     = dmapPkg + ".(*DMap).asyncPutOnCluster"
	fnPutEntryFrag = dmapPkg + ".(*DMap).putEntryOnFragment"
	fnDeleteOnClu  = dmapPkg + ".(*DMap).deleteOnCluster"
	fnDeleteKey    = dmapPkg + ".(*DMap).deleteKey"
	fnDelPrev      = dmapPkg + ".(*DMap).deleteFromPreviousOwners"
	fnDelBackup    = dmapPkg + ".(*DMap).deleteBackupOnCluster"
	fnGetOnCluster = dmapPkg + ".(*DMap).getOnCluster"
	fnLookupOwners = dmapPkg + ".(*DMap).lookupOnOwners"
	fnLookupRepl   = dmapPkg + ".(*DMap).lookupOnReplicas"
	fnOwnersByHKey = "internal/cluster/partitions.(*Partitions).PartitionOwnersByHKey"
	fnRedisProcess = "github.com/redis/go-redis/v9.(*Client).Process"
)

func init() {
	register(&Property{
		ID: "C02",
		Explain: "Static structural necessary conditions of 'acknowledged writes survive the loss of up to R-1 members' (the crash points, re-stabilisation and memberlist behaviour themselves are NOT decided): " +
			"(replicate-before-ack) with more than one replica and synchronous mode the result of a put is the result of the quorum replication routine, the local-only write is reachable only when ReplicaCount <= 1, and the replication loop ranges over every backup owner and sends in every iteration; " +
			"(delete-propagates-first) deleteOnCluster deletes from previous owners and (ReplicaCount != 0) from every backup before the local copy, each failure edge returns before the local delete, and deleteKey propagates the delete even when the local primary copy is missing (the key may live only on a backup after a failover); " +
			"(read-consults-all-copies) every value-returning path of the quorum read passes lookupOnOwners (this member plus previous owners 0..len-2) and lookupOnReplicas (every backup owner); " +
			"(who-deletes-primary) storage.Delete on a fragment is issued only by deleteOnCluster (replicates first) and deleteFromFragment (the replica-side apply); " +
			"(drop-after-ack) shared with C03: a fragment is dropped by its sender only after every target acknowledged it.",
		Run: func(r *core.Run) {
			c02ReplicateBeforeAck(r)
			c02DeletePropagates(r)
			c02ReadConsultsAll(r)
			c02WhoDeletes(r)
			c03DropAfterAck(r)
			balancerKeepsOwnCopies(r)
			c17Pack(r)
			kvPutGrowsStore(r)
			c06Merge(r)
			c03PreviousOwners(r)
		},
	})
}

func isFieldCmp(c core.Cond, typeName, field string) (*ssa.BinOp, bool) {
	bin, ok := c.Val.(*ssa.BinOp)
	if !ok {
		return nil, false
	}
	pred := core.IsFieldLoad(typeName, field)
	if pred(bin.X) || pred(bin.Y) {
		return bin, true
	}
	return nil, false
}

// replicaCountAboveMin: the conditions at block b imply ReplicaCount > MinimumReplicaCount (1).
func replicaCountCond(b *ssa.BasicBlock) (above, notAbove bool) {
	for _, c := range core.Conditions(b) {
		bin, ok := isFieldCmp(c, "Config", "ReplicaCount")
		if !ok {
			continue
		}
		k, isK := bin.Y.(*ssa.Const)
		if !isK || k.Value == nil {
			continue
		}
		// ReplicaCount op k
		set := [3]bool{}
		for i, o := range []int{-1, 0, 1} {
			set[i] = core.CmpHolds(bin.Op, o) == c.Truth
		}
		kv := k.Int64()
		// implied: RC > 1 ?
		if kv == 1 && set == [3]bool{false, false, true} {
			above = true
		}
		if kv == 1 && set == [3]bool{true, true, false} {
			notAbove = true
		}
		if kv == 2 && set == [3]bool{false, true, true} {
			above = true
		}
		if kv == 2 && set == [3]bool{true, false, false} {
			notAbove = true
		}
	}
	return
}

func c02ReplicateBeforeAck(r *core.Run) {
	fn := r.Need("replicate-before-ack", fnPutOnCluster)
	if fn == nil {
		return
	}
	f := fn.SSA
	syncMode := constValue(r.P, "config", "SyncReplicationMode")
	syncs := findInstrs(f, false, callTo(fnSyncPut))
	r.Floor("replicate-before-ack(sync call)", len(syncs), 1)
	for _, c := range syncs {
		above, _ := replicaCountCond(c.Block())
		modeOK := false
		for _, cd := range core.Conditions(c.Block()) {
			if bin, ok := isFieldCmp(cd, "Config", "ReplicationMode"); ok {
				if k, isK := bin.Y.(*ssa.Const); isK && k.Value != nil && k.Int64() == syncMode && (bin.Op == token.EQL) == cd.Truth {
					modeOK = true
				}
			}
		}
		r.Check(above && modeOK, "replicate-before-ack", fnPutOnCluster+" -> syncPutOnCluster", site(r, instrPos(c)),
			"reached exactly on ReplicaCount > 1 and ReplicationMode == Sync", "the quorum replication routine is not selected by (ReplicaCount > 1, SyncReplicationMode)")
		// its result is what the function returns on this path
		isRet := false
		for _, ret := range core.ReturnsFrom(c.Block(), nil) {
			if core.ResultValue(ret, 0) == c.(ssa.Value) {
				isRet = true
			} else if c.Block().Dominates(ret.Block()) {
				isRet = false
				break
			}
		}
		r.Check(isRet, "replicate-before-ack", fnPutOnCluster+" returns the replication result", site(r, instrPos(c)),
			"the put's result is the result of syncPutOnCluster", "the result of the quorum replication is not what the put returns (an insufficient quorum would be acknowledged)")
	}
	// the local-only write only for a single replica
	for _, c := range findInstrs(f, false, callTo(fnPutEntryFrag)) {
		_, notAbove := replicaCountCond(c.Block())
		r.Check(notAbove, "replicate-before-ack", fnPutOnCluster+" local-only write", site(r, instrPos(c)),
			"putEntryOnFragment is called directly only when ReplicaCount <= MinimumReplicaCount", "the local-only write is reachable with ReplicaCount > 1: the put is acknowledged without any backup copy, and is lost with the primary")
	}
	// the replication loop: ranges over every backup owner and sends in each iteration
	if s := r.Need("replicate-before-ack", fnSyncPut); s != nil {
		checkOwnersLoop(r, "replicate-before-ack", s, "backup", callTo(fnRedisProcess), "sends PutEntry")
	}
}

// checkOwnersLoop: fn ranges over the complete result of <field>.PartitionOwnersByHKey and
// executes an instruction matching ev in every iteration.
func checkOwnersLoop(r *core.Run, rule string, fn *core.Fn, partField string, ev0 instrPred, evName string) {
	found := false
	for _, f := range core.AllSSA(fn.SSA) {
		ev := viaHelpers(r.P, f, ev0) // the event may live in a same-package helper called in the loop
		for _, l := range core.IndexLoops(f) {
			if l.LenOf == nil {
				continue
			}
			call, ok := l.LenOf.(*ssa.Call)
			if !ok {
				continue
			}
			o := core.CalleeObj(call)
			if o == nil || core.QualName(o) != fnOwnersByHKey || core.LastField(call.Call.Args[0]) != partField {
				continue
			}
			found = true
			full := l.Lo == 0 && l.HiOff == 1
			r.Check(full, rule, fn.Name+" loop over "+partField+" owners", site(r, l.Pos()),
				"ranges over every "+partField+" owner", fmt.Sprintf("the loop covers owners[%d .. len-%d] only: some %s owner never receives the operation", l.Lo, l.HiOff, partField))
			// ev in every iteration: a matching instruction dominates every back edge
			var evs []ssa.Instruction
			for b := range l.Region() {
				for _, in := range b.Instrs {
					if ev(in) {
						evs = append(evs, in)
					}
				}
			}
			// closures created in the loop (errgroup) count when they contain ev
			for b := range l.Region() {
				for _, in := range b.Instrs {
					if mc, ok := in.(*ssa.MakeClosure); ok {
						if an, ok := mc.Fn.(*ssa.Function); ok && len(findInstrs(an, true, ev)) > 0 {
							evs = append(evs, in)
						}
					}
				}
			}
			ok2 := false
			for _, e := range evs {
				all := true
				for _, p := range l.Latches() {
					if !e.Block().Dominates(p) {
						all = false
					}
				}
				if all {
					ok2 = true
				}
			}
			r.Check(ok2, rule, fn.Name+" every "+partField+" owner "+evName, site(r, l.Pos()),
				"every iteration "+evName, "some iterations skip the owner without contacting it")
		}
	}
	if !found {
		r.Unknown(rule, fn.Name+" loop over "+partField+" owners", site(r, fn.SSA.Pos()), "no counting loop over the complete result of "+partField+".PartitionOwnersByHKey recognised")
	}
}

func c02DeletePropagates(r *core.Run) {
	fn := r.Need("delete-propagates-first", fnDeleteOnClu)
	if fn == nil {
		return
	}
	local := engineCall("Delete")
	dominatedBy(r, "delete-propagates-first", fn, local, "local storage.Delete", callTo(fnDelPrev), "deleteFromPreviousOwners",
		"the local copy can be deleted without deleting the previous owners' copies first: a crash in between resurrects the key from a previous owner", 1)
	// backups: dominated by deleteBackupOnCluster unless ReplicaCount == 0
	for _, d := range findInstrs(fn.SSA, false, local) {
		reached := core.ReachesReturnAvoiding(fn.SSA, func(in ssa.Instruction) bool { return callTo(fnDelBackup)(in) || in == d }, func(*ssa.Return) bool { return false })
		_ = reached
		// path check: from entry to the local delete avoiding deleteBackupOnCluster must pass the ReplicaCount == 0 edge
		okAll := true
		calls := findInstrs(fn.SSA, false, callTo(fnDelBackup))
		if len(calls) == 0 {
			okAll = false
		}
		for _, c := range calls {
			// the call's only guard is a comparison of ReplicaCount with a constant
			for _, cd := range core.Conditions(c.Block()) {
				if _, ok := isFieldCmp(cd, "Config", "ReplicaCount"); ok {
					continue
				}
				if _, _, isErr := isErrNilTest(cd); isErr {
					continue
				}
				if lenCmp(cd) {
					continue
				}
				okAll = false
			}
		}
		r.Check(okAll, "delete-propagates-first", fnDeleteOnClu+" backups before local", site(r, instrPos(d)),
			"deleteBackupOnCluster precedes the local delete, guarded only by ReplicaCount", "the backups are not (always) deleted before the local copy")
	}
	n1 := errorEdgesLeaveBefore(r, "delete-propagates-first", fn, callTo(fnDelPrev), "deleteFromPreviousOwners", local, "the local storage.Delete",
		"an acknowledged delete leaves a copy on a previous owner, which a later read or fragment move brings back")
	n2 := errorEdgesLeaveBefore(r, "delete-propagates-first", fn, callTo(fnDelBackup), "deleteBackupOnCluster", local, "the local storage.Delete",
		"an acknowledged delete leaves a backup copy that a failover resurrects")
	r.Floor("delete-propagates-first(error edges)", n1+n2, 2)
	// inside the helpers every send's error is returned (no owner is skipped silently)
	if h := r.Need("delete-propagates-first", fnDelPrev); h != nil {
		successAfterAllSends(r, "delete-propagates-first", h)
	}
	if h := r.Need("delete-propagates-first", fnDelBackup); h != nil {
		checkOwnersLoop(r, "delete-propagates-first", h, "backup", func(in ssa.Instruction) bool {
			if callTo(fnRedisProcess)(in) {
				return true
			}
			return false
		}, "sends DelEntry")
	}
	// a backup owner that could not be told fails the delete: inside the fan-out closures the
	// transport error and the backup's reply are handed back, and the helper returns Wait()
	if h := r.Need("delete-propagates-first", fnDelBackup); h != nil {
		n := counter{}
		closures := 0
		for _, an := range h.SSA.AnonFuncs {
			if len(findInstrs(an, false, callTo(fnRedisProcess))) == 0 {
				continue
			}
			closures++
			ok := propagatesFailure(r.P, an, callTo(fnRedisProcess)) && propagatesFailure(r.P, an, callNamed("Err"))
			r.Check(ok, "delete-propagates-first", n.next(fnDelBackup+" failed DelEntry fails the delete"), site(r, an.Pos()),
				"the send's error and the backup's reply are returned to the error group",
				"a DelEntry that failed (transport error or error reply) is swallowed: the Delete is acknowledged while a backup keeps the key — with no tombstone the quorum read brings the deleted value back")
		}
		waits := false
		for _, ret := range core.Returns(h.SSA) {
			if c, ok := core.ResultValue(ret, 0).(*ssa.Call); ok && methodName(c) == "Wait" {
				waits = true
			}
		}
		r.Check(closures > 0 && waits, "delete-propagates-first", fnDelBackup+" returns the group's error", site(r, h.SSA.Pos()),
			"the helper returns errgroup.Wait()", "the helper does not return the error group's result")
	}
	// deleteKey: every success return passes deleteOnCluster (D25)
	if k := r.Need("delete-propagates-first", fnDeleteKey); k != nil {
		successBefore(r, "delete-propagates-first", k, callTo(fnDeleteOnClu), "deleteOnCluster",
			"deleteKey acknowledges a delete without propagating it when the local primary copy is missing: after a failover the key may live only on a backup (or a previous owner), stays readable through the quorum read, and the acknowledged delete is lost")
	}
}

func lenCmp(cd core.Cond) bool {
	bin, ok := cd.Val.(*ssa.BinOp)
	if !ok {
		return false
	}
	return lenArg(bin.X) != nil || lenArg(bin.Y) != nil
}

// successAfterAllSends: in a helper that loops over owners sending a command, every
// failed send returns a non-nil error (checked through errorEdges with commit = success return).
func successAfterAllSends(r *core.Run, rule string, fn *core.Fn) {
	f := fn.SSA
	pt := passThrough(r.P)
	n := counter{}
	for _, a := range findInstrs(f, false, callTo(fnRedisProcess)) {
		call := a.(*ssa.Call)
		key := n.next(fn.Name + " failed send")
		// on the non-nil edge of the send's error every reachable return is an error return
		good := false
		for _, b := range f.Blocks {
			if len(b.Instrs) == 0 {
				continue
			}
			ifi, ok := b.Instrs[len(b.Instrs)-1].(*ssa.If)
			if !ok {
				continue
			}
			cv, neg := core.StripNot(ifi.Cond)
			v, nonNilTrue, ok := isErrNilTest(core.Cond{If: ifi, Val: cv, Truth: true})
			if !ok || v != ssa.Value(call) {
				continue
			}
			if neg {
				nonNilTrue = !nonNilTrue
			}
			idx := 0
			if !nonNilTrue {
				idx = 1
			}
			good = true
			for _, ret := range core.ReturnsFrom(b.Succs[idx], b) {
				if core.SuccessCapable(ret, pt) {
					good = false
				}
			}
			if reachesBlock(b.Succs[idx], b) {
				good = false // continues the loop
			}
		}
		r.Check(good, rule, key, site(r, instrPos(a)), "a failed send makes the helper fail", "a failed send is skipped and the helper can still report success")
	}
}

func c02ReadConsultsAll(r *core.Run) {
	fn := r.Need("read-consults-all-copies", fnGetOnCluster)
	if fn == nil {
		return
	}
	successBefore(r, "read-consults-all-copies", fn, callTo(fnLookupOwners), "lookupOnOwners",
		"a value can be returned without consulting the owner's copy and the previous owners")
	// lookupOnReplicas: guarded only by a comparison of ReadQuorum with MinimumReplicaCount
	calls := findInstrs(fn.SSA, false, callTo(fnLookupRepl))
	r.Floor("read-consults-all-copies(lookupOnReplicas)", len(calls), 1)
	for _, c := range calls {
		ok := true
		for _, cd := range core.Conditions(c.Block()) {
			bin, is := isFieldCmp(cd, "Config", "ReadQuorum")
			if !is {
				ok = false
				continue
			}
			// the condition must hold whenever ReadQuorum >= 1 (always true for a validated
			// configuration), in whichever form it is written
			k, isK := bin.Y.(*ssa.Const)
			swap := false
			if !isK {
				k, isK = bin.X.(*ssa.Const)
				swap = true
			}
			if !isK || k.Value == nil || k.Int64() != 1 {
				ok = false
				continue
			}
			for _, ord := range []int{0, 1} {
				o := ord
				if swap {
					o = -ord
				}
				if core.CmpHolds(bin.Op, o) != cd.Truth {
					ok = false
				}
			}
		}
		r.Check(ok, "read-consults-all-copies", fnGetOnCluster+" -> lookupOnReplicas", site(r, instrPos(c)),
			"the backups are consulted whenever ReadQuorum >= 1 (always, for a validated configuration)", "the backup copies are consulted only under an additional condition: after the primary lost its copy the key reads not-found")
	}
	if h := r.Need("read-consults-all-copies", fnLookupRepl); h != nil {
		checkOwnersLoop(r, "read-consults-all-copies", h, "backup", callTo(fnRedisProcess), "sends GetEntry")
	}
	if h := r.Need("read-consults-all-copies", fnLookupOwners); h != nil {
		previousOwnersLoop(r, "read-consults-all-copies", h, callTo(dmapPkg+".(*DMap).lookupOnPreviousOwner"), "lookupOnPreviousOwner")
		dominatedByEntry(r, "read-consults-all-copies", h, callTo(dmapPkg+".(*DMap).lookupOnThisNode"), "lookupOnThisNode")
	}
}

// previousOwnersLoop: fn loops over indices 0..len-2 of an owners list and executes ev in
// every iteration.
func previousOwnersLoop(r *core.Run, rule string, fn *core.Fn, ev0 instrPred, evName string) {
	found := false
	ev := viaHelpers(r.P, fn.SSA, ev0)
	for _, l := range core.IndexLoops(fn.SSA) {
		if l.LenOf == nil {
			continue
		}
		hasEv := false
		for b := range l.Region() {
			for _, in := range b.Instrs {
				if ev(in) {
					hasEv = true
				}
			}
		}
		if !hasEv {
			continue
		}
		found = true
		// the list is the unmodified result of primary.PartitionOwnersByHKey or a parameter
		src := "?"
		okSrc := false
		switch x := l.LenOf.(type) {
		case *ssa.Call:
			if o := core.CalleeObj(x); o != nil && core.QualName(o) == fnOwnersByHKey && core.LastField(x.Call.Args[0]) == "primary" {
				okSrc, src = true, "primary.PartitionOwnersByHKey(hkey)"
			}
		case *ssa.Parameter:
			okSrc, src = true, "parameter "+x.Name()
		}
		r.Check(okSrc && l.Lo == 0 && l.HiOff == 2, rule, fn.Name+" previous-owner loop", site(r, l.Pos()),
			"visits owners[0 .. len-2] of "+src+" (every previous owner; the last element is this member)",
			fmt.Sprintf("the loop visits owners[%d .. len-%d] of %s: a previous owner that still holds data is skipped", l.Lo, l.HiOff, src))
		// every iteration contacts the owner: an iteration may end without the request only
		// on the true edge of owner.CompareByID(This()) (this member's own copy is handled
		// by the caller)
		// nothing is returned before the walk: a return that the loop does not dominate may
		// only be a failure, or sit behind a test of the list's length (nothing to walk)
		if l.Yield == nil && l.Header != nil {
			pt := passThrough(r.P)
			early := ""
			for _, ret := range core.Returns(fn.SSA) {
				if l.Header.Dominates(ret.Block()) || !core.SuccessCapable(ret, pt) {
					continue
				}
				guarded := false
				for _, cd := range core.Conditions(ret.Block()) {
					if lenBelow(cd, 2) {
						guarded = true
					}
				}
				if !guarded {
					early = site(r, instrPos(ret))
				}
			}
			r.Check(early == "", rule, fn.Name+" no return before the previous-owner walk", site(r, l.Pos()),
				"every success return follows the walk over the previous owners",
				"a success return at "+early+" precedes the walk over the previous owners: their copies never take part (a newer copy on a previous owner is ignored, a deleted key survives there)")
		}
		skip := skippingLatch(l, ev)
		r.Check(skip == nil, rule, fn.Name+" previous-owner loop contacts every owner", site(r, l.Pos()),
			"an iteration ends without "+evName+" only for this member itself",
			"an iteration can end without "+evName+" for an owner other than this member"+blockAt(r, skip)+": that previous owner keeps its copy")
	}
	if !found {
		r.Unknown(rule, fn.Name+" previous-owner loop", site(r, fn.SSA.Pos()), "no counting loop calling "+evName+" recognised")
	}
}

func dominatedByEntry(r *core.Run, rule string, fn *core.Fn, ev instrPred, evName string) {
	pt := passThrough(r.P)
	ret := core.ReachesReturnAvoiding(fn.SSA, ev, func(x *ssa.Return) bool { return core.SuccessCapable(x, pt) })
	r.Check(ret == nil, rule, fn.Name+" calls "+evName, site(r, fn.SSA.Pos()), "every return passes "+evName, "a return is reachable without "+evName)
}

func c02WhoDeletes(r *core.Run) {
	la := newLockAnalysis(r)
	la.run()
	allowed := map[string]string{
		fnDeleteOnClu:                           "replicates the delete first",
		dmapPkg + ".(*DMap).deleteFromFragment": "the replica / previous-owner side apply of DM.DELENTRY",
	}
	cnt := 0
	n := counter{}
	for _, s := range la.sites {
		if s.what != "storage.Delete" {
			continue
		}
		cnt++
		name := fnName(r.P, s.fn)
		key := n.next(name + " storage.Delete")
		if why, ok := allowed[name]; ok {
			r.OK("who-deletes-primary", key, site(r, instrPos(s.in)), why)
		} else {
			r.Bad("who-deletes-primary", key, site(r, instrPos(s.in)), "a fragment's copy is deleted outside deleteOnCluster/deleteFromFragment: the delete bypasses replication, so backups keep the key and a failover resurrects it")
		}
	}
	r.Floor("who-deletes-primary", cnt, 2)
}

// skippingLatch looks for a way through one iteration of l that reaches the next iteration
// without executing an instruction matching ev and without taking the true edge of a
// self test (x.CompareByID(This())). It returns the latch block reached, or nil.
func skippingLatch(l *core.IndexLoop, ev instrPred) *ssa.BasicBlock {
	region := l.Region()
	latch := map[*ssa.BasicBlock]bool{}
	for _, b := range l.Latches() {
		latch[b] = true
	}
	start := l.Stay
	if l.Yield != nil && len(l.Yield.Blocks) > 0 {
		start = l.Yield.Blocks[0]
	}
	if start == nil {
		return nil
	}
	if l.Yield == nil {
		// the header ends the iteration: it is not part of the way through the body
		r2 := map[*ssa.BasicBlock]bool{}
		for b := range region {
			if b != l.Header {
				r2[b] = true
			}
		}
		region = r2
	}
	return pathSearch(start, region, ev, func(b *ssa.BasicBlock) bool { return latch[b] }, func(from, to *ssa.BasicBlock) bool {
		for _, cd := range edgeConds(from, to) {
			if c, isC := cd.Val.(*ssa.Call); isC && cd.Truth && isSelfTest(c) {
				return false
			}
		}
		return true
	})
}

func blockAt(r *core.Run, b *ssa.BasicBlock) string {
	if b == nil {
		return ""
	}
	for _, in := range b.Instrs {
		if in.Pos().IsValid() {
			return " (reaching " + site(r, in.Pos()) + ")"
		}
	}
	return ""
}

// lenBelow: the condition is a comparison of some len(x) with a constant that can only hold
// when len(x) < n (there is nothing beyond the first n-1 elements to walk).
func lenBelow(cd core.Cond, n int) bool {
	bin, ok := cd.Val.(*ssa.BinOp)
	if !ok || !core.IsCompare(bin.Op) {
		return false
	}
	op := bin.Op
	var k *ssa.Const
	switch {
	case lenArg(bin.X) != nil:
		k, _ = bin.Y.(*ssa.Const)
	case lenArg(bin.Y) != nil:
		k, _ = bin.X.(*ssa.Const)
		op = flip(op)
	}
	if k == nil || k.Value == nil {
		return false
	}
	c := int(k.Int64())
	for l := n; l <= n+8; l++ {
		ord := 0
		if l < c {
			ord = -1
		} else if l > c {
			ord = 1
		}
		if core.CmpHolds(op, ord) == cd.Truth {
			return false // a list with n or more elements can take this way
		}
	}
	return true
}
