package rules

import (
	"fmt"
	"go/token"

	"golang.org/x/tools/go/ssa"

	"olricvet/internal/core"
)

const (
	fnSetLRU   = dmapPkg + ".(*DMap).setLRUEvictionStats"
	fnEvictLRU = dmapPkg + ".(*DMap).evictKeyWithLRU"
	fnIdleFrag = dmapPkg + ".(*DMap).isKeyIdleOnFragment"
)

func init() {
	register(&Property{
		ID: "C10",
		Explain: "Static structural necessary conditions of 'eviction keeps a DMap within its bounds' — the small structural part; the numeric bound after arbitrary put sequences, key skew, LRU sample quality and idle-window timing are NOT decided: " +
			"(evict-before-insert) with the LRU policy the eviction step runs before the entry is prepared and inserted, in the same lock region, and its error aborts the put; " +
			"(share-boundary) a partition evicts iff its key count (bytes in use) is at least the limit divided — plain integer division — by the number of owned partitions (truth table {keep, evict, evict}), and only when it is non-empty; " +
			"(divisor-guard) both divisions are dominated by the owned-partition-count == 0 exit; " +
			"(access-refresh) every Table read that returns an entry (Get, get) and every write (Put, UpdateTTL) stores the last-access stamp unconditionally, on every success path; " +
			"(defaults-applied-last) in dmapConfig.load no assignment to lruSamples is reachable after its default was filled in (an override applied afterwards would wipe the default and LRU would find nothing to evict); " +
			"(eviction-scans-every-partition) the background expiry scan draws its partition from 0..PartitionCount-1, so every owned partition is eventually visited; " +
			"(idle-boundary) a key is idle iff now >= lastAccess + MaxIdleDuration, evaluated through the shared expiry test, and never when MaxIdleDuration is 0; " +
			"(evicted-via-delete) eviction removes keys through deleteOnCluster (so backups follow).",
		Run: func(r *core.Run) {
			c10EvictBeforeInsert(r)
			c10ShareBoundary(r)
			c10AccessRefresh(r)
			c10Idle(r)
			c10DefaultsAppliedLast(r)
			customConfigOverrides(r)
			c10IdleJudgedOnOwnerRecord(r)
			c10OwnedCountByCurrentOwner(r)
			c10LRUSampleSize(r)
			c10TTLUpdateDoesNotEvict(r)
			c10CompactionKeepsAccessTimes(r)
			c10LimitsJudgedOnCurrentStats(r)
			c10EvictionScansEveryPartition(r)
			c10LRUSampleUnfiltered(r)
			kvLookupVisitsEveryTable(r)
		},
	})
}

func c10EvictBeforeInsert(r *core.Run) {
	fn := r.Need("evict-before-insert", fnPutOnCluster)
	if fn == nil {
		return
	}
	f := fn.SSA
	lru := findInstrs(f, false, callTo(fnSetLRU))
	r.Floor("evict-before-insert(call)", len(lru), 1)
	for _, c := range lru {
		// guarded by evictionPolicy == LRU
		pol := false
		for _, cd := range core.Conditions(c.Block()) {
			if bin, ok := cd.Val.(*ssa.BinOp); ok && bin.Op == token.EQL && cd.Truth && core.LastField(bin.X) == "evictionPolicy" {
				if k, isK := bin.Y.(*ssa.Const); isK && k.Value != nil && k.Value.ExactString() == `"LRU"` {
					pol = true
				}
			}
		}
		r.Check(pol, "evict-before-insert", fnPutOnCluster+" policy test", site(r, instrPos(c)), "runs exactly when evictionPolicy == LRU", "the eviction step is not selected by evictionPolicy == LRU")
		// precedes prepareEntry and every insert
		for _, w := range findInstrs(f, false, callTo(fnPrepareEntry, fnSyncPut, fnAsyncPut, fnPutEntryFrag)) {
			// on the LRU edge the call precedes w: no path from entry to w through the policy-true edge avoiding c
			// (the write is after the join, so require: the If block of the policy test dominates w and c's block cannot be bypassed on the true edge)
			ok := !reachesInstrAvoidingInstr(c.Block(), func(in ssa.Instruction) bool { return in == w }, func(in ssa.Instruction) bool { return in == c })
			r.Check(ok, "evict-before-insert", fnPutOnCluster+" eviction before "+calleeName(w.(ssa.CallInstruction)), site(r, instrPos(w)),
				"on the LRU edge eviction precedes it", "on the LRU edge the entry is prepared/inserted before the eviction step")
		}
		// its error aborts the put
		n := errorEdgesLeaveBefore(r, "evict-before-insert", fn, func(in ssa.Instruction) bool { return in == c }, "setLRUEvictionStats",
			callTo(fnSyncPut, fnAsyncPut, fnPutEntryFrag), "the insert", "a failed eviction is followed by the insert, exceeding the limit")
		_ = n
	}
	// eviction deletes through deleteOnCluster
	if e := r.Need("evicted-via-delete", fnEvictLRU); e != nil {
		successBefore(r, "evicted-via-delete", e, callTo(fnDeleteOnClu), "deleteOnCluster", "the LRU step reports success without deleting a key (the limit is exceeded) or deletes locally without telling the backups")
	}
}

func c10ShareBoundary(r *core.Run) {
	fn := r.Need("share-boundary", fnSetLRU)
	if fn == nil {
		return
	}
	f := fn.SSA
	evs := findInstrs(f, false, callTo(fnEvictLRU))
	r.Floor("share-boundary(evict calls)", len(evs), 2)
	isOwned := func(v ssa.Value) bool {
		v = core.StripConv(v)
		c, ok := v.(*ssa.Call)
		return ok && methodName(c) == "OwnedPartitionCount"
	}
	n := counter{}
	for _, e := range evs {
		key := n.next(fnSetLRU + " eviction decision")
		var found bool
		var why string
		for _, cd := range core.Conditions(e.Block()) {
			bin, ok := cd.Val.(*ssa.BinOp)
			if !ok || !core.IsCompare(bin.Op) {
				continue
			}
			op := bin.Op
			lhs, rhs := bin.X, bin.Y
			if _, isQuo := shareExpr(lhs, isOwned); isQuo {
				lhs, rhs = rhs, lhs
				op = flip(op)
			}
			limit, isQuo := shareExpr(rhs, isOwned)
			if !isQuo {
				continue
			}
			stat := core.LastField(lhs)
			if stat == "" {
				if fld, ok := lhs.(*ssa.Field); ok {
					stat = structOf(fld.X.Type()).Field(fld.Field).Name()
				}
			}
			pair := map[string]string{"Length": "maxKeys", "Inuse": "maxInuse"}
			if pair[stat] != limit {
				why = fmt.Sprintf("compares %s with a share of %s", stat, limit)
				continue
			}
			var tbl [3]bool
			for i, o := range []int{-1, 0, 1} {
				tbl[i] = core.CmpHolds(op, o) == cd.Truth
			}
			found = true
			if tbl != [3]bool{false, true, true} {
				found = false
				why = fmt.Sprintf("%s{<,==,>}share evicts on %v; required {false,true,true}", stat, tbl)
			} else {
				why = fmt.Sprintf("evicts iff %s >= %s/owned ({keep, evict, evict})", stat, limit)
			}
		}
		if why == "" {
			why = "no comparison of the partition's statistic with limit/ownedPartitionCount guards the eviction (the share must be the plain integer quotient; a rounded-up share lets every partition hold one key more, exceeding the bound in total)"
		}
		r.Check(found, "share-boundary", key, site(r, instrPos(e)), why, why)
		// non-empty guard
		nonEmpty := false
		for _, cd := range core.Conditions(e.Block()) {
			if bin, ok := cd.Val.(*ssa.BinOp); ok && bin.Op == token.GTR && cd.Truth {
				if k, isK := bin.Y.(*ssa.Const); isK && k.Value != nil && k.Int64() == 0 {
					nonEmpty = true
				}
			}
		}
		r.Check(nonEmpty, "share-boundary", key+" non-empty", site(r, instrPos(e)), "only a non-empty partition evicts", "an empty partition can be asked to evict (Put fails with 'nothing found to expire' when the share rounds to 0)")
	}
	// divisor guard
	core.Instrs(f, func(in ssa.Instruction) {
		if bin, ok := in.(*ssa.BinOp); ok && bin.Op == token.QUO {
			why, ok2 := nonZero(bin.Y, bin.Block(), 0)
			r.Check(ok2, "divisor-guard", n.next(fnSetLRU+" division"), site(r, instrPos(bin)), why, "division by the owned partition count without a zero test: "+why)
		}
	})
}

// shareExpr: v is limit / owned where limit is a load of config.maxKeys / maxInuse.
func shareExpr(v ssa.Value, isOwned func(ssa.Value) bool) (string, bool) {
	bin, ok := v.(*ssa.BinOp)
	if !ok || bin.Op != token.QUO || !isOwned(bin.Y) {
		return "", false
	}
	f := core.LastField(bin.X)
	if f == "maxKeys" || f == "maxInuse" {
		return f, true
	}
	return "", false
}

// c10AccessRefresh: Table.Get / get / Put / UpdateTTL write the last-access stamp on
// every success path.
func c10AccessRefresh(r *core.Run) {
	p := r.P
	isStampWrite := func(in ssa.Instruction) bool {
		c, ok := in.(*ssa.Call)
		if !ok {
			return false
		}
		o := core.CalleeObj(c)
		if o == nil || core.QualName(o) != "encoding/binary.(bigEndian).PutUint64" {
			return false
		}
		// the value written derives from time.Now()
		return len(c.Call.Args) == 3 && derivesFromNow(c.Call.Args[2])
	}
	var isRefresh instrPred
	isRefresh = func(in ssa.Instruction) bool {
		if isStampWrite(in) {
			return true
		}
		// a helper of the table package that writes the stamp on every path
		c, ok := in.(ssa.CallInstruction)
		if !ok {
			return false
		}
		o := core.CalleeObj(c)
		h := p.ByObj[o]
		if h == nil || h.SSA == nil || core.RelPkg(h.Pkg.PkgPath) != tablePkg {
			return false
		}
		switch h.Obj.Name() {
		case "Get", "Put", "UpdateTTL", "Delete":
			return false
		}
		ret := core.ReachesReturnAvoiding(h.SSA, isStampWrite, func(*ssa.Return) bool { return true })
		return ret == nil && len(findInstrs(h.SSA, false, isStampWrite)) > 0
	}
	for _, m := range []string{"Get", "get", "Put", "UpdateTTL"} {
		fn := r.Need("access-refresh", tablePkg+".(*Table)."+m)
		if fn == nil {
			continue
		}
		pt := passThrough(p)
		ret := core.ReachesReturnAvoiding(fn.SSA, isRefresh, func(x *ssa.Return) bool { return core.SuccessCapable(x, pt) })
		r.Check(ret == nil, "access-refresh", fn.Name, site(r, fn.SSA.Pos()),
			"every success path stores time.Now() into the entry's last-access field",
			"a success path does not refresh the last-access stamp (conditional or missing write): a key that is read or written continuously is evicted as idle, or LRU evicts a fresh key")
	}
}

func c10Idle(r *core.Run) {
	fn := r.Need("idle-boundary", fnIdleFrag)
	if fn == nil {
		return
	}
	f := fn.SSA
	// returns isKeyExpired((maxIdle.Nanoseconds() + lastAccess) / 1e6) or false
	okExpr := false
	zeroGuard := false
	for _, ret := range core.Returns(f) {
		v := core.ResultValue(ret, 0)
		if k, isK := v.(*ssa.Const); isK && k.Value != nil && k.Value.String() == "false" {
			continue
		}
		if !isExpiredCall(v) {
			continue
		}
		arg := v.(*ssa.Call).Call.Args[0]
		q, ok := arg.(*ssa.BinOp)
		if !ok || q.Op != token.QUO {
			continue
		}
		if k, isK := q.Y.(*ssa.Const); !isK || k.Value == nil || k.Int64() != 1000000 {
			continue
		}
		sum, ok := q.X.(*ssa.BinOp)
		if !ok || sum.Op != token.ADD {
			continue
		}
		hasIdle, hasLA := false, false
		for _, s := range []ssa.Value{sum.X, sum.Y} {
			if c, isCall := s.(*ssa.Call); isCall && methodName(c) == "Nanoseconds" {
				hasIdle = true
			}
			if ex, isEx := s.(*ssa.Extract); isEx {
				if g, isCall := ex.Tuple.(*ssa.Call); isCall && engineCall("GetLastAccess")(g) {
					hasLA = true
				}
			}
		}
		okExpr = hasIdle && hasLA
	}
	// MaxIdleDuration == 0: the function yields false whatever else holds (the test may be
	// a guard of its own or one operand of a short-circuit condition)
	core.Instrs(f, func(in ssa.Instruction) {
		bin, ok := in.(*ssa.BinOp)
		if !ok || (bin.Op != token.EQL && bin.Op != token.NEQ) {
			return
		}
		c, isCall := bin.X.(*ssa.Call)
		k, isK := bin.Y.(*ssa.Const)
		if !isCall || methodName(c) != "Nanoseconds" || !isK || k.Value == nil || k.Int64() != 0 {
			return
		}
		res, decided := core.BoolResult(f, bin.Block(), 0, map[ssa.Value]bool{bin: bin.Op == token.EQL})
		if decided && !res {
			zeroGuard = true
		}
	})
	// a key without a local access record is NOT idle: on the ErrKeyNotFound edge of
	// GetLastAccess the function answers false, and every other answer lies on the other edge.
	// (The quorum read asks this for the winner of every read; during a hand-over or after a
	// failover the owner's own fragment may not hold the key the winner came from.)
	unknownNotIdle := false
	for _, b := range f.Blocks {
		if len(b.Instrs) == 0 {
			continue
		}
		ifi, ok := b.Instrs[len(b.Instrs)-1].(*ssa.If)
		if !ok {
			continue
		}
		cv, neg := core.StripNot(ifi.Cond)
		call, ok := cv.(*ssa.Call)
		if !ok || !callTo("errors.Is")(call) || len(call.Call.Args) != 2 {
			continue
		}
		ex, isEx := call.Call.Args[0].(*ssa.Extract)
		if !isEx {
			continue
		}
		g, isCall := ex.Tuple.(*ssa.Call)
		if !isCall || !engineCall("GetLastAccess")(g) || !core.IsGlobalLoad(call.Call.Args[1], "pkg/storage", "ErrKeyNotFound") {
			continue
		}
		res, decided := core.BoolResult(f, b, 0, map[ssa.Value]bool{cv: true})
		_ = neg
		if !decided || res {
			continue
		}
		// every return that is not the constant false is dominated by the other edge
		otherIdx := 1
		if neg {
			otherIdx = 0
		}
		all := true
		for _, ret := range core.Returns(f) {
			if k, isK := core.ResultValue(ret, 0).(*ssa.Const); isK && k.Value != nil && k.Value.String() == "false" {
				continue
			}
			if !core.EdgeDominates(b, otherIdx, ret.Block()) {
				all = false
			}
		}
		if all {
			unknownNotIdle = true
		}
	}
	r.Check(unknownNotIdle, "idle-boundary", fnIdleFrag+" unknown access time", site(r, f.Pos()),
		"a key without a local access record is not idle (false on the ErrKeyNotFound edge of GetLastAccess, every other answer behind the other edge)",
		"a key without a local access record is reported idle: the quorum read drops the winner of a read whenever the owner's own fragment does not hold the key (hand-over in progress, failover) and answers key-not-found for an acknowledged key")
	r.Check(okExpr, "idle-boundary", fnIdleFrag+" deadline", site(r, f.Pos()),
		"idle iff isKeyExpired((MaxIdleDuration + lastAccess) / 1e6)", "the idle deadline is not lastAccess + MaxIdleDuration in milliseconds evaluated by the shared expiry test")
	r.Check(zeroGuard, "idle-boundary", fnIdleFrag+" disabled when 0", site(r, f.Pos()), "MaxIdleDuration == 0 disables idle eviction", "with MaxIdleDuration == 0 keys are still evicted as idle")
}
