package rules

import (
	"go/token"

	"golang.org/x/tools/go/ssa"

	"olricvet/internal/core"
)

// iteratorPartitionAdvance: the client iterator leaves a partition only when every
// primary and replica owner of it has been scanned to the end (both owner lists empty),
// and an owner is removed from those lists only when it returned cursor 0. An empty page
// alone does not mean the partition is exhausted: DM.SCAN legitimately returns an empty
// page with a non-zero cursor (one storage table per call, MATCH filtering).
func iteratorPartitionAdvance(r *core.Run) {
	name := "olric.(*ClusterIterator).next"
	if fn := r.Need("partition-advance-guarded", name); fn != nil {
		cnt := 0
		core.Instrs(fn.SSA, func(in ssa.Instruction) {
			st, ok := in.(*ssa.Store)
			if !ok || core.LastField(st.Addr) != "partID" {
				return
			}
			cnt++
			prim, repl := false, false
			for _, cd := range core.Conditions(in.Block()) {
				bin, ok := cd.Val.(*ssa.BinOp)
				if !ok {
					continue
				}
				isZero := (bin.Op == token.EQL && cd.Truth) || (bin.Op == token.NEQ && !cd.Truth)
				if !isZero {
					continue
				}
				k, okK := bin.Y.(*ssa.Const)
				l := lenArg(bin.X)
				if !okK || k.Value == nil || k.Int64() != 0 || l == nil {
					continue
				}
				switch core.LastField(l) {
				case "PrimaryOwners":
					prim = true
				case "ReplicaOwners":
					repl = true
				}
			}
			r.Check(prim && repl, "partition-advance-guarded", name+" partID advance", site(r, instrPos(in)),
				"the partition id advances only when both the primary and the replica owner lists are exhausted",
				"the iterator moves to the next partition although some owner of the current one may still have a non-zero cursor: an empty page (possible between storage tables or under MATCH) makes it skip the remaining keys of the partition")
		})
		r.Floor("partition-advance-guarded", cnt, 1)
	}
	name2 := "olric.(*ClusterIterator).scanOnOwners"
	if fn := r.Need("partition-advance-guarded", name2); fn != nil {
		calls := core.CallsTo(fn.SSA, false, core.Named("olric.(*ClusterIterator).removeScannedOwner"))
		for _, c := range calls {
			ok := false
			for _, cd := range core.Conditions(c.Block()) {
				bin, isBin := cd.Val.(*ssa.BinOp)
				if !isBin {
					continue
				}
				isZero := (bin.Op == token.EQL && cd.Truth) || (bin.Op == token.NEQ && !cd.Truth)
				k, okK := bin.Y.(*ssa.Const)
				if isZero && okK && k.Value != nil && k.Int64() == 0 {
					// the compared value is the cursor returned by the scan command
					if ex, isEx := bin.X.(*ssa.Extract); isEx && ex.Index == 1 {
						ok = true
					}
				}
			}
			r.Check(ok, "partition-advance-guarded", name2+" removeScannedOwner", site(r, instrPos(c)),
				"an owner is dropped only after it returned cursor 0", "an owner is dropped although its cursor is not known to be 0: its remaining keys are never requested")
		}
		r.Floor("partition-advance-guarded(owner removal)", len(calls), 1)
	}
}
