package rules

import (
	"go/ast"
	"sort"
	"strings"

	"golang.org/x/tools/go/ssa"

	"olricvet/internal/core"
)

// optionGroups (D1): the public API lets a ttl option (EX, PX, EXAT, PXAT) be combined
// with a condition (NX, XX). Every stage that translates put options must therefore keep
// the two groups in separate decisions: one exclusive switch / if-else chain must not
// mention fields of both groups, and each stage must handle both groups.
func optionGroups(r *core.Run) {
	class := func(name string) string {
		switch name {
		case "HasNX", "HasXX", "NX", "XX":
			return "condition"
		case "HasEX", "HasPX", "HasEXAT", "HasPXAT", "EX", "PX", "EXAT", "PXAT":
			return "ttl"
		}
		return ""
	}
	stages := []string{
		dmapPkg + ".(*DMap).writePutCommand",
		"olric.(*ClusterDMap).writePutCommand",
		dmapPkg + ".(*Service).putCommandHandler",
	}
	for _, name := range stages {
		fn := r.Need("option-groups", name)
		if fn == nil {
			continue
		}
		seen := map[string]bool{}
		n := counter{}
		chains := 0
		classesOf := func(exprs []ast.Expr) map[string][]string {
			out := map[string][]string{}
			for _, e := range exprs {
				ast.Inspect(e, func(nd ast.Node) bool {
					if se, ok := nd.(*ast.SelectorExpr); ok {
						if fld := core.SelectorField(fn.Pkg, se); fld != nil {
							if c := class(fld.Name()); c != "" {
								out[c] = append(out[c], fld.Name())
							}
						}
					}
					return true
				})
			}
			return out
		}
		report := func(pos ast.Node, cl map[string][]string) {
			if len(cl) == 0 {
				return
			}
			chains++
			for c := range cl {
				seen[c] = true
			}
			var names []string
			for _, v := range cl {
				names = append(names, v...)
			}
			sort.Strings(names)
			r.Check(len(cl) == 1, "option-groups", n.next(name+" exclusive decision"), r.P.Pos(pos.Pos()),
				"one option group per exclusive decision ("+strings.Join(names, ",")+")",
				"one exclusive switch / if-else chain decides between ttl options and conditions ("+strings.Join(names, ",")+"): when a condition (NX/XX) and an expiry (EX/PX/EXAT/PXAT) are given together only the first matching case is applied, so e.g. a lock with a timeout or Put(NX, PX) forwarded through this stage loses its expiry")
		}
		inChain := map[*ast.IfStmt]bool{}
		ast.Inspect(fn.Decl.Body, func(nd ast.Node) bool {
			switch x := nd.(type) {
			case *ast.SwitchStmt:
				if x.Tag != nil {
					return true
				}
				var exprs []ast.Expr
				for _, s := range x.Body.List {
					if cc, ok := s.(*ast.CaseClause); ok {
						exprs = append(exprs, cc.List...)
					}
				}
				report(x, classesOf(exprs))
			case *ast.IfStmt:
				if inChain[x] {
					return true
				}
				var exprs []ast.Expr
				cur := x
				length := 0
				for cur != nil {
					inChain[cur] = true
					exprs = append(exprs, cur.Cond)
					length++
					next, _ := cur.Else.(*ast.IfStmt)
					cur = next
				}
				if length >= 2 {
					report(x, classesOf(exprs))
				} else {
					// a lone if is its own (trivially exclusive) decision; count its class
					for c := range classesOf(exprs) {
						seen[c] = true
					}
				}
			}
			return true
		})
		r.Check(seen["ttl"] && seen["condition"], "option-groups", name+" handles both groups", r.P.Pos(fn.Decl.Pos()),
			"the stage translates ttl options and conditions", "the stage does not translate one of the option groups at all (ttl options or NX/XX are dropped when the request passes through it)")
		if chains == 0 {
			r.Unknown("option-groups", name, r.P.Pos(fn.Decl.Pos()), "no option decision recognised in this stage")
		}
		// both groups are looked at on every way to a successful result: no return (a "plain
		// Put" fast path) leaves the stage between the two decisions
		if fn.SSA != nil && strings.HasSuffix(name, "writePutCommand") {
			pt := passThrough(r.P)
			for _, g := range []string{"ttl", "condition"} {
				var tests []*ssa.BasicBlock
				for _, b := range fn.SSA.Blocks {
					if len(b.Instrs) == 0 {
						continue
					}
					ifi, ok := b.Instrs[len(b.Instrs)-1].(*ssa.If)
					if !ok {
						continue
					}
					cv, _ := core.StripNot(ifi.Cond)
					if class(core.LastField(cv)) == g {
						tests = append(tests, b)
					}
				}
				var first *ssa.BasicBlock
				for _, t := range tests {
					all := true
					for _, u := range tests {
						if !t.Dominates(u) {
							all = false
						}
					}
					if all {
						first = t
					}
				}
				okAll := first != nil
				where := r.P.Pos(fn.Decl.Pos())
				if first != nil {
					for _, ret := range core.Returns(fn.SSA) {
						ttlOnly := false
						for _, cd := range core.Conditions(ret.Block()) {
							if cd.Truth && core.LastField(cd.Val) == "OnlyUpdateTTL" {
								ttlOnly = true // Expire has its own command and carries neither group
							}
						}
						if core.SuccessCapable(ret, pt) && !ttlOnly && !first.Dominates(ret.Block()) {
							okAll = false
							where = site(r, instrPos(ret))
						}
					}
				}
				r.Check(okAll, "option-groups", name+" "+g+" options on every path", where,
					"every successful result passes the decision over the "+g+" options",
					"a successful result is produced without looking at the "+g+" options (an early return between the two decisions): a forwarded Put silently loses its "+map[string]string{"ttl": "expiry", "condition": "NX/XX condition — NX overwrites an existing key, XX creates a missing one, an untimed Lock is granted to everybody"}[g])
			}
		}
	}
}
