package rules

import (
	"go/constant"
	"go/types"
	"strings"

	"golang.org/x/tools/go/ssa"

	"olricvet/internal/core"
)

// copyAddressedByFlag: the quorum read, the replica delete and the replica scan ask a
// member for ONE particular copy: its backup copy when the request carries the replica
// flag, its primary copy otherwise. A handler that answers from the other fragment (a
// fallback "serve whatever this member still has") makes one physical copy count twice
// towards ReadQuorum while a member is both previous owner and backup owner, and lets a
// replica delete remove the primary copy. The rule: wherever these handlers choose the
// fragment kind, the chosen kind is a function of the request's Replica flag alone —
// BACKUP only on the flag's true edge, PRIMARY only on its false edge.
func copyAddressedByFlag(r *core.Run) {
	const rule = "copy-addressed-by-flag"
	p := r.P
	pk := p.Pkg("internal/cluster/partitions")
	if pk == nil {
		r.Unknown(rule, "internal/cluster/partitions", "-", "package not loaded")
		return
	}
	kindVal := func(name string) constant.Value {
		if c, ok := pk.Types.Scope().Lookup(name).(*types.Const); ok {
			return c.Val()
		}
		return nil
	}
	primary, backup := kindVal("PRIMARY"), kindVal("BACKUP")
	if primary == nil || backup == nil {
		r.Unknown(rule, "partitions.PRIMARY/BACKUP", "-", "constants not found")
		return
	}
	// +1 backup copy, -1 primary copy, 0 neither
	classify := func(v ssa.Value) int {
		switch x := v.(type) {
		case *ssa.Const:
			if x.Value == nil {
				return 0
			}
			if nt, ok := x.Type().(*types.Named); !ok || nt.Obj().Name() != "Kind" {
				return 0
			}
			if x.Value.ExactString() == backup.ExactString() {
				return 1
			}
			if x.Value.ExactString() == primary.ExactString() {
				return -1
			}
		case *ssa.Call:
			if o := core.CalleeObj(x); o != nil && core.QualName(o) == partByID && len(x.Call.Args) > 0 {
				switch core.LastField(x.Call.Args[0]) {
				case "backup":
					return 1
				case "primary":
					return -1
				}
			}
		}
		return 0
	}
	flagState := func(conds []core.Cond) int {
		st := 0
		for _, cd := range conds {
			if core.LastField(cd.Val) == "Replica" {
				if cd.Truth {
					st = 1
				} else {
					st = -1
				}
			}
		}
		return st
	}
	// beforeFlagTest is set by judge: the instruction under judgement precedes the test of
	// the replica flag ("kind = PRIMARY; if Replica { kind = BACKUP }")
	var beforeFlagTest func() bool
	var determined func(v ssa.Value, conds []core.Cond, depth int) (bool, string)
	determined = func(v ssa.Value, conds []core.Cond, depth int) (bool, string) {
		v = canonVal(v)
		if depth > 4 {
			return false, "too deep"
		}
		if phi, ok := v.(*ssa.Phi); ok {
			for i, e := range phi.Edges {
				if ok, why := determined(e, edgeConds(phi.Block().Preds[i], phi.Block()), depth+1); !ok {
					return false, why
				}
			}
			return true, "every incoming choice follows the replica flag"
		}
		k := classify(v)
		if k == 0 {
			return false, "the chosen copy is not a recognisable PRIMARY/BACKUP choice"
		}
		fs := flagState(conds)
		if k == fs {
			return true, "chosen on the matching edge of the replica flag"
		}
		if k == -1 && fs == 0 && beforeFlagTest != nil && beforeFlagTest() {
			return true, "the primary copy is the default, set before the replica flag is tested and overridden on its true edge"
		}
		if k == 1 {
			return false, "the backup copy is chosen although the request's replica flag is not known to be set"
		}
		return false, "the primary copy is chosen although the request's replica flag is not known to be clear (a fallback from the requested backup copy)"
	}
	cnt := 0
	judge := func(fn *core.Fn, what string, v ssa.Value, at ssa.Instruction) {
		cnt++
		beforeFlagTest = func() bool {
			for _, b := range at.Parent().Blocks {
				if len(b.Instrs) == 0 {
					continue
				}
				ifi, ok := b.Instrs[len(b.Instrs)-1].(*ssa.If)
				if !ok {
					continue
				}
				cv, _ := core.StripNot(ifi.Cond)
				if core.LastField(cv) != "Replica" {
					continue
				}
				if core.Dominates(at, ifi) {
					// and the true edge stores the backup kind
					for _, in := range b.Succs[0].Instrs {
						if st, isSt := in.(*ssa.Store); isSt && classify(st.Val) == 1 {
							return true
						}
					}
				}
			}
			return false
		}
		ok, why := determined(v, core.Conditions(at.Block()), 0)
		r.Check(ok, rule, fn.Name+" "+what, site(r, instrPos(at)), why,
			why+": one physical copy can answer for both the primary and the replica read (counted twice towards ReadQuorum), or a replica operation touches the primary copy")
	}
	if fn := r.Need(rule, dmapPkg+".(*Service).getEntryCommandHandler"); fn != nil {
		n := counter{}
		core.Instrs(fn.SSA, func(in ssa.Instruction) {
			if st, ok := in.(*ssa.Store); ok && core.LastField(st.Addr) == "kind" {
				judge(fn, n.next("env.kind"), st.Val, in)
			}
		})
	}
	if fn := r.Need(rule, dmapPkg+".(*Service).delEntryCommandHandler"); fn != nil {
		n := counter{}
		for _, c := range findInstrs(fn.SSA, true, callTo(dmapPkg+".(*DMap).deleteFromFragment")) {
			args := c.(ssa.CallInstruction).Common().Args
			judge(fn, n.next("kind handed to deleteFromFragment"), args[len(args)-1], c)
		}
	}
	if fn := r.Need(rule, dmapPkg+".(*DMap).Scan"); fn != nil {
		n := counter{}
		for _, c := range findInstrs(fn.SSA, false, callTo(dmapPkg+".(*DMap).loadFragment")) {
			args := c.(ssa.CallInstruction).Common().Args
			judge(fn, n.next("partition handed to loadFragment"), args[len(args)-1], c)
		}
	}
	r.Floor(rule, cnt, 3)
}

// memberCountFollowsMembership: CheckMemberCountQuorum compares MemberCountQuorum with a
// counter that is refreshed by setNumMembers. Every change of the member list a member
// observes (join, leave, update — on every member, coordinator or not) must be followed by
// that refresh before the event handler returns; a member whose counter is only refreshed
// on the coordinator's path keeps serving requests after it fell below the quorum.
func memberCountFollowsMembership(r *core.Run) {
	const rule = "member-count-follows-membership"
	fn := r.Need(rule, rtPkg+".(*RoutingTable).processClusterEvent")
	if fn == nil {
		return
	}
	f := fn.SSA
	refresh := callTo(rtPkg + ".(*RoutingTable).setNumMembers")
	cnt := 0
	n := counter{}
	for _, sf := range core.AllSSA(f) {
		_ = sf
	}
	core.Instrs(f, func(in ssa.Instruction) {
		c, ok := in.(ssa.CallInstruction)
		if !ok || in.Parent() != f {
			return
		}
		o := core.CalleeObj(c)
		if o == nil {
			return
		}
		q := core.QualName(o)
		if q != "internal/cluster/routingtable.(*Members).Add" && q != "internal/cluster/routingtable.(*Members).Delete" &&
			q != "internal/discovery.(*Members).Add" && q != "internal/discovery.(*Members).Delete" &&
			!(strings.HasSuffix(q, ".Add") || strings.HasSuffix(q, ".Delete")) {
			return
		}
		if !strings.Contains(q, "Members") && !strings.Contains(q, "members") {
			return
		}
		cnt++
		passed := false
		stop := func(x ssa.Instruction) bool {
			if x == in {
				passed = true
				return false
			}
			if x.Block() == in.Block() && !passed {
				return false
			}
			return refresh(x)
		}
		leak := pathSearch(in.Block(), nil, stop, func(b *ssa.BasicBlock) bool {
			if len(b.Instrs) == 0 {
				return false
			}
			_, isRet := b.Instrs[len(b.Instrs)-1].(*ssa.Return)
			return isRet
		}, nil)
		r.Check(leak == nil, rule, n.next(fn.Name+" "+o.Name()+" is followed by setNumMembers"), site(r, instrPos(in)),
			"the member counter is refreshed before the event handler returns",
			"the member list changes but the handler can return without refreshing the counter CheckMemberCountQuorum reads"+blockAt(r, leak)+": this member keeps passing the member-count check after members left")
	})
	r.Floor(rule, cnt, 2)
	// and the refresh is not tied to the coordinator: who else calls it is irrelevant, but the
	// call inside processClusterEvent must exist
	r.Check(len(findInstrs(f, false, refresh)) > 0, rule, fn.Name+" refreshes the counter itself", site(r, f.Pos()),
		"processClusterEvent calls setNumMembers", "the event handler of every member no longer refreshes the member counter (only some other path, e.g. the coordinator's routing update, does)")
}
