package rules

import (
	"strings"

	"golang.org/x/tools/go/ssa"

	"olricvet/internal/core"
)

// c15NullReplyIsNoValue: a forwarded GETPUT (and GET) answers with a RESP null when there
// was no previous value; go-redis reports the null as the error redis.Nil from Process /
// cmd.Err(). Every path that forwards such a command must recognise redis.Nil on THAT error
// and turn it into "no value", exactly as the owner's local path answers. A test against
// the error of a value accessor (cmd.Bytes()) sits behind the early return on the Process
// error and is dead: the same first write then fails with the error "nil" when it enters
// through a non-owner.
func c15NullReplyIsNoValue(r *core.Run) {
	const rule = "null-reply-is-no-value"
	p := r.P
	cnt := 0
	n := counter{}
	for _, fn := range p.FuncList {
		if fn.SSA == nil || skipPkg(fn) {
			continue
		}
		for _, sf := range core.AllSSA(fn.SSA) {
			core.Instrs(sf, func(in ssa.Instruction) {
				var tested ssa.Value
				switch x := in.(type) {
				case *ssa.Call:
					if callTo("errors.Is")(x) && len(x.Call.Args) == 2 && isRedisNil(x.Call.Args[1]) {
						tested = x.Call.Args[0]
					}
				case *ssa.BinOp:
					if isRedisNil(x.Y) {
						tested = x.X
					} else if isRedisNil(x.X) {
						tested = x.Y
					}
				}
				if tested == nil {
					return
				}
				cnt++
				ok, src := false, "?"
				switch v := canonVal(tested).(type) {
				case *ssa.Call:
					src = methodName(v)
					ok = src == "Process" || src == "Err"
				case *ssa.Extract:
					if c, isC := v.Tuple.(*ssa.Call); isC {
						src = methodName(c)
						ok = src == "Result" && false
					}
				case *ssa.Parameter:
					ok, src = true, "parameter "+v.Name()
				case *ssa.Phi:
					ok, src = true, "merged error"
					for _, e := range v.Edges {
						if ex, isEx := e.(*ssa.Extract); isEx {
							if c, isC := ex.Tuple.(*ssa.Call); isC && (methodName(c) == "Bytes" || methodName(c) == "Text") {
								ok, src = false, methodName(c)
							}
						}
					}
				}
				r.Check(ok, rule, n.next(fnName(p, sf)+" redis.Nil test"), site(r, instrPos(in)),
					"the null reply is recognised on the error of Process / cmd.Err() ("+src+")",
					"redis.Nil is tested on the error of "+src+", not on the error Process / cmd.Err() reported: the test is dead behind the earlier error return, and a request that finds no previous value fails with the error \"nil\" on this path while it succeeds on the others")
			})
		}
	}
	r.Floor(rule, cnt, 3)
}

// c15DeleteSendsOwnersKeys: a multi-key Delete groups the keys by partition owner and sends
// each owner exactly its own group; the counts the owners report are added up. A command
// built once and extended from group to group sends earlier owners' keys again: they are
// counted twice (the total differs from the number of keys, and from one entry point to
// another).
func c15DeleteSendsOwnersKeys(r *core.Run) {
	const rule = "multi-key-visits-all"
	fn := r.Need(rule, dmapPkg+".(*DMap).deleteKeys")
	if fn == nil {
		return
	}
	f := fn.SSA
	cnt := 0
	for _, c := range findInstrs(f, false, callTo("internal/protocol.NewDel")) {
		cnt++
		args := c.(ssa.CallInstruction).Common().Args
		keys := args[len(args)-1]
		// the keys are the value of the current iteration over the owner groups
		ok := false
		if ex, isEx := keys.(*ssa.Extract); isEx && ex.Index == 2 {
			if nx, isNx := ex.Tuple.(*ssa.Next); isNx {
				if _, isRange := nx.Iter.(*ssa.Range); isRange {
					ok = true
				}
			}
		}
		r.Check(ok, rule, fn.Name+" sends each owner its own keys", site(r, instrPos(c)),
			"DM.DEL for an owner is built from that owner's group of keys",
			"the DM.DEL sent to an owner is not built from exactly that owner's group of keys (a command reused and extended across owners): keys are deleted and counted more than once, the returned count depends on the entry point")
	}
	// no Del command is extended after it was built (d.Keys = append(d.Keys, ...))
	extended := false
	core.Instrs(f, func(in ssa.Instruction) {
		if st, ok := in.(*ssa.Store); ok && core.LastField(st.Addr) == "Keys" {
			extended = true
		}
	})
	r.Check(!extended && cnt > 0, rule, fn.Name+" builds one command per owner", site(r, f.Pos()),
		"a fresh DM.DEL per owner group", "a DM.DEL command's key list is modified after the command was built")
}

// isRedisNil: the value is redis.Nil (a constant of type proto.RedisError, "redis: nil",
// converted to error).
func isRedisNil(v ssa.Value) bool {
	if mi, ok := v.(*ssa.MakeInterface); ok {
		v = mi.X
	}
	k, ok := v.(*ssa.Const)
	if !ok || k.Value == nil {
		return false
	}
	return k.Value.ExactString() == `"redis: nil"`
}

// c15ErrorsKeepTheirPrefix: an error travels between members as its registered prefix
// (KEYTOOLARGE, ENTRYTOOLARGE, ...). protocol.GetPrefix finds the prefix of the error value
// itself or of what a single errors.Unwrap yields. An error built with two %w verbs has no
// single Unwrap (it returns nil), so the registered error inside it goes out as a generic
// ERR and comes back as an anonymous error on every remote path, while the local path still
// matches with errors.Is.
func c15ErrorsKeepTheirPrefix(r *core.Run) {
	const rule = "error-mapping"
	p := r.P
	n := counter{}
	for _, fn := range p.FuncList {
		if fn.SSA == nil || skipPkg(fn) {
			continue
		}
		for _, sf := range core.AllSSA(fn.SSA) {
			for _, c := range findInstrs(sf, false, callTo("fmt.Errorf")) {
				args := c.(ssa.CallInstruction).Common().Args
				if len(args) == 0 {
					continue
				}
				k, ok := args[0].(*ssa.Const)
				if !ok || k.Value == nil {
					continue
				}
				if strings.Count(k.Value.ExactString(), "%w") < 2 {
					continue
				}
				r.Bad(rule, n.next(fnName(p, sf)+" wraps two errors"), site(r, instrPos(c)),
					"an error is built with more than one %w: errors.Unwrap yields nil for it, protocol.GetPrefix cannot find the registered error inside, and the reply goes out as a generic ERR — remote callers get an anonymous error where the owner's local path reports the documented one")
			}
		}
	}
}
