package rules

import (
	"fmt"
	"go/token"

	"golang.org/x/tools/go/ssa"

	"olricvet/internal/core"
)

func init() {
	register(&Property{
		ID: "C20",
		Explain: "Static structural necessary conditions of 'storage stays bounded under churn': " +
			"(insert-into-writable-head) Put and PutRaw insert into the last table only after makeTable ran or after its state was found to be ReadWriteState: a recycled table left last by a transfer is not registered for scans and is skipped by Export; " +
			"(supersede-becomes-garbage) every superseding write retires the old version — Table.Put/PutRaw call Table.Delete of the same key before overwriting the index entry, KVStore.Put/PutRaw retire the key from every older table after the insert, and Table.Delete moves the same n bytes from inuse to garbage (shared with C11); " +
			"(compaction-shape) Compaction evicts only non-writable tables whose garbage is at least the threshold share of the bytes written to them, not of their capacity (comparison truth table {skip, evict, evict}), reports 'not done' after each evicted table, a drained table is unregistered and Reset, and makeTable reuses a recycled table before allocating a new one; " +
			"(both-kinds-compacted) the periodic worker compacts the primary and the backup partition of every partition id below PartitionCount; " +
			"(size-boundary-agreement) every entry accepted by the store fits an empty table (otherwise Put allocates tables without bound); " +
			"(compaction-pause-is-short) between two steps of one fragment's compaction the worker pauses for a constant of at most one second, not for a configured interval. " +
			"NOT decided: the constant factor of the bound and progress over time (quantify over workloads).",
		Run: func(r *core.Run) {
			tableInsertRetiresOld(r)
			kvSingleLiveVersion(r)
			tableDeletePairing(r)
			kvCompactionSourceNotHead(r)
			compactionShape(r)
			kvOldHeadReadOnly(r)
			kvScanIndexRegistration(r)
			bothKindsCompacted(r)
			kvSizeBoundaryAgreement(r)
			semaphoreReleased(r, "semaphore-released")
			kvPutGrowsStore(r)
			kvInsertIntoWritableHead(r)
			kvEntrySizeFormula(r)
			c20ClosedFragmentCompactionDone(r)
			c11IdleTableRemovedByItsOwnIndex(r)
			c20CompactionPauseIsShort(r)
		},
	})
}

func compactionShape(r *core.Run) {
	p := r.P
	// (1) threshold boundary in isCompactionOK: a table qualifies iff its garbage is at least
	// the threshold share of the bytes WRITTEN to it (inuse + garbage). Only tables that no
	// longer accept writes are compacted, and such a table may have been closed long before
	// it was full: measured against the capacity (Allocated), a sparsely filled table never
	// qualifies even when everything in it is dead, and storage grows without bound (D30).
	if fn := r.Need("compaction-shape", kvPkg+".(*KVStore).isCompactionOK"); fn != nil {
		f := fn.SSA
		ok := false
		why := "no comparison of the table's garbage with a share of the bytes written to it"
		usesCapacity := false
		core.Instrs(f, func(in ssa.Instruction) {
			bin, isBin := in.(*ssa.BinOp)
			if !isBin || !core.IsCompare(bin.Op) {
				return
			}
			if mentionsField(bin.X, "Allocated") || mentionsField(bin.Y, "Allocated") {
				usesCapacity = true
			}
			g, a := bin.X, bin.Y
			op := bin.Op
			if mentionsField(g, "Inuse") || !mentionsField(g, "Garbage") {
				g, a = a, g
				op = flip(op)
			}
			if !mentionsField(g, "Garbage") || mentionsField(g, "Inuse") || !mentionsField(a, "Garbage") || !mentionsField(a, "Inuse") {
				return
			}
			tbl := [3]bool{core.CmpHolds(op, -1), core.CmpHolds(op, 0), core.CmpHolds(op, 1)}
			if tbl != [3]bool{false, true, true} {
				why = fmt.Sprintf("garbage{<,==,>}share gives %v; required {false,true,true}: tables at the threshold are never compacted or tables below it are", tbl)
				return
			}
			// the function says yes only when this comparison holds
			if res, decided := core.BoolResult(f, bin.Block(), 0, map[ssa.Value]bool{bin: false}); decided && !res {
				ok = true
				why = "compaction iff garbage >= (inuse+garbage)*ratio ({skip, evict, evict}), measured against what was written to the table"
			}
		})
		if usesCapacity {
			ok = false
			why = "the criterion measures the garbage against the table's capacity (Allocated): a table closed while mostly empty never qualifies, even with nothing but garbage in it, and is never reclaimed"
		}
		r.Check(ok, "compaction-shape", fn.Name+" threshold", site(r, f.Pos()), why, why)
	}
	// (2) Compaction: after a successful evictTable it returns (false, nil); the final return is (true, nil)
	if fn := r.Need("compaction-shape", kvPkg+".(*KVStore).Compaction"); fn != nil {
		f := fn.SSA
		ev := core.CallsTo(f, false, core.Named(kvPkg+".(*KVStore).evictTable"))
		n := counter{}
		for _, c := range ev {
			key := n.next(fn.Name + " after evictTable")
			good := true
			any := false
			for _, ret := range core.ReturnsFrom(c.Block(), nil) {
				if !c.Block().Dominates(ret.Block()) {
					continue
				}
				any = true
				k, isK := core.ResultValue(ret, 0).(*ssa.Const)
				if !isK || k.Value == nil || k.Value.String() != "false" {
					good = false
				}
			}
			r.Check(good && any, "compaction-shape", key, site(r, instrPos(c)),
				"every return after evicting a table reports done=false, so the caller keeps compacting",
				"Compaction can report done=true right after evicting one table: the remaining garbage-heavy tables are left until the next interval, and with steady churn garbage accumulates faster than it is collected")
		}
		// evictTable is guarded by isCompactionOK
		for _, c := range ev {
			guard := false
			for _, cd := range core.Conditions(c.Block()) {
				if call, ok := cd.Val.(*ssa.Call); ok && cd.Truth {
					if o := core.CalleeObj(call); o != nil && core.QualName(o) == kvPkg+".(*KVStore).isCompactionOK" {
						guard = true
					}
				}
			}
			r.Check(guard, "compaction-shape", fn.Name+" evictTable guarded by the threshold", site(r, instrPos(c)),
				"evictTable only for tables over the garbage threshold", "evictTable is not guarded by isCompactionOK")
		}
		r.Floor("compaction-shape(evict calls)", len(ev), 1)
		// the loop over tables covers all of them
		full := false
		for _, l := range core.IndexLoops(f) {
			if l.LenOf != nil && isTablesLoad(l.LenOf) && l.Lo == 0 && l.HiOff == 1 {
				for _, c := range l.Calls() {
					if o := core.CalleeObj(c); o != nil && core.QualName(o) == kvPkg+".(*KVStore).evictTable" {
						full = true
					}
				}
			}
		}
		r.Check(full, "compaction-shape", fn.Name+" examines every table", site(r, f.Pos()),
			"the eviction loop ranges over tables[0 .. len-1]", "the eviction loop does not range over every table")
	}
	// (3) evictTable: a drained table is unregistered and Reset
	if fn := r.Need("compaction-shape", kvPkg+".(*KVStore).evictTable"); fn != nil {
		f := fn.SSA
		resets := core.CallsTo(f, false, core.Named(tablePkg+".(*Table).Reset"))
		ok := false
		for _, c := range resets {
			for _, cd := range core.Conditions(c.Block()) {
				bin, isBin := cd.Val.(*ssa.BinOp)
				if isBin && bin.Op == token.EQL && cd.Truth && (mentionsField(bin.X, "Inuse") || mentionsField(bin.Y, "Inuse")) {
					ok = true
				}
			}
		}
		r.Check(ok, "compaction-shape", fn.Name+" recycles the drained table", site(r, f.Pos()),
			"Reset() when the table's Inuse reached 0", "a drained table is never Reset: its memory is neither reused nor freed")
	}
	// (4) makeTable reuses recycled tables before allocating
	if fn := r.Need("compaction-shape", kvPkg+".(*KVStore).makeTable"); fn != nil {
		f := fn.SSA
		news := core.CallsTo(f, false, core.Named(tablePkg+".New"))
		recycled := constValue(p, tablePkg, "RecycledState")
		reuse := false
		core.Instrs(f, func(in ssa.Instruction) {
			c, ok := in.(*ssa.Call)
			if !ok {
				return
			}
			if o := core.CalleeObj(c); o != nil && core.QualName(o) == tablePkg+".(*Table).State" {
				for _, ref := range *c.Referrers() {
					if bin, ok := ref.(*ssa.BinOp); ok && bin.Op == token.EQL {
						if k, ok := bin.Y.(*ssa.Const); ok && k.Value != nil && k.Int64() == recycled {
							reuse = true
						}
					}
				}
			}
		})
		okOrder := reuse && len(news) >= 1
		// the allocation is not reachable on the path where a recycled table was found (that path returns)
		r.Check(okOrder, "compaction-shape", fn.Name+" reuses recycled tables", site(r, f.Pos()),
			"a recycled table is looked for before table.New is called", "makeTable always allocates: recycled tables are never reused and allocated memory only grows")
	}
}

func mentionsField(v ssa.Value, field string) bool {
	for i := 0; i < 6 && v != nil; i++ {
		switch x := v.(type) {
		case *ssa.Convert:
			v = x.X
		case *ssa.ChangeType:
			v = x.X
		case *ssa.BinOp:
			return mentionsField(x.X, field) || mentionsField(x.Y, field)
		case *ssa.Field:
			if st := structOf(x.X.Type()); st != nil && st.Field(x.Field).Name() == field {
				return true
			}
			return false
		case *ssa.UnOp:
			return core.LastField(x) == field
		default:
			return false
		}
	}
	return false
}

// bothKindsCompacted: doCompaction runs on the primary and the backup partition, and
// triggerCompaction visits every partition id.
func bothKindsCompacted(r *core.Run) {
	if fn := r.Need("both-kinds-compacted", "internal/dmap.(*Service).doCompaction"); fn != nil {
		var prim, back bool
		for _, sf := range core.AllSSA(fn.SSA) {
			for _, c := range core.CallsTo(sf, false, core.Named(partByID)) {
				switch core.LastField(c.Common().Args[0]) {
				case "primary":
					prim = true
				case "backup":
					back = true
				}
			}
		}
		r.Check(prim, "both-kinds-compacted", fn.Name+" primary", site(r, fn.SSA.Pos()), "compacts the primary partition", "the primary partition is not compacted")
		r.Check(back, "both-kinds-compacted", fn.Name+" backup", site(r, fn.SSA.Pos()), "compacts the backup partition", "the backup partition is never compacted: backup copies grow without bound under overwrite churn")
		// unconditionally: every return of doCompaction is preceded by the compaction of a
		// partition obtained from primary and of one obtained from backup
		for _, kind := range []string{"primary", "backup"} {
			kind := kind
			isCompactionOf := func(in ssa.Instruction) bool {
				c, ok := in.(*ssa.Call)
				if !ok || c.Call.IsInvoke() {
					return false
				}
				// a call (of the local closure or of a helper) whose argument is <kind>.PartitionByID(...)
				for _, a := range c.Call.Args {
					if pc, isCall := a.(*ssa.Call); isCall {
						if o := core.CalleeObj(pc); o != nil && core.QualName(o) == partByID && core.LastField(pc.Call.Args[0]) == kind {
							return true
						}
					}
				}
				return false
			}
			ret := core.ReachesReturnAvoiding(fn.SSA, isCompactionOf, func(*ssa.Return) bool { return true })
			r.Check(ret == nil, "both-kinds-compacted", fn.Name+" "+kind+" on every path", site(r, fn.SSA.Pos()),
				"every return is preceded by the compaction of the "+kind+" partition", "doCompaction can return without compacting the "+kind+" partition (an early return or guard): on members where the guard fires those copies are never compacted and grow without bound under churn")
		}
		// the fragment-level compaction is reached
		reach := reachable(r.P, []*core.Fn{fn})
		target := r.P.Fn("internal/dmap.(*fragment).Compaction")
		r.Check(target != nil && reach[target], "both-kinds-compacted", fn.Name+" reaches fragment.Compaction", site(r, fn.SSA.Pos()),
			"doCompaction reaches (*fragment).Compaction", "doCompaction no longer reaches the storage engine's Compaction")
	}
	if fn := r.Need("both-kinds-compacted", "internal/dmap.(*Service).triggerCompaction"); fn != nil {
		ok := false
		for _, l := range core.IndexLoops(fn.SSA) {
			_ = l
		}
		// counting loop partID := 0; partID < PartitionCount; partID++
		core.Instrs(fn.SSA, func(in ssa.Instruction) {
			if ifi, isIf := in.(*ssa.If); isIf {
				if bin, isBin := ifi.Cond.(*ssa.BinOp); isBin && bin.Op == token.LSS && isPC(bin.Y) {
					if ph, isPhi := bin.X.(*ssa.Phi); isPhi && len(ph.Edges) == 2 {
						if k, isK := ph.Edges[0].(*ssa.Const); isK && k.Value != nil && k.Uint64() == 0 {
							ok = true
						}
					}
				}
			}
		})
		r.Check(ok, "both-kinds-compacted", fn.Name+" visits every partition", site(r, fn.SSA.Pos()),
			"loop partID = 0 .. PartitionCount-1", "the trigger loop does not start at 0 or does not run up to PartitionCount")
	}
}
