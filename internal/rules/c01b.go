package rules

import (
	"golang.org/x/tools/go/ssa"

	"olricvet/internal/core"
)

// fragmentRevalidatedAfterLock (D31): the janitor removes a DMap's fragment from its
// partition when it finds it empty — under the fragment's own lock, but writers look the
// fragment up first (loadOrCreateFragment, under the partition's mutex) and take the
// fragment lock afterwards. In between the janitor can lock the still empty fragment, wipe
// it out and delete it from the partition's map; the writer then locks the orphan, stores
// the entry in it and acknowledges a write that no reader will ever find. A writer that
// obtained its fragment through the lookup must therefore re-validate it after locking it
// (is the fragment still alive / still the one registered for the name) and look it up
// again otherwise.
func fragmentRevalidatedAfterLock(r *core.Run) {
	const rule = "fragment-revalidated-after-lock"
	p := r.P
	cnt := 0
	for _, fn := range p.FuncList {
		if fn.SSA == nil || core.RelPkg(fn.Pkg.PkgPath) != dmapPkg {
			continue
		}
		for _, sf := range core.AllSSA(fn.SSA) {
			for _, lc := range findInstrs(sf, false, callTo(dmapPkg+".(*DMap).loadOrCreateFragment")) {
				call, ok := lc.(*ssa.Call)
				if !ok {
					continue
				}
				var frag ssa.Value
				for _, ref := range *call.Referrers() {
					if ex, isEx := ref.(*ssa.Extract); isEx && ex.Index == 0 {
						frag = ex
					}
				}
				if frag == nil {
					continue
				}
				// write locks taken on that fragment
				var locks []ssa.Instruction
				core.Instrs(sf, func(in ssa.Instruction) {
					c, isCall := in.(*ssa.Call)
					if !isCall {
						return
					}
					if op, isOp := isFragmentMutexOp(c); isOp && op == "Lock" && len(c.Call.Args) > 0 {
						if fa, isFA := c.Call.Args[0].(*ssa.FieldAddr); isFA && canonVal(fa.X) == canonVal(frag) {
							locks = append(locks, in)
						}
					}
				})
				for _, l := range locks {
					cnt++
					revalidated := false
					core.Instrs(sf, func(in ssa.Instruction) {
						if !core.Dominates(l, in) {
							return
						}
						c, isCall := in.(ssa.CallInstruction)
						if !isCall {
							return
						}
						switch methodName(c) {
						case "Err":
							// f.ctx.Err()
							if len(c.Common().Args) > 0 && core.LastField(c.Common().Args[0]) == "ctx" {
								revalidated = true
							}
							if c.Common().IsInvoke() && core.LastField(c.Common().Value) == "ctx" {
								revalidated = true
							}
						case "Load":
							if o := core.CalleeObj(c); o != nil && core.QualName(o) == "sync.(*Map).Load" {
								revalidated = true
							}
						}
					})
					r.Check(revalidated, rule, fnName(p, sf)+" uses the looked-up fragment after locking it", site(r, instrPos(l)),
						"after the lock the fragment is checked to be still alive / still registered",
						"the fragment obtained by the lookup is locked and written without checking that it is still registered: the janitor can wipe an empty fragment between the lookup and the lock, and the write is acknowledged into an orphan that no reader finds")
				}
			}
		}
	}
	r.Floor(rule, cnt, 3)
}
