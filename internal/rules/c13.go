package rules

import (
	"fmt"
	"go/token"
	"strings"

	"golang.org/x/tools/go/ssa"

	"olricvet/internal/core"
)

const (
	rtPkg            = "internal/cluster/routingtable"
	fnUpdateRouting  = rtPkg + ".(*RoutingTable).updateRouting"
	fnUpdateHandler  = rtPkg + ".(*RoutingTable).updateRoutingCommandHandler"
	fnVerifyRouting  = rtPkg + ".(*RoutingTable).verifyRoutingTable"
	fnProcessEvent   = rtPkg + ".(*RoutingTable).processClusterEvent"
	fnDistributePrim = rtPkg + ".(*RoutingTable).distributePrimaryCopies"
)

func init() {
	register(&Property{
		ID: "C13",
		Explain: "Static structural necessary conditions of 'all members agree on a valid routing table' — the small structural part; convergence after join/leave sequences, liveness/distinctness of backups and the load-factor bound (inside buraksezer/consistent) are NOT decided: " +
			"(coordinator-only) the table is computed and pushed only on the true edge of IsCoordinator() and after the member-count quorum check; " +
			"(verify-before-apply) a received table replaces the owners only after verifyRoutingTable returned nil, which checks that the sender is this member's coordinator and that the table has exactly PartitionCount entries with valid ids and owners; " +
			"(defaults-only-when-unset) Config.Sanitize replaces LoadFactor, PartitionCount, ReplicaCount and the quorums by their defaults only on the edge where the field is zero; " +
			"(backup-owners-pruned) distributeBackups returns a list of backup owners only after the loop that removes departed and re-joined members, except nil and the list built when there was no previous owner; " +
			"(coordinator-is-oldest) members are sorted by birthdate ascending and the coordinator is element 0; " +
			"(partition-formula) every partition id computed from a key is HKey(DMap name, key) modulo the partition count, and every HKey call passes (DMap name, key) in that order; " +
			"(owner-index) the primary owner is the last element of the owners list on members (Partition.Owner), in the cluster client (clientByPartID) and when the coordinator recomputes the list (ring owner appended last, previous owners prepended); " +
			"(ring-follows-membership) every removal from / addition to the member table in the membership-event handler is paired with the same operation on the consistent-hash ring.",
		Run: func(r *core.Run) {
			c13CoordinatorOnly(r)
			c13TimerRearmed(r)
			c13VerifyBeforeApply(r)
			c13CoordinatorIsOldest(r)
			c13PartitionFormula(r)
			c13OwnerIndex(r)
			c13RingFollowsMembership(r)
			c13DefaultsOnlyWhenUnset(r)
			c13BackupOwnersPruned(r)
			fragmentStatsTruthful(r)
			configSanitizeFillsOnly(r, "sanitize-fills-only")
			c13PeriodicPushEverywhere(r)
			c13ReplicaOwnersDegrade(r)
		},
	})
}

func c13CoordinatorOnly(r *core.Run) {
	fn := r.Need("coordinator-only", fnUpdateRouting)
	if fn == nil {
		return
	}
	f := fn.SSA
	targets := findInstrs(f, false, callTo(rtPkg+".(*RoutingTable).fillRoutingTable", rtPkg+".(*RoutingTable).updateRoutingTableOnCluster"))
	r.Floor("coordinator-only", len(targets), 2)
	for _, t := range targets {
		coord, quorum := false, false
		for _, cd := range core.Conditions(t.Block()) {
			if c, ok := cd.Val.(*ssa.Call); ok && cd.Truth && methodName(c) == "IsCoordinator" {
				coord = true
			}
		}
		quorum = underNilErrOf(r.P, t.Block(), rtPkg+".(*RoutingTable).CheckMemberCountQuorum")
		r.Check(coord && quorum, "coordinator-only", fnUpdateRouting+" -> "+calleeName(t.(ssa.CallInstruction)), site(r, instrPos(t)),
			"reached only on the coordinator and with the member-count quorum", "the routing table can be computed/pushed by a member that is not the coordinator, or without the member-count quorum: two members push conflicting tables")
	}
}

func c13VerifyBeforeApply(r *core.Run) {
	p := r.P
	if fn := r.Need("verify-before-apply", fnUpdateHandler); fn != nil {
		sets := findInstrs(fn.SSA, false, callTo("internal/cluster/partitions.(*Partition).SetOwners"))
		r.Floor("verify-before-apply(SetOwners)", len(sets), 2)
		for _, s := range sets {
			r.Check(underNilErrOf(p, s.Block(), fnVerifyRouting), "verify-before-apply", fnUpdateHandler+" SetOwners", site(r, instrPos(s)),
				"owners are replaced only after verifyRoutingTable returned nil", "a pushed table is applied without successful verification (any member or client could rewrite the routing)")
		}
	}
	if fn := r.Need("verify-before-apply", fnVerifyRouting); fn != nil {
		f := fn.SSA
		pt := passThrough(p)
		n := counter{}
		for _, ret := range core.Returns(f) {
			if !core.SuccessCapable(ret, pt) {
				continue
			}
			sender, size := false, false
			for _, cd := range core.Conditions(ret.Block()) {
				if c, ok := cd.Val.(*ssa.Call); ok && cd.Truth && methodName(c) == "CompareByID" {
					// coordinator (found by id) vs GetCoordinator()
					for _, a := range c.Call.Args {
						if originCall(a) == "internal/discovery.(*Discovery).GetCoordinator" {
							sender = true
						}
					}
				}
				if bin, ok := cd.Val.(*ssa.BinOp); ok {
					if (isPC(bin.X) && lenArg(core.StripConv(bin.Y)) != nil) || (isPC(bin.Y) && lenArg(core.StripConv(bin.X)) != nil) {
						if (bin.Op == token.EQL) == cd.Truth {
							size = true
						}
					}
				}
			}
			r.Check(sender && size, "verify-before-apply", n.next(fnVerifyRouting+" success return"), site(r, instrPos(ret)),
				"behind 'sender is my coordinator' and 'len(table) == PartitionCount'", "verification can succeed for a sender that is not this member's coordinator, or for a table of the wrong size")
		}
	}
}

func c13CoordinatorIsOldest(r *core.Run) {
	if fn := r.Need("coordinator-is-oldest", "internal/discovery.(*Discovery).GetMembers"); fn != nil {
		var less *ssa.Function
		sorts := findInstrs(fn.SSA, false, callTo("sort.Slice"))
		if len(sorts) == 0 {
			// the sort may live in a same-package helper called on the member list
			core.Instrs(fn.SSA, func(in ssa.Instruction) {
				c, ok := in.(*ssa.Call)
				if !ok {
					return
				}
				if h := r.P.ByObj[core.CalleeObj(c)]; h != nil && h.SSA != nil && h.SSA != fn.SSA && h.Pkg.PkgPath == fn.Pkg.PkgPath {
					sorts = append(sorts, findInstrs(h.SSA, false, callTo("sort.Slice"))...)
				}
			})
		}
		for _, c := range sorts {
			_, less = core.FuncValueObj(c.(ssa.CallInstruction).Common().Args[1])
		}
		ok := false
		why := "no sort.Slice with a comparison of Birthdate"
		if less != nil && len(less.Params) == 2 {
			for _, ret := range core.Returns(less) {
				if bin, isBin := ret.Results[0].(*ssa.BinOp); isBin && core.IsCompare(bin.Op) && core.LastField(bin.X) == "Birthdate" && core.LastField(bin.Y) == "Birthdate" {
					// which index does each side use?
					xi := indexParamOf(bin.X)
					yi := indexParamOf(bin.Y)
					op := bin.Op
					if xi == ssa.Value(less.Params[1]) && yi == ssa.Value(less.Params[0]) {
						op = flip(op)
					}
					tbl := [3]bool{core.CmpHolds(op, -1), core.CmpHolds(op, 0), core.CmpHolds(op, 1)}
					ok = tbl[0] && !tbl[2]
					why = fmt.Sprintf("less(i,j) over Birthdate(i){<,==,>}Birthdate(j) = %v", tbl)
				}
			}
		}
		r.Check(ok, "coordinator-is-oldest", fn.Name+" order", site(r, fn.SSA.Pos()), "members are sorted oldest first: "+why, "members are not sorted oldest first ("+why+"): members disagree about who the coordinator is")
	}
	if fn := r.Need("coordinator-is-oldest", "internal/discovery.(*Discovery).GetCoordinator"); fn != nil {
		ok := false
		for _, ret := range core.Returns(fn.SSA) {
			if sl, idx, isW := winnerSlice(core.ResultValue(ret, 0)); isW && idx == 0 {
				if c, isC := sl.(*ssa.Call); isC && methodName(c) == "GetMembers" {
					ok = true
				}
			}
		}
		r.Check(ok, "coordinator-is-oldest", fn.Name, site(r, fn.SSA.Pos()), "the coordinator is GetMembers()[0]", "the coordinator is not the first (oldest) member")
	}
}

func indexParamOf(v ssa.Value) ssa.Value {
	for i := 0; i < 6 && v != nil; i++ {
		switch x := v.(type) {
		case *ssa.UnOp:
			v = x.X
		case *ssa.FieldAddr:
			v = x.X
		case *ssa.IndexAddr:
			return x.Index
		default:
			return nil
		}
	}
	return nil
}

func c13PartitionFormula(r *core.Run) {
	p := r.P
	hk := p.Fn("internal/cluster/partitions.HKey")
	if hk == nil {
		r.Unknown("partition-formula", "internal/cluster/partitions.HKey", "-", "anchor not found")
		return
	}
	// HKey itself: hash(name + key)
	okConcat := false
	core.Instrs(hk.SSA, func(in ssa.Instruction) {
		if bin, ok := in.(*ssa.BinOp); ok && bin.Op == token.ADD {
			px, okx := bin.X.(*ssa.Parameter)
			py, oky := bin.Y.(*ssa.Parameter)
			if okx && oky && px == hk.SSA.Params[0] && py == hk.SSA.Params[1] {
				okConcat = true
			}
		}
	})
	r.Check(okConcat, "partition-formula", hk.Name, site(r, hk.SSA.Pos()), "HKey hashes name+key", "HKey does not hash the DMap name followed by the key")
	// call sites: (DMap name, key) in that order
	cnt := 0
	n := counter{}
	for _, fn := range p.FuncList {
		if fn.SSA == nil || skipPkg(fn) {
			continue
		}
		for _, sf := range core.AllSSA(fn.SSA) {
			for _, c := range findInstrs(sf, false, callTo(hk.Name)) {
				cnt++
				a := c.(ssa.CallInstruction).Common().Args
				c0, c1 := argClass(a[0]), argClass(a[1])
				ok := c0 == "dmap" && c1 == "key"
				r.Check(ok, "partition-formula", n.next(fnName(p, sf)+" HKey(name, key)"), site(r, instrPos(c)),
					"HKey(DMap name, key)", fmt.Sprintf("HKey is called with (%s, %s) instead of (DMap name, key): this path maps the key to a different partition and owner than every other member and client", c0, c1))
			}
		}
	}
	r.Floor("partition-formula(HKey sites)", cnt, 11)
	// partition id = hkey % count
	for _, name := range []string{"internal/cluster/partitions.(*Partitions).PartitionIDByHKey", "olric.(*ClusterClient).smartPick"} {
		fn := r.Need("partition-formula", name)
		if fn == nil {
			continue
		}
		ok := false
		core.Instrs(fn.SSA, func(in ssa.Instruction) {
			if bin, isB := in.(*ssa.BinOp); isB && bin.Op == token.REM {
				cntField := core.LastField(bin.Y)
				if cntField == "count" || cntField == "partitionCount" {
					ok = true
				}
			}
		})
		r.Check(ok, "partition-formula", name+" modulo", site(r, fn.SSA.Pos()), "partition id = hkey % partition count", "the partition id is not hkey modulo the partition count")
	}
	// pipeline's addCommand uses the same formula
	if fn := p.Fn("olric.(*DMapPipeline).addCommand"); fn != nil {
		ok := false
		core.Instrs(fn.SSA, func(in ssa.Instruction) {
			if bin, isB := in.(*ssa.BinOp); isB && bin.Op == token.REM {
				ok = true
			}
		})
		uses := len(findInstrs(fn.SSA, false, callTo(hk.Name))) > 0
		r.Check(ok && uses, "partition-formula", fn.Name+" modulo", site(r, fn.SSA.Pos()), "pipeline groups commands by HKey(name,key) % partition count", "the pipeline groups commands by a different partition formula")
	}
}

func argClass(v ssa.Value) string {
	v = canonVal(v)
	switch x := v.(type) {
	case *ssa.Parameter:
		return classifyName(x.Name())
	case *ssa.UnOp:
		if ia, ok := x.X.(*ssa.IndexAddr); ok {
			// element of a list: classified by the list's name (keys -> key)
			switch l := ia.X.(type) {
			case *ssa.Parameter:
				return classifyName(strings.TrimSuffix(l.Name(), "s"))
			case *ssa.UnOp:
				if f := core.LastField(l); f != "" {
					return classifyName(strings.TrimSuffix(f, "s"))
				}
			}
		}
		if f := core.LastField(x); f != "" {
			return classifyName(f)
		}
	case *ssa.Call:
		switch methodName(x) {
		case "Key":
			return "key"
		case "Name":
			return "dmap"
		}
	case *ssa.Extract, *ssa.Phi:
		return "key" // range element of a key list
	case *ssa.Next:
		return "key"
	}
	return "other"
}

func c13OwnerIndex(r *core.Run) {
	p := r.P
	lastOf := func(fn *core.Fn, fieldOrCall string) bool {
		ok := false
		for _, ret := range core.Returns(fn.SSA) {
			for _, v := range ret.Results {
				_ = v
			}
		}
		core.Instrs(fn.SSA, func(in ssa.Instruction) {
			ia, isIA := in.(*ssa.IndexAddr)
			if !isIA {
				return
			}
			sub, isSub := ia.Index.(*ssa.BinOp)
			if !isSub || sub.Op != token.SUB {
				return
			}
			k, isK := sub.Y.(*ssa.Const)
			if !isK || k.Value == nil || k.Int64() != 1 {
				return
			}
			if l := lenArg(sub.X); l != nil && canonVal(l) == canonVal(ia.X) || (l != nil && core.LastField(l) == fieldOrCall && core.LastField(ia.X) == fieldOrCall) {
				ok = true
			}
		})
		return ok
	}
	if fn := r.Need("owner-index", "internal/cluster/partitions.(*Partition).Owner"); fn != nil {
		idxConst := false
		core.Instrs(fn.SSA, func(in ssa.Instruction) {
			if ia, ok := in.(*ssa.IndexAddr); ok {
				if _, isK := ia.Index.(*ssa.Const); isK {
					idxConst = true
				}
			}
		})
		r.Check(lastOf(fn, "owners") && !idxConst, "owner-index", fn.Name, site(r, fn.SSA.Pos()), "the primary owner is owners[len-1]", "Partition.Owner does not return the last element of the owners list: members route requests to a previous owner")
	}
	if fn := r.Need("owner-index", "olric.(*ClusterClient).clientByPartID"); fn != nil {
		idxConst := false
		core.Instrs(fn.SSA, func(in ssa.Instruction) {
			if ia, ok := in.(*ssa.IndexAddr); ok && core.LastField(ia.X) == "PrimaryOwners" {
				if _, isK := ia.Index.(*ssa.Const); isK {
					idxConst = true
				}
			}
		})
		r.Check(lastOf(fn, "PrimaryOwners") && !idxConst, "owner-index", fn.Name, site(r, fn.SSA.Pos()), "the cluster client targets PrimaryOwners[len-1]", "the cluster client does not target the last element of PrimaryOwners: while a partition still lists a previous owner, clients and members disagree about the owner of every key in it")
	}
	// the coordinator appends the ring owner last
	if fn := r.Need("owner-index", fnDistributePrim); fn != nil {
		pt := passThrough(p)
		_ = pt
		n := counter{}
		for _, ret := range core.Returns(fn.SSA) {
			v := core.ResultValue(ret, 0)
			c, ok := v.(*ssa.Call)
			good := false
			if ok {
				if b, isB := c.Call.Value.(*ssa.Builtin); isB && b.Name() == "append" {
					// append(owners, newOwner): the appended element is the ring owner
					if el := appendedSingle(c.Call.Args[1]); el != nil {
						if ta, isTA := el.(*ssa.TypeAssert); isTA {
							if call, isC := ta.X.(*ssa.Call); isC && methodName(call) == "GetPartitionOwner" {
								good = true
							}
						}
					}
				}
			}
			if !good {
				// "first run": owners was empty and newOwner appended before — a phi/local
				if u, isU := v.(*ssa.Call); isU {
					_ = u
				}
			}
			r.Check(good || isAppendResultOfRingOwner(v), "owner-index", n.next(fnDistributePrim+" return"), site(r, instrPos(ret)),
				"the ring owner is appended as the last element", "the recomputed owners list does not end with the ring owner: the new primary owner is not where members and clients look for it")
		}
	}
	// previous owners reported with left-over data are prepended
	if fn := r.Need("owner-index", rtPkg+".(*RoutingTable).processLeftOverDataReports"); fn != nil {
		ok := false
		for _, sf := range core.AllSSA(fn.SSA) {
			core.Instrs(sf, func(in ssa.Instruction) {
				c, isC := in.(*ssa.Call)
				if !isC {
					return
				}
				if b, isB := c.Call.Value.(*ssa.Builtin); isB && b.Name() == "append" {
					// append([]Member{member}, newOwners...): first arg is a one-element literal
					if el := appendedSingle(c.Call.Args[0]); el != nil {
						ok = true
					}
				}
			})
		}
		r.Check(ok, "owner-index", fn.Name, site(r, fn.SSA.Pos()), "a previous owner that still holds data is prepended (never placed last)", "a previous owner is not prepended to the owners list")
	}
}

func isAppendResultOfRingOwner(v ssa.Value) bool {
	// owners = append(owners, newOwner.(Member)); return owners   (first-run branch)
	c, ok := v.(*ssa.Call)
	if !ok {
		return false
	}
	b, ok := c.Call.Value.(*ssa.Builtin)
	if !ok || b.Name() != "append" {
		return false
	}
	el := appendedSingle(c.Call.Args[1])
	if el == nil {
		return false
	}
	ta, ok := el.(*ssa.TypeAssert)
	if !ok {
		return false
	}
	call, ok := ta.X.(*ssa.Call)
	return ok && methodName(call) == "GetPartitionOwner"
}

func c13RingFollowsMembership(r *core.Run) {
	fn := r.Need("ring-follows-membership", fnProcessEvent)
	if fn == nil {
		return
	}
	cnt := 0
	n := counter{}
	for _, sf := range core.AllSSA(fn.SSA) {
		isMem := func(name string) instrPred {
			return func(in ssa.Instruction) bool {
				c, ok := in.(ssa.CallInstruction)
				if !ok {
					return false
				}
				o := core.CalleeObj(c)
				return o != nil && core.QualName(o) == rtPkg+".(*Members)."+name
			}
		}
		isRing := func(name string) instrPred {
			return func(in ssa.Instruction) bool {
				c, ok := in.(ssa.CallInstruction)
				if !ok {
					return false
				}
				return methodName(c) == name && len(c.Common().Args) > 0 && core.LastField(c.Common().Args[0]) == "consistent"
			}
		}
		for _, pair := range [][2]string{{"Delete", "Remove"}, {"DeleteByName", "Remove"}, {"Add", "Add"}} {
			for _, m := range findInstrs(sf, false, isMem(pair[0])) {
				cnt++
				ok := false
				for _, rg := range findInstrs(sf, false, isRing(pair[1])) {
					if rg.Block() == m.Block() || core.Dominates(m, rg) && postDominatesSimple(rg, m) {
						ok = true
					}
				}
				r.Check(ok, "ring-follows-membership", n.next(fnName(r.P, sf)+" Members()."+pair[0]), site(r, instrPos(m)),
					"paired with consistent."+pair[1]+" in the same block", "the member table is changed without the same change on the consistent-hash ring: the ring keeps (or lacks) a member the table does not, so the coordinator keeps assigning partitions to a departed identity")
			}
		}
	}
	r.Floor("ring-follows-membership", cnt, 4)
}

// postDominatesSimple: b executes whenever a did, approximated by "same block or b's
// block is the unique successor chain of a's block".
func postDominatesSimple(b, a ssa.Instruction) bool {
	blk := a.Block()
	for i := 0; i < 4; i++ {
		if blk == b.Block() {
			return true
		}
		if len(blk.Succs) != 1 {
			return false
		}
		blk = blk.Succs[0]
	}
	return false
}
