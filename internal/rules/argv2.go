package rules

import (
	"golang.org/x/tools/go/ssa"

	"olricvet/internal/core"
)

// ensures returns the lower bound on len(par) that holds at every success-capable return
// of helper h (0 if h has none): the post-condition a caller may rely on after testing
// the helper's error result for nil.
func (a *argv) ensures(h *ssa.Function, par *ssa.Parameter) int {
	if core.ErrIndex(h) < 0 {
		return 0
	}
	pt := passThrough(a.p)
	min := inf
	any := false
	for _, ret := range core.Returns(h) {
		if !core.SuccessCapable(ret, pt) {
			continue
		}
		any = true
		if l := a.refineKey(a.canon(par), ret.Block()); l < min {
			min = l
		}
	}
	if !any || min == inf {
		return 0
	}
	return min
}
