package rules

import (
	"fmt"
	"go/types"

	"golang.org/x/tools/go/ssa"

	"olricvet/internal/core"
)

// lockPairing: fragment-lock operations are paired inside one function:
//   - every release (explicit or deferred) is dominated by an acquire of the same kind in
//     the same function — a callee never releases a lock its caller took;
//   - an acquire is never deferred;
//   - after every acquire each return is preceded by a release or a deferred release.
func lockPairing(r *core.Run) {
	p := r.P
	cnt := 0
	for _, fn := range p.FuncList {
		if fn.SSA == nil || skipPkg(fn) {
			continue
		}
		for _, f := range core.AllSSA(fn.SSA) {
			type op struct {
				in     ssa.Instruction
				name   string
				defer_ bool
			}
			var ops []op
			core.Instrs(f, func(in ssa.Instruction) {
				c, ok := in.(ssa.CallInstruction)
				if !ok {
					return
				}
				if name, ok := isFragmentMutexOp(c); ok {
					_, d := in.(*ssa.Defer)
					ops = append(ops, op{in, name, d})
				}
			})
			// releases inside deferred closures of this function count as deferred releases of f
			for _, an := range f.AnonFuncs {
				_, mode := closureUse(an)
				if mode != "defer" {
					continue
				}
				core.Instrs(an, func(in ssa.Instruction) {
					c, ok := in.(ssa.CallInstruction)
					if !ok {
						return
					}
					if name, ok := isFragmentMutexOp(c); ok && (name == "Unlock" || name == "RUnlock") {
						// position: the Defer instruction in f that registers the closure
						core.Instrs(f, func(d ssa.Instruction) {
							if df, ok := d.(*ssa.Defer); ok {
								if mc, ok := df.Call.Value.(*ssa.MakeClosure); ok && mc.Fn == ssa.Value(an) {
									ops = append(ops, op{d, name, true})
								}
							}
						})
					}
				})
			}
			if len(ops) == 0 {
				continue
			}
			cnt++
			n := counter{}
			for _, o := range ops {
				key := n.next(fnName(p, f) + " " + o.name)
				where := site(r, instrPos(o.in))
				switch o.name {
				case "Lock", "RLock":
					if o.defer_ {
						r.Bad("lock-pairing", key, where, "the fragment lock is acquired by a deferred call: the function body runs without it and the caller's region is split")
						continue
					}
					rel := "Unlock"
					if o.name == "RLock" {
						rel = "RUnlock"
					}
					// every return after the acquire passes a release of the same kind (explicit, or deferred and registered)
					isRel := func(in ssa.Instruction) bool {
						for _, q := range ops {
							if q.in == in && q.name == rel {
								return true
							}
						}
						return false
					}
					ret := core.ReachesReturnFrom(o.in, isRel, func(*ssa.Return) bool { return true })
					r.Check(ret == nil, "lock-pairing", key, where, "every return after the acquire is preceded by "+rel+" (explicit or deferred)",
						"a return is reachable after the acquire without releasing the fragment lock: the next operation on this fragment blocks forever")
				default:
					acq := "Lock"
					if o.name == "RUnlock" {
						acq = "RLock"
					}
					okDom := false
					for _, q := range ops {
						if q.name == acq && !q.defer_ && core.Dominates(q.in, o.in) {
							okDom = true
						}
					}
					r.Check(okDom, "lock-pairing", key, where, "dominated by "+acq+" in the same function",
						fmt.Sprintf("%s without a dominating %s in the same function: the function releases a lock its caller holds, so the caller's critical section (condition check, local write, replication) is split and a concurrent writer can slip in", o.name, acq))
				}
			}
		}
	}
	r.Floor("lock-pairing", cnt, 10)
}

// replicationUnderLock: the synchronous replication sends of a primary mutation happen
// while the fragment write lock is held (so backups receive mutations of one key in the
// order the primary applied them).
func replicationUnderLock(r *core.Run, la *lockAnalysis) {
	p := r.P
	fns := []string{
		"internal/dmap.(*DMap).syncPutOnCluster",
		"internal/dmap.(*DMap).deleteBackupOnCluster",
		"internal/dmap.(*DMap).deleteFromPreviousOwners",
	}
	isProcess := core.Named("github.com/redis/go-redis/v9.(*Client).Process")
	for _, name := range fns {
		fn := r.Need("replication-under-lock", name)
		if fn == nil {
			continue
		}
		// level held inside fn = what its callers provide (requires-held of the function
		// itself tells us the callers hold at least that) combined with local operations.
		entry := la.minCallerLevel(fn.SSA)
		n := counter{}
		cnt := 0
		var walk func(f *ssa.Function, entry int)
		walk = func(f *ssa.Function, entry int) {
			stateAt := map[ssa.Instruction]int{}
			send := viaHelpers(p, f, func(in ssa.Instruction) bool {
				c, ok := in.(ssa.CallInstruction)
				if !ok {
					return false
				}
				o := core.CalleeObj(c)
				return o != nil && isProcess(o)
			})
			la.flow(f, entry, func(in ssa.Instruction, st int) {
				stateAt[in] = st
				if _, ok := in.(ssa.CallInstruction); !ok {
					return
				}
				if send(in) {
					cnt++
					key := n.next(name + " Process (replication send)")
					r.Check(st == lkWrite, "replication-under-lock", key, site(r, instrPos(in)),
						"sent while the fragment write lock is held",
						"the replication command is sent while the fragment write lock is not held (released by this function or never taken by a caller): two mutations of one key can reach a backup in the opposite order to the primary's, leaving the copies different after both were acknowledged")
				}
			})
			for _, an := range f.AnonFuncs {
				mc, mode := closureUse(an)
				if mode == "sync" && mc != nil {
					walk(an, stateAt[mc])
				} else if mode == "sync" {
					walk(an, entry)
				} else {
					walk(an, lkNone)
				}
			}
		}
		walk(fn.SSA, entry)
		r.Floor("replication-under-lock("+fn.Obj.Name()+")", cnt, 1)
	}
	_ = p
}

// minCallerLevel: the minimum lock level held at any static call site of f (transitively
// through callers that hold nothing themselves, up to depth 3).
func (la *lockAnalysis) minCallerLevel(f *ssa.Function) int {
	return la.callerLevel(f, 0, map[*ssa.Function]int{})
}

func (la *lockAnalysis) callerLevel(f *ssa.Function, depth int, memo map[*ssa.Function]int) (res int) {
	if v, ok := memo[f]; ok {
		return v // 3 while in progress: neutral for the minimum
	}
	if depth > 4 {
		return lkNone
	}
	memo[f] = 3
	defer func() { memo[f] = res }()
	obj, _ := f.Object().(*types.Func)
	if obj == nil {
		return lkNone
	}
	min := 3
	sites := 0
	for _, caller := range la.r.P.FuncList {
		if caller.SSA == nil {
			continue
		}
		for _, sf := range core.AllSSA(caller.SSA) {
			has := false
			core.Instrs(sf, func(in ssa.Instruction) {
				if c, ok := in.(ssa.CallInstruction); ok && core.CalleeObj(c) == obj {
					has = true
				}
			})
			if !has {
				continue
			}
			entry := lkNone
			if sf.Parent() != nil {
				if e, ok := la.closureEntry[sf]; ok {
					entry = e
				}
			}
			la.flow(sf, entry, func(in ssa.Instruction, st int) {
				c, ok := in.(ssa.CallInstruction)
				if !ok || core.CalleeObj(c) != obj {
					return
				}
				if _, isGo := in.(*ssa.Go); isGo {
					st = lkNone
				}
				sites++
				lvl := st
				if lvl == lkNone && sf.Parent() == nil {
					// maybe the caller itself is always called with the lock
					lvl = la.callerLevel(sf, depth+1, memo)
				}
				if lvl < min {
					min = lvl
				}
			})
		}
	}
	if sites == 0 || min == 3 {
		return lkNone
	}
	return min
}
