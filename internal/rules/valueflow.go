package rules

import (
	"fmt"

	"golang.org/x/tools/go/ssa"

	"olricvet/internal/core"
)

// valueOnlyEncoded checks that a caller-supplied value (parameter par) flows only into
// the RESP encoder or into functions that in turn satisfy the same condition for the
// corresponding parameter (listed Put/GetPut layers, or small helpers — followed two
// levels deep). Returns "" when it holds, otherwise a description of the escaping use.
func valueOnlyEncoded(p *core.Prog, par *ssa.Parameter, okCallee map[string]bool, depth int) string {
	vals := []ssa.Value{par}
	seen := map[ssa.Value]bool{par: true}
	for len(vals) > 0 {
		v := vals[0]
		vals = vals[1:]
		refs := v.Referrers()
		if refs == nil {
			continue
		}
		for _, ref := range *refs {
			switch x := ref.(type) {
			case *ssa.DebugRef, *ssa.BinOp:
			case *ssa.Phi:
				if !seen[x] {
					seen[x] = true
					vals = append(vals, x)
				}
			case *ssa.TypeAssert:
				// type switches on the value: the asserted value is the same data
				if !seen[x] {
					seen[x] = true
					vals = append(vals, x)
				}
			case *ssa.Extract:
				if !seen[x] {
					seen[x] = true
					vals = append(vals, x)
				}
			case *ssa.If:
			case ssa.CallInstruction:
				if _, isGo := x.(*ssa.Go); isGo {
					return "is handed to a goroutine"
				}
				o := core.CalleeObj(x)
				if o != nil && okCallee[core.QualName(o)] {
					continue
				}
				if b, isB := x.Common().Value.(*ssa.Builtin); isB && (b.Name() == "len" || b.Name() == "cap") {
					continue
				}
				// a repository helper: follow the corresponding parameter
				h := p.ByObj[o]
				if h == nil || h.SSA == nil || depth >= 2 {
					return "is passed to " + calleeName(x)
				}
				args := x.Common().Args
				for i, a := range args {
					if a != v || i >= len(h.SSA.Params) {
						continue
					}
					if why := valueOnlyEncoded(p, h.SSA.Params[i], okCallee, depth+1); why != "" {
						return "is passed to " + calleeName(x) + ", where it " + why
					}
				}
			case *ssa.Return:
				return "is returned (and kept by the caller)"
			case *ssa.Store:
				return "is stored into a variable or heap object"
			case *ssa.MakeInterface, *ssa.ChangeInterface:
				if vv, ok := ref.(ssa.Value); ok && !seen[vv] {
					seen[vv] = true
					vals = append(vals, vv)
				}
			default:
				return fmt.Sprintf("flows into %T", ref)
			}
		}
	}
	return ""
}
