package rules

import (
	"sort"
	"strings"

	"olricvet/internal/core"
)

// c19DestroyLayers: Destroy is a two-level protocol. The member that receives
// DM.DESTROY <name> (any client path) fans DM.DESTROY <name> LC out to EVERY member of its
// live member list, itself included, over the wire; the LC handler resolves (or
// re-creates) the DMap object first and then removes every fragment of that name from
// every partition. Two shortcuts break it silently:
//   - calling destroyLocalDMap directly for this member skips the handler's
//     getOrCreateDMap: once the name was unregistered by an earlier Destroy, the local pass
//     skips every partition and the keys written since survive;
//   - fanning the LC form out from a client (from its cached routing table) misses members
//     that joined since the table was fetched: LC is never forwarded.
//
// Rule: destroyLocalDMap is called only by the DM.DESTROY handler, and the LC form of the
// command is built only by destroyOnCluster (and decoded by the parser).
func c19DestroyLayers(r *core.Run) {
	const rule = "destroy-layers"
	p := r.P
	check := func(target string, allowed map[string]string, what, bad string) {
		t := r.Need(rule, target)
		if t == nil {
			return
		}
		var callers []string
		for _, cs := range p.CallersOf(t.Obj) {
			callers = append(callers, cs.Caller.Name)
		}
		sort.Strings(callers)
		var foreign []string
		for _, c := range callers {
			if _, ok := allowed[c]; !ok {
				foreign = append(foreign, c)
			}
		}
		r.Check(len(foreign) == 0 && len(callers) > 0, rule, what, site(r, t.SSA.Pos()),
			"called only by "+strings.Join(callers, ", "),
			bad+" (callers outside the protocol: "+strings.Join(foreign, ", ")+")")
	}
	check(fnDestroyLocal, map[string]string{dmapPkg + ".(*Service).destroyCommandHandler": ""},
		"who calls destroyLocalDMap",
		"the local destroy pass is entered without going through the DM.DESTROY LC handler, which resolves or re-creates the DMap first: after an earlier Destroy unregistered the name the pass skips every partition and the new keys survive")
	check("internal/protocol.(*Destroy).SetLocal", map[string]string{fnDestroyCluster: "", "internal/protocol.ParseDestroyCommand": ""},
		"who builds DM.DESTROY LC",
		"the member-local form of DM.DESTROY is sent by something other than the server-side fan-out over the live member list: members the sender does not know about (a client's cached routing table) keep their fragments")
}
