package rules

import (
	"go/token"
	"strings"

	"golang.org/x/tools/go/ssa"

	"olricvet/internal/core"
)

// c13DefaultsOnlyWhenUnset: the configuration values that shape the routing table and the
// quorums (LoadFactor, PartitionCount, ReplicaCount, ReadQuorum, WriteQuorum,
// MemberCountQuorum) are replaced by their defaults only when they are unset (zero).
// A guard such as `LoadFactor < DefaultLoadFactor` silently overrides an explicit, valid
// setting: the ring then balances with another bound than the configured one, on every
// member alike, for ever.
func c13DefaultsOnlyWhenUnset(r *core.Run) {
	const rule = "defaults-only-when-unset"
	fields := map[string]bool{"LoadFactor": true, "PartitionCount": true, "ReplicaCount": true,
		"ReadQuorum": true, "WriteQuorum": true, "MemberCountQuorum": true}
	fn := r.Need(rule, "config.(*Config).Sanitize")
	if fn == nil {
		return
	}
	cnt := 0
	n := counter{}
	core.Instrs(fn.SSA, func(in ssa.Instruction) {
		st, ok := in.(*ssa.Store)
		if !ok || !fields[core.LastField(st.Addr)] {
			return
		}
		if _, isConst := core.StripConv(st.Val).(*ssa.Const); !isConst {
			return
		}
		f := core.LastField(st.Addr)
		cnt++
		ok2, why := false, "the default is assigned without a test of the field"
		for _, cd := range core.Conditions(in.Block()) {
			bin, isBin := cd.Val.(*ssa.BinOp)
			if !isBin || !core.IsCompare(bin.Op) {
				continue
			}
			var k *ssa.Const
			switch {
			case core.LastField(bin.X) == f:
				k, _ = core.StripConv(bin.Y).(*ssa.Const)
			case core.LastField(bin.Y) == f:
				k, _ = core.StripConv(bin.X).(*ssa.Const)
			default:
				continue
			}
			zero := k != nil && k.Value != nil && (k.Value.String() == "0" || k.Value.String() == "0.0")
			isUnset := (bin.Op == token.EQL && cd.Truth) || (bin.Op == token.NEQ && !cd.Truth)
			if zero && isUnset {
				ok2, why = true, "assigned only when the field is zero (unset)"
			} else {
				why = "the default is assigned under a test other than 'the field is zero': an explicitly configured value is silently replaced"
			}
		}
		r.Check(ok2, rule, n.next(fn.Name+" default of "+f), site(r, instrPos(in)), why,
			why+" — every member and client then works with another "+f+" than the one configured")
	})
	r.Floor(rule, cnt, 4)
}

// c13BackupOwnersPruned: the backup owners of a partition are recomputed from the current
// list on every routing update: departed and re-joined members are removed (the loop that
// asks discovery for each listed member) before the list is returned. The only lists that
// may be returned without passing that loop are nil (the ring could not answer) and the
// list built from scratch when there was no previous owner at all.
func c13BackupOwnersPruned(r *core.Run) {
	const rule = "backup-owners-pruned"
	fn := r.Need(rule, rtPkg+".(*RoutingTable).distributeBackups")
	if fn == nil {
		return
	}
	f := fn.SSA
	// the prune loop: the innermost loop containing the discovery lookup (it edits the list
	// while walking it, so it is not a plain counting loop)
	type hdr struct{ Header *ssa.BasicBlock }
	var prune *hdr
	best := 0
	for _, c := range findInstrs(f, false, callNamed("FindMemberByName")) {
		for _, h := range f.Blocks {
			back := false
			for _, pr := range h.Preds {
				if h.Dominates(pr) {
					back = true
				}
			}
			if !back {
				continue
			}
			body := core.NaturalLoop(h)
			if body[c.Block()] && (prune == nil || len(body) < best) {
				prune, best = &hdr{h}, len(body)
			}
		}
	}
	if prune == nil {
		r.Unknown(rule, fn.Name+" prune loop", site(r, f.Pos()), "no loop over the current backup owners that asks discovery for each member recognised")
		return
	}
	fromRing := func(v ssa.Value) bool {
		for i := 0; i < 6 && v != nil; i++ {
			switch x := v.(type) {
			case *ssa.Slice:
				v = x.X
			case *ssa.Extract:
				v = x.Tuple
			case *ssa.Phi:
				if len(x.Edges) == 0 {
					return false
				}
				v = x.Edges[0]
			case *ssa.Call:
				return methodName(x) == "getReplicaOwners"
			default:
				return false
			}
		}
		return false
	}
	cnt := 0
	n := counter{}
	for _, ret := range core.Returns(f) {
		v := core.ResultValue(ret, 0)
		if k, isK := v.(*ssa.Const); isK && k.IsNil() {
			continue
		}
		cnt++
		key := n.next(fn.Name + " returned list")
		if prune.Header.Dominates(ret.Block()) {
			r.OK(rule, key, site(r, instrPos(ret)), "returned after the prune loop")
			continue
		}
		firstRun := false
		for _, cd := range core.Conditions(ret.Block()) {
			bin, isBin := cd.Val.(*ssa.BinOp)
			if !isBin {
				continue
			}
			l := lenArg(bin.X)
			k, isK := bin.Y.(*ssa.Const)
			if l == nil || !isK || k.Value == nil || k.Int64() != 0 {
				continue
			}
			if ((bin.Op == token.EQL && cd.Truth) || (bin.Op == token.NEQ && !cd.Truth)) && !fromRing(l) {
				firstRun = true
			}
		}
		r.Check(firstRun, rule, key, site(r, instrPos(ret)),
			"returned without pruning only when there was no previous backup owner",
			"a list of backup owners is returned without removing departed or re-joined members from it (and not because the previous list was empty): a member that left stays listed as backup owner on every member and client until the next join")
	}
	r.Floor(rule, cnt, 2)
}

// fragmentStatsTruthful: the coordinator prunes a previous owner from a partition's owners
// list when that member reports that it holds nothing (LENGTHOFPART -> Partition.Length ->
// fragment.Stats), and the balancer skips fragments that report empty. The report must
// therefore be the storage engine's own statistics under the fragment's read lock — never
// a made-up "empty" because the fragment is busy (a transfer in flight): the owner would be
// pruned while it still holds tables, reads miss those keys and a delete does not reach
// them.
func fragmentStatsTruthful(r *core.Run) {
	const rule = "fragment-stats-truthful"
	fn := r.Need(rule, dmapPkg+".(*fragment).Stats")
	if fn == nil {
		return
	}
	f := fn.SSA
	cnt := 0
	n := counter{}
	for _, ret := range core.Returns(f) {
		cnt++
		v := core.ResultValue(ret, 0)
		c, ok := v.(*ssa.Call)
		good := ok && engineCall("Stats")(c)
		r.Check(good, rule, n.next(fn.Name+" result"), site(r, instrPos(ret)),
			"the fragment reports the storage engine's statistics",
			"the fragment can report statistics that are not the storage engine's (for example an empty record when the lock is busy): a previous owner that still holds data is pruned from the owners list, its keys become unreadable and undeletable until the fragment moves")
	}
	blocking := len(findInstrs(f, false, func(in ssa.Instruction) bool {
		op, ok := isFragmentMutexOp2(in)
		return ok && op == "RLock"
	})) > 0
	r.Check(blocking, rule, fn.Name+" waits for the lock", site(r, f.Pos()),
		"the statistics are read under the fragment's (blocking) read lock", "the statistics are not read under a blocking read lock of the fragment")
	r.Floor(rule, cnt, 1)
}

func isFragmentMutexOp2(in ssa.Instruction) (string, bool) {
	c, ok := in.(ssa.CallInstruction)
	if !ok {
		return "", false
	}
	return isFragmentMutexOp(c)
}

// configSanitizeFillsOnly: Sanitize completes a configuration: it may give a field a value
// only where that field was found unset (a test of the same field guards the store). A
// store to a field under a test of some other field rewrites what the user configured —
// for example switching ReadRepair off because ReplicaCount is 1, although read repair also
// brings the owner's own copy up to date from previous owners.
func configSanitizeFillsOnly(r *core.Run, rule string) {
	fn := r.Need(rule, "config.(*Config).Sanitize")
	if fn == nil {
		return
	}
	f := fn.SSA
	recv := ssa.Value(nil)
	if len(f.Params) > 0 {
		recv = f.Params[0]
	}
	cnt := 0
	n := counter{}
	core.Instrs(f, func(in ssa.Instruction) {
		st, ok := in.(*ssa.Store)
		if !ok || in.Parent() != f {
			return
		}
		fa, isFA := st.Addr.(*ssa.FieldAddr)
		if !isFA || fa.X != recv {
			return
		}
		field := core.LastField(fa)
		cnt++
		guarded := false
		var mentions bool
		var walk func(v ssa.Value, d int)
		walk = func(v ssa.Value, d int) {
			if d > 6 || v == nil {
				return
			}
			if core.LastField(v) == field {
				mentions = true
			}
			switch x := v.(type) {
			case *ssa.BinOp:
				walk(x.X, d+1)
				walk(x.Y, d+1)
			case *ssa.UnOp:
				walk(x.X, d+1)
			case *ssa.Call:
				for _, a := range x.Call.Args {
					walk(a, d+1)
				}
			case *ssa.Convert:
				walk(x.X, d+1)
			case *ssa.Extract:
				walk(x.Tuple, d+1)
			case *ssa.Phi:
				for _, e := range x.Edges {
					walk(e, d+1)
				}
			}
		}
		for _, cd := range core.Conditions(in.Block()) {
			mentions = false
			walk(cd.Val, 0)
			if mentions {
				guarded = true
			}
		}
		// or the new value is computed from the field's own value (c.BindAddr = resolve(c.BindAddr))
		mentions = false
		walk(st.Val, 0)
		if mentions {
			guarded = true
		}
		r.Check(guarded, rule, n.next(fn.Name+" sets "+field), site(r, instrPos(in)),
			"set only under a test of the field itself (an unset value is filled in) or from its own value",
			"Sanitize assigns "+field+" without having tested "+field+" itself: a value the user configured is silently replaced because of some other setting")
	})
	r.Floor(rule, cnt, 10)
}

// c13PeriodicPushEverywhere: the periodic re-push of the routing table is started on every
// member. Whether a member is the coordinator is decided anew on every tick (inside the
// loop); tying the START of the loop to "is the coordinator now" leaves a member that
// becomes coordinator after a failover without any periodic push: owners lists are never
// pruned and a rejected push is never retried.
func c13PeriodicPushEverywhere(r *core.Run) {
	const rule = "periodic-push-on-every-member"
	fn := r.Need(rule, rtPkg+".(*RoutingTable).Start")
	if fn == nil {
		return
	}
	cnt := 0
	core.Instrs(fn.SSA, func(in ssa.Instruction) {
		g, ok := in.(*ssa.Go)
		if !ok {
			return
		}
		o := core.CalleeObj(g)
		if o == nil || core.QualName(o) != rtPkg+".(*RoutingTable).pushPeriodically" {
			return
		}
		cnt++
		conditional := false
		for _, cd := range core.Conditions(in.Block()) {
			if c, isC := cd.Val.(*ssa.Call); isC && methodName(c) == "IsCoordinator" {
				conditional = true
			}
		}
		r.Check(!conditional, rule, fn.Name+" starts the periodic push", site(r, instrPos(in)),
			"started on every member (the coordinator test is made on every tick)",
			"the periodic push is started only where the member is the coordinator at start-up: a member that becomes coordinator later never re-pushes the table between membership events")
	})
	r.Floor(rule, cnt, 1)
}

// c13ReplicaOwnersDegrade: when fewer members are alive than ReplicaCount, a partition still
// gets as many distinct owners as there are members: the ring is asked for ReplicaCount
// owners, then ReplicaCount-1, ... down to 1. Falling back from ReplicaCount straight to
// "primary only" leaves every partition without any backup while 2 <= members <
// ReplicaCount.
func c13ReplicaOwnersDegrade(r *core.Run) {
	const rule = "replica-owners-degrade-stepwise"
	fn := r.Need(rule, rtPkg+".(*RoutingTable).getReplicaOwners")
	if fn == nil {
		return
	}
	f := fn.SSA
	ok, why := false, "no loop that asks the ring for ReplicaCount, ReplicaCount-1, ... owners"
	for _, b := range f.Blocks {
		for _, in := range b.Instrs {
			phi, isPhi := in.(*ssa.Phi)
			if !isPhi || len(phi.Edges) < 2 {
				continue
			}
			var init, step ssa.Value
			for i, e := range phi.Edges {
				if b.Dominates(b.Preds[i]) {
					step = e
				} else {
					init = e
				}
			}
			sb, isBin := step.(*ssa.BinOp)
			if init == nil || !isBin || sb.Op != token.SUB || sb.X != ssa.Value(phi) {
				continue
			}
			if k, isK := sb.Y.(*ssa.Const); !isK || k.Value == nil || k.Int64() != 1 {
				continue
			}
			if core.LastField(core.StripConv(init)) != "ReplicaCount" {
				continue
			}
			// the counter is the number of owners requested from the ring
			asks := false
			core.Instrs(f, func(x ssa.Instruction) {
				c, isCall := x.(ssa.CallInstruction)
				if !isCall || !strings.HasPrefix(methodName(c), "GetClosestN") {
					return
				}
				for _, a := range c.Common().Args {
					if core.StripConv(a) == ssa.Value(phi) {
						asks = true
					}
				}
			})
			if asks {
				ok, why = true, "the ring is asked for ReplicaCount owners, then one fewer, down to one"
			}
		}
	}
	r.Check(ok, rule, fn.Name, site(r, f.Pos()), why,
		"getReplicaOwners does not step the requested owner count down from ReplicaCount one by one: with fewer live members than ReplicaCount (but more than one) partitions get no backup owner at all")
}

// engineBuiltFromEffectiveConfig: the storage engine prototype every fragment is forked
// from is built from the EFFECTIVE configuration (the user's settings with the defaults
// filled in), not from the defaults alone: Fork takes the scan cursor's stride (tableSize)
// from the forked configuration but sizes the first table like the parent's, so a parent
// built from other settings gives fragments whose cursor arithmetic does not match their
// tables — full scans end early.
func engineBuiltFromEffectiveConfig(r *core.Run, rule string) {
	fn := r.Need(rule, "config.(*Engine).Sanitize")
	if fn == nil {
		return
	}
	cnt := 0
	for _, c := range findInstrs(fn.SSA, false, callTo(kvPkg+".New")) {
		cnt++
		args := c.(ssa.CallInstruction).Common().Args
		ok := false
		if len(args) == 1 {
			if nc, isCall := args[0].(*ssa.Call); isCall {
				if o := core.CalleeObj(nc); o != nil && core.QualName(o) == "pkg/storage.NewConfig" && len(nc.Call.Args) == 1 && core.LastField(nc.Call.Args[0]) == "Config" {
					ok = true
				}
			}
		}
		r.Check(ok, rule, fn.Name+" builds the engine", site(r, instrPos(c)),
			"kvstore.New(storage.NewConfig(s.Config)): the merged configuration",
			"the default storage engine is not built from the engine's merged configuration (s.Config): fragments forked from it combine the configured cursor stride with tables of another size, and a full scan stops before it has seen every key")
	}
	r.Floor(rule, cnt, 1)
}
