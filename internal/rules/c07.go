package rules

import (
	"fmt"
	"go/token"
	"go/types"
	"strings"

	"golang.org/x/tools/go/ssa"

	"olricvet/internal/core"
)

const (
	fnLockerLock   = "internal/locker.(*Locker).Lock"
	fnLockerUnlock = "internal/locker.(*Locker).Unlock"
	fnDMapGet      = dmapPkg + ".(*DMap).Get"
	fnDMapPut      = dmapPkg + ".(*DMap).put"
)

func init() {
	register(&Property{
		ID: "C07",
		Explain: "Static structural necessary conditions of 'Incr/Decr/IncrByFloat/GetPut are atomic across all clients' (fairness and the value chain itself are NOT decided; the latter follows from C01 plus these): " +
			"(rmw-lock-pairing) every read-modify-write section takes the per-key lock, releases the same key in a deferred function, and both its read (Get) and its write (put/deleteKeys/Expire) are dominated by the Lock; " +
			"(rmw-owner-routed) the per-key lock is node-local, so every Lock call is reached only on the true edge of the owner test (in the function itself or in all of its callers) and the other edge forwards the operation to the owner; " +
			"(rmw-lock-key) every section derives the lock name from the same canonical sequence (DMap name, key) — sections that used different names would not exclude each other; " +
			"(client-targets-owner) every single-key operation of the cluster client and of the pipeline picks its connection through smartPick / the key's partition; " +
			"(replica-stores-verbatim) shared with C04: a backup never drops or reorders an entry shipped by the owner.",
		Run: func(r *core.Run) {
			c07RequestStateNotShared(r)
			c07TimestampAfterKeyLock(r)
			pipelineIndex(r)
			c07LockSections(r)
			c07ClientTargetsOwner(r)
			c04ReplicaVerbatim(r)
			putDoesNotRetain(r)
			c02ReplicateBeforeAck(r)
		},
	})
}

// lockKeyShape canonicalises a lock-name expression into a sequence of parts.
func lockKeyShape(p *core.Prog, v ssa.Value, subst map[*ssa.Parameter]ssa.Value, depth int) []string {
	v = canonVal(v)
	switch x := v.(type) {
	case *ssa.BinOp:
		if x.Op == token.ADD {
			return append(lockKeyShape(p, x.X, subst, depth), lockKeyShape(p, x.Y, subst, depth)...)
		}
	case *ssa.Const:
		if x.Value != nil {
			return []string{"const:" + x.Value.ExactString()}
		}
	case *ssa.Parameter:
		if s, ok := subst[x]; ok {
			return lockKeyShape(p, s, nil, depth)
		}
		return []string{classifyName(x.Name())}
	case *ssa.UnOp:
		if f := core.LastField(x); f != "" {
			return []string{classifyName(f)}
		}
	case *ssa.Call:
		if depth < 2 {
			if o := core.CalleeObj(x); o != nil {
				if h := p.ByObj[o]; h != nil && h.SSA != nil {
					rets := core.Returns(h.SSA)
					if len(rets) == 1 && len(rets[0].Results) == 1 {
						sub := map[*ssa.Parameter]ssa.Value{}
						args := x.Call.Args
						for i, pa := range h.SSA.Params {
							if i < len(args) {
								sub[pa] = args[i]
							}
						}
						return lockKeyShape(p, rets[0].Results[0], sub, depth+1)
					}
				}
			}
		}
	}
	return []string{"?"}
}

func classifyName(n string) string {
	switch strings.ToLower(n) {
	case "dmap", "name":
		return "dmap"
	case "key":
		return "key"
	}
	return "other:" + n
}

func c07LockSections(r *core.Run) {
	p := r.P
	type section struct {
		fn   *core.Fn
		lock ssa.CallInstruction
	}
	var secs []section
	for _, fn := range p.FuncList {
		if fn.SSA == nil || skipPkg(fn) || core.RelPkg(fn.Pkg.PkgPath) == "internal/locker" {
			continue
		}
		for _, c := range findInstrs(fn.SSA, false, callTo(fnLockerLock)) {
			secs = append(secs, section{fn, c.(ssa.CallInstruction)})
		}
	}
	r.Floor("rmw-lock-pairing(sections)", len(secs), 3) // five today; sections may legitimately be merged
	var shapes []string
	for _, s := range secs {
		f := s.fn.SSA
		args := s.lock.Common().Args
		key := args[len(args)-1]
		where := site(r, instrPos(s.lock))

		// (1) deferred unlock of the same key
		paired := false
		for _, an := range f.AnonFuncs {
			_, mode := closureUse(an)
			if mode != "defer" {
				continue
			}
			for _, u := range findInstrs(an, false, callTo(fnLockerUnlock)) {
				ua := u.(ssa.CallInstruction).Common().Args
				if canonVal(ua[len(ua)-1]) == canonVal(key) {
					paired = true
				}
			}
		}
		for _, u := range findInstrs(f, false, callTo(fnLockerUnlock)) {
			if _, isDefer := u.(*ssa.Defer); isDefer {
				ua := u.(ssa.CallInstruction).Common().Args
				if canonVal(ua[len(ua)-1]) == canonVal(key) {
					paired = true
				}
			}
		}
		// defer dm.releaseHelper(key, ...): a same-package function that unlocks its parameter
		core.Instrs(f, func(in ssa.Instruction) {
			d, isDefer := in.(*ssa.Defer)
			if !isDefer {
				return
			}
			h := p.ByObj[core.CalleeObj(d)]
			if h == nil || h.SSA == nil || h.Pkg.PkgPath != f.Pkg.Pkg.Path() {
				return
			}
			for _, u := range findInstrs(h.SSA, false, callTo(fnLockerUnlock)) {
				if _, nested := u.(*ssa.Defer); nested {
					continue
				}
				ua := u.(ssa.CallInstruction).Common().Args
				pa, isP := canonVal(ua[len(ua)-1]).(*ssa.Parameter)
				if !isP {
					continue
				}
				for i, hp := range h.SSA.Params {
					if hp == pa && i < len(d.Call.Args) && canonVal(d.Call.Args[i]) == canonVal(key) && u.Block() == h.SSA.Blocks[0] {
						paired = true
					}
				}
			}
		})
		// the defer is registered right after the lock: every return after Lock passes it
		r.Check(paired, "rmw-lock-pairing", s.fn.Name+" deferred Unlock", where,
			"the same key is released by a deferred function", "the per-key lock is not released by a deferred Unlock of the same key: a failing section leaves the key locked forever, or releases another key")

		// (2) the read and the write are inside the section
		reads := findEventsVia(p, f, callTo(fnDMapGet, dmapPkg+".(*DMap).loadCurrentAtomicInt", dmapPkg+".(*DMap).loadCurrentAtomicFloat"))
		writes := findEventsVia(p, f, callTo(fnDMapPut, dmapPkg+".(*DMap).deleteKeys", dmapPkg+".(*DMap).Expire"))
		inside := len(reads) >= 1 && len(writes) >= 1
		for _, x := range append(reads, writes...) {
			if !core.Dominates(s.lock, x) {
				inside = false
			}
		}
		r.Check(inside, "rmw-lock-pairing", s.fn.Name+" read and write inside the section", where,
			"the section's Get and its put/delete/expire are dominated by the Lock", "the read or the write of the read-modify-write sequence is outside the per-key lock: two callers can interleave and lose an update")

		// (3) owner routing
		why, ok := lockOwnerRouted(p, s.fn, s.lock.Block(), 0)
		r.Check(ok, "rmw-owner-routed", s.fn.Name+" locker.Lock", where, why,
			"the per-key lock is node-local but this Lock call can be reached on a member that does not own the key ("+why+"): callers on two members then run the read-modify-write concurrently and lose updates")

		// (3b) one locker per member: the lock table is the Service's, shared by every DMap
		// object and every entry point (a locker owned by the DMap object would split when
		// the object is re-created, e.g. after Destroy, while old handles are still in use)
		recvOK := false
		if len(args) >= 1 {
			recvOK = core.IsFieldLoad("Service", "locker")(canonVal(args[0]))
		}
		r.Check(recvOK, "rmw-lock-key", s.fn.Name+" locker identity", where,
			"the lock is taken in the Service's locker (one lock table per member)",
			"the per-key lock is not taken in the member-wide Service.locker: two lock tables for one key do not exclude each other (old and new DMap objects after Destroy, or different entry points), so read-modify-write sections interleave")
		// (4) lock name
		shape := strings.Join(lockKeyShape(p, key, nil, 0), " + ")
		shapes = append(shapes, shape)
		r.Check(shape == "dmap + key", "rmw-lock-key", s.fn.Name+" lock name", where,
			"lock name = DMap name + key", "the lock name is built as ["+shape+"], not as [dmap + key] like the other sections: sections with different names do not exclude each other (e.g. Incr and IncrByFloat on one key interleave)")
	}
	// the owner edge forwards
	for _, name := range []string{dmapPkg + ".(*DMap).atomicIncrDecr", dmapPkg + ".(*DMap).getPut", dmapPkg + ".(*DMap).atomicIncrByFloat", dmapPkg + ".(*DMap).Unlock", dmapPkg + ".(*DMap).Lease"} {
		fn := r.Need("rmw-owner-routed", name)
		if fn == nil {
			continue
		}
		// some Process call (directly or via a redirect helper) on the not-owner edge
		reach := reachableSSA(p, fn)
		fw := false
		for g := range reach {
			if len(findInstrs(g, true, callTo(fnRedisProcess))) > 0 {
				fw = true
			}
		}
		r.Check(fw, "rmw-owner-routed", name+" forwards", site(r, fn.SSA.Pos()), "the not-owner edge forwards the operation to the owner", "nothing is forwarded on the not-owner edge")
	}
}

func reachableSSA(p *core.Prog, fn *core.Fn) map[*ssa.Function]bool {
	out := map[*ssa.Function]bool{fn.SSA: true}
	for _, c := range findInstrs(fn.SSA, true, func(in ssa.Instruction) bool { _, ok := in.(ssa.CallInstruction); return ok }) {
		if o := core.CalleeObj(c.(ssa.CallInstruction)); o != nil {
			if g := p.ByObj[o]; g != nil && g.SSA != nil && core.RelPkg(g.Pkg.PkgPath) == dmapPkg {
				out[g.SSA] = true
			}
		}
	}
	return out
}

// lockOwnerRouted: block b of fn is reached only on the owner edge — in fn itself, or fn
// is only called from such edges (depth <= 2).
func lockOwnerRouted(p *core.Prog, fn *core.Fn, b *ssa.BasicBlock, depth int) (string, bool) {
	if underOwnerGuard(p, b) {
		return "on the true edge of the owner test in " + fn.Name, true
	}
	if depth >= 2 {
		return "no owner test on the call chain", false
	}
	sites := 0
	for _, caller := range p.FuncList {
		if caller.SSA == nil {
			continue
		}
		for _, sf := range core.AllSSA(caller.SSA) {
			for _, c := range findInstrs(sf, false, func(in ssa.Instruction) bool {
				ci, ok := in.(ssa.CallInstruction)
				return ok && core.CalleeObj(ci) == fn.Obj
			}) {
				sites++
				if _, ok := lockOwnerRouted(p, caller, c.Block(), depth+1); !ok {
					return fmt.Sprintf("caller %s at %s is not behind the owner test", caller.Name, p.Pos(instrPos(c))), false
				}
			}
		}
	}
	if sites == 0 {
		return "no owner test in " + fn.Name + " and no static callers", false
	}
	return fmt.Sprintf("every one of the %d callers of %s calls it on the true edge of the owner test", sites, fn.Name), true
}

// c07ClientTargetsOwner: ClusterDMap single-key operations use smartPick(dm.name, key).
func c07ClientTargetsOwner(r *core.Run) {
	p := r.P
	pkg := p.Pkg("olric")
	if pkg == nil {
		r.Unknown("client-targets-owner", "package olric", "-", "root package not loaded")
		return
	}
	cnt := 0
	for _, fn := range p.FuncList {
		if fn.Pkg != pkg || fn.SSA == nil {
			continue
		}
		sig := fn.Obj.Type().(*types.Signature)
		if sig.Recv() == nil {
			continue
		}
		n, ok := deref(sig.Recv().Type()).(*types.Named)
		if !ok || n.Obj().Name() != "ClusterDMap" || !fn.Obj.Exported() {
			continue
		}
		var keyParam *ssa.Parameter
		for _, pa := range fn.SSA.Params {
			if pa.Name() == "key" && types.Identical(pa.Type(), types.Typ[types.String]) {
				keyParam = pa
			}
		}
		if keyParam == nil {
			continue
		}
		procs := findInstrs(fn.SSA, true, callTo(fnRedisProcess))
		if len(procs) == 0 {
			continue // delegates (e.g. to another method)
		}
		cnt++
		picks := findInstrs(fn.SSA, true, callTo("olric.(*ClusterClient).smartPick"))
		ok2 := false
		for _, pk := range picks {
			args := pk.(ssa.CallInstruction).Common().Args
			if len(args) == 3 && args[2] == ssa.Value(keyParam) && core.LastField(args[1]) == "name" {
				ok2 = true
			}
		}
		r.Check(ok2, "client-targets-owner", fn.Name, site(r, fn.SSA.Pos()),
			"the connection is chosen with smartPick(dm.name, key)", "a single-key operation does not pick the connection of the key's partition owner with smartPick(dm.name, key)")
	}
	r.Floor("client-targets-owner", cnt, 8)
	// smartPick: partition = HKey(dmap, key) % partitionCount, then clientByPartID
	if fn := r.Need("client-targets-owner", "olric.(*ClusterClient).smartPick"); fn != nil {
		hk := findInstrs(fn.SSA, false, callTo("internal/cluster/partitions.HKey"))
		ok := len(hk) == 1
		if ok {
			a := hk[0].(ssa.CallInstruction).Common().Args
			ok = len(a) == 2
			if ok {
				p0, ok0 := a[0].(*ssa.Parameter)
				p1, ok1 := a[1].(*ssa.Parameter)
				ok = ok0 && ok1 && p0.Name() == "dmap" && p1.Name() == "key"
			}
		}
		r.Check(ok, "client-targets-owner", fn.Name+" HKey(dmap, key)", site(r, fn.SSA.Pos()), "the partition is computed from HKey(dmap, key)", "the partition is not computed from HKey(dmap, key) in that argument order")
	}
}
