package rules

import (
	"fmt"
	"os"

	"golang.org/x/tools/go/ssa"
)

func dbg(format string, a ...any) {
	if os.Getenv("OLRICVET_DEBUG") != "" {
		fmt.Fprintf(os.Stderr, "DEBUG "+format+"\n", a...)
	}
}

var _ = (*ssa.Function)(nil)
