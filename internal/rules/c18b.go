package rules

import (
	"go/token"
	"go/types"
	"strings"

	"golang.org/x/tools/go/ssa"

	"olricvet/internal/core"
)

func isStorageEntry(t types.Type) bool {
	nt, ok := t.(*types.Named)
	return ok && nt.Obj().Name() == "Entry" && nt.Obj().Pkg() != nil && strings.HasSuffix(nt.Obj().Pkg().Path(), "/pkg/storage")
}

// carriers collects the values the given value is read out of: loads, field and element
// addresses, tuple extracts and phis, down to the variable (or call result) that holds it.
func carriers(v ssa.Value, out map[ssa.Value]bool) {
	if v == nil || out[v] {
		return
	}
	out[v] = true
	switch x := v.(type) {
	case *ssa.UnOp:
		if x.Op == token.MUL {
			carriers(x.X, out)
		}
	case *ssa.FieldAddr:
		carriers(x.X, out)
	case *ssa.Field:
		carriers(x.X, out)
	case *ssa.IndexAddr:
		carriers(x.X, out)
	case *ssa.Phi:
		for _, e := range x.Edges {
			carriers(e, out)
		}
	case *ssa.ChangeInterface:
		carriers(x.X, out)
	case *ssa.MakeInterface:
		carriers(x.X, out)
	case *ssa.Alloc:
		// what was stored into the variable
		if refs := x.Referrers(); refs != nil {
			for _, ref := range *refs {
				if st, ok := ref.(*ssa.Store); ok && st.Addr == ssa.Value(x) {
					carriers(st.Val, out)
				}
			}
		}
	}
}

// c18ReturnedEntryNotShared: an entry handed to the caller is the caller's. A function of
// the read path that returns a storage.Entry must not leave a goroutine behind that still
// works on that entry (or on the record it is taken from): the embedded API returns the
// entry's value slice as is, so whatever the caller does with its result would be read,
// and written to the owners by a background repair, after Get returned.
func c18ReturnedEntryNotShared(r *core.Run) {
	const rule = "returned-entry-not-shared"
	p := r.P
	n := counter{}
	fns := 0
	for _, fn := range p.FuncList {
		if fn.SSA == nil || skipPkg(fn) {
			continue
		}
		if !strings.HasPrefix(fn.Name, dmapPkg+".") && !strings.HasPrefix(fn.Name, "olric.") {
			continue
		}
		res := fn.SSA.Signature.Results()
		idx := -1
		for i := 0; i < res.Len(); i++ {
			if isStorageEntry(res.At(i).Type()) {
				idx = i
			}
		}
		if idx < 0 {
			continue
		}
		fns++
		held := map[ssa.Value]bool{}
		core.Instrs(fn.SSA, func(in ssa.Instruction) {
			if ret, ok := in.(*ssa.Return); ok && idx < len(ret.Results) {
				if k, isK := ret.Results[idx].(*ssa.Const); isK && k.IsNil() {
					return
				}
				carriers(ret.Results[idx], held)
			}
		})
		bad := ""
		var where ssa.Instruction
		core.Instrs(fn.SSA, func(in ssa.Instruction) {
			g, ok := in.(*ssa.Go)
			if !ok {
				return
			}
			var handed []ssa.Value
			handed = append(handed, g.Call.Args...)
			if mc, isMC := g.Call.Value.(*ssa.MakeClosure); isMC {
				handed = append(handed, mc.Bindings...)
			}
			for _, h := range handed {
				if _, isK := h.(*ssa.Const); isK {
					continue
				}
				hs := map[ssa.Value]bool{}
				carriers(h, hs)
				for v := range hs {
					if _, isK := v.(*ssa.Const); isK {
						continue
					}
					if _, isPar := v.(*ssa.Parameter); isPar {
						continue
					}
					if held[v] {
						bad, where = h.Name(), in
					}
				}
			}
		})
		if where != nil {
			r.Bad(rule, n.next(fn.Name+" goroutine"), site(r, instrPos(where)),
				"a goroutine started here keeps working on the record ("+bad+") whose entry is returned to the caller: the caller's use of the returned value races with it, and a background read repair writes whatever the caller left in the returned bytes to the owners")
		} else {
			r.OK(rule, fn.Name, site(r, fn.SSA.Pos()), "no goroutine outlives the call holding the returned entry")
		}
	}
	r.Floor(rule, fns, 3)
}

// c18DecodedReplyNotPooled: Entry.Decode keeps sub-slices of the buffer it is given. The
// buffer a client decodes a reply from must therefore belong to that reply alone: never a
// buffer taken from the package's buffer pool, which the deferred pool.Put hands to the next
// request of anyone in the process — the value already handed back would change under
// its holder.
func c18DecodedReplyNotPooled(r *core.Run) {
	const rule = "decoded-reply-not-pooled"
	p := r.P
	n := counter{}
	cnt := 0
	for _, fn := range p.FuncList {
		if fn.SSA == nil || skipPkg(fn) || !strings.HasPrefix(fn.Name, "olric.") {
			continue
		}
		for _, f := range core.AllSSA(fn.SSA) {
			core.Instrs(f, func(in ssa.Instruction) {
				c, ok := in.(ssa.CallInstruction)
				if !ok {
					return
				}
				name := ""
				if c.Common().IsInvoke() {
					name = c.Common().Method.Name()
				} else if o := core.CalleeObj(c); o != nil {
					name = o.Name()
				}
				if name != "Decode" || len(c.Common().Args) == 0 {
					return
				}
				arg := c.Common().Args[len(c.Common().Args)-1]
				cnt++
				pooled := false
				if bc, isCall := arg.(*ssa.Call); isCall && methodName(bc) == "Bytes" && len(bc.Call.Args) > 0 {
					if src, isCall := bc.Call.Args[0].(*ssa.Call); isCall {
						if o := core.CalleeObj(src); o != nil && o.Pkg() != nil && strings.HasSuffix(o.Pkg().Path(), "internal/bufpool") {
							pooled = true
						}
					}
				}
				r.Check(!pooled, rule, n.next(fn.Name+" Decode"), site(r, instrPos(in)),
					"the entry is decoded from the reply's own bytes",
					"the entry handed to the caller is decoded from a pooled buffer: Decode keeps sub-slices of it and the pool gives the same buffer to the next request, so the value already returned changes afterwards")
			})
		}
	}
	r.Floor(rule, cnt, 2)
}

// c18EmbeddedGetOwnsItsEntry: every call of EmbeddedDMap.Get hands out the entry that its
// own lookup produced. The embedded API returns the entry's bytes as they are ("it is safe
// to modify the contents of the returned value"), so an entry obtained through anything
// that can give one lookup's result to several callers — a single-flight group, a cache —
// makes one caller's modification visible to the others.
func c18EmbeddedGetOwnsItsEntry(r *core.Run) {
	const rule = "embedded-get-owns-its-entry"
	fn := r.Need(rule, "olric.(*EmbeddedDMap).Get")
	if fn == nil {
		return
	}
	f := fn.SSA
	ok, found := false, false
	var where ssa.Instruction
	core.Instrs(f, func(in ssa.Instruction) {
		st, isSt := in.(*ssa.Store)
		if !isSt || core.LastField(st.Addr) != "entry" {
			return
		}
		found = true
		where = in
		v := st.Val
		for i := 0; i < 3; i++ {
			if ci, isCI := v.(*ssa.ChangeInterface); isCI {
				v = ci.X
			}
		}
		if ex, isEx := v.(*ssa.Extract); isEx && ex.Index == 0 {
			if c, isCall := ex.Tuple.(*ssa.Call); isCall && callTo(dmapPkg+".(*DMap).Get")(c) && c.Parent() == f {
				ok = true
			}
		}
	})
	if !found {
		r.Unknown(rule, fn.Name, site(r, f.Pos()), "no store into GetResponse.entry")
		return
	}
	r.Check(ok, rule, fn.Name, site(r, instrPos(where)),
		"the returned entry is the result of this call's own DMap.Get",
		"the entry handed out is not the direct result of this call's own lookup (it comes through a shared channel: a single-flight group, a cache, a type assertion of something stored): concurrent callers receive the same entry, and one caller modifying its returned bytes changes what the others read")
}
