package rules

import (
	"fmt"
	"go/token"
	"go/types"

	"golang.org/x/tools/go/ssa"

	"olricvet/internal/core"
)

const partByID = "internal/cluster/partitions.(*Partitions).PartitionByID"

func isPC(v ssa.Value) bool {
	v = core.StripConv(v)
	return core.IsFieldLoad("Config", "PartitionCount")(v) || core.IsFieldLoad("Partitions", "count")(v)
}

type fieldKey struct {
	base  ssa.Value
	field int
}

// idKey canonicalises a value so that repeated loads of the same field of the same
// base value compare equal.
func idKey(v ssa.Value) any {
	v = core.StripConv(v)
	if u, ok := v.(*ssa.UnOp); ok && u.Op == token.MUL {
		if fa, ok := u.X.(*ssa.FieldAddr); ok {
			return fieldKey{fa.X, fa.Field}
		}
	}
	return v
}

// ltPC: the conditions at block b imply id < PartitionCount.
func ltPC(id ssa.Value, b *ssa.BasicBlock) bool { return ltPCKey(idKey(id), b) }

func ltPCKey(key any, b *ssa.BasicBlock) bool {
	for _, c := range core.Conditions(b) {
		bin, ok := c.Val.(*ssa.BinOp)
		if !ok || !core.IsCompare(bin.Op) {
			continue
		}
		swap := false
		switch {
		case idKey(bin.X) == key && isPC(bin.Y):
		case idKey(bin.Y) == key && isPC(bin.X):
			swap = true
		default:
			continue
		}
		only := true
		any := false
		for _, o := range []int{-1, 0, 1} {
			oo := o
			if swap {
				oo = -o
			}
			if core.CmpHolds(bin.Op, oo) == c.Truth {
				any = true
				if o != -1 {
					only = false
				}
			}
		}
		if any && only {
			return true
		}
	}
	return false
}

type partIDChecker struct {
	r    *core.Run
	memo map[*ssa.Parameter]int // 0 unknown, 1 safe, 2 unsafe, 3 in progress
}

// safe decides whether id is known to be a valid partition id at block b.
func (pc *partIDChecker) safe(id ssa.Value, b *ssa.BasicBlock, depth int) (bool, string) {
	id0 := id
	id = core.StripConv(id)
	if ltPC(id0, b) {
		return true, "dominated by a comparison id < PartitionCount"
	}
	switch x := id.(type) {
	case *ssa.BinOp:
		if x.Op == token.REM && isPC(x.Y) {
			return true, "id = x % PartitionCount"
		}
	case *ssa.Call:
		if o := core.CalleeObj(x); o != nil {
			switch core.QualName(o) {
			case "internal/cluster/partitions.(*Partitions).PartitionIDByHKey":
				return true, "id = PartitionIDByHKey(hkey) (hkey modulo the partition count)"
			case "internal/cluster/partitions.(*Partition).ID":
				return true, "id of an existing partition object"
			}
		}
	case *ssa.Extract:
		// key of a map range: for k, v := range m
		if nx, ok := x.Tuple.(*ssa.Next); ok && x.Index == 1 {
			if rg, ok := nx.Iter.(*ssa.Range); ok {
				if ok, why := pc.collectionValidated(rg.X, b); ok {
					return true, why
				}
				return false, "key of a ranged map that was not validated as a whole"
			}
		}
	case *ssa.UnOp:
		if x.Op == token.MUL {
			if fa, ok := x.X.(*ssa.FieldAddr); ok {
				if ok, why := pc.fieldValidatedByHelper(fa.X, fa.Field, b); ok {
					return true, why
				}
				if par, isPar := fa.X.(*ssa.Parameter); isPar && depth < 4 {
					if ok, why := pc.paramFieldSafe(par, fa.Field, depth); ok {
						return true, why
					}
				}
			}
		}
	case *ssa.Parameter:
		if depth >= 4 {
			return false, "call chain too deep"
		}
		return pc.paramSafe(x, depth)
	case *ssa.Phi:
		// all incoming values safe at their predecessor
		all := true
		for i, e := range x.Edges {
			if ok, _ := pc.safe(e, x.Block().Preds[i], depth); !ok {
				all = false
			}
		}
		if all {
			return true, "every incoming value is a valid id"
		}
	}
	return false, "no dominating comparison with PartitionCount"
}

func (pc *partIDChecker) paramSafe(par *ssa.Parameter, depth int) (bool, string) {
	switch pc.memo[par] {
	case 1:
		return true, "every caller passes a validated id"
	case 2:
		return false, "some caller passes an unvalidated id"
	case 3:
		return true, "recursive"
	}
	pc.memo[par] = 3
	fn := par.Parent()
	obj, _ := fn.Object().(*types.Func)
	idx := -1
	for i, q := range fn.Params {
		if q == par {
			idx = i
		}
	}
	sites := 0
	okAll := true
	why := ""
	if obj == nil && fn.Parent() != nil {
		// anonymous function: its call sites are the uses of its closure in the parent
		core.Instrs(fn.Parent(), func(in ssa.Instruction) {
			c, ok := in.(ssa.CallInstruction)
			if !ok {
				return
			}
			var callee ssa.Value = c.Common().Value
			if mc, ok := callee.(*ssa.MakeClosure); ok {
				callee = mc.Fn
			}
			if callee != ssa.Value(fn) || idx >= len(c.Common().Args) {
				return
			}
			sites++
			if ok, w := pc.safe(c.Common().Args[idx], in.Block(), depth+1); !ok {
				okAll = false
				why = fmt.Sprintf("literal invoked at %s: %s", pc.r.P.Pos(instrPos(in)), w)
			}
		})
	}
	if obj != nil {
		for _, caller := range pc.r.P.FuncList {
			for _, sf := range core.AllSSA(caller.SSA) {
				core.Instrs(sf, func(in ssa.Instruction) {
					c, ok := in.(ssa.CallInstruction)
					if !ok || c.Common().IsInvoke() || core.CalleeObj(c) != obj {
						return
					}
					if idx >= len(c.Common().Args) {
						return
					}
					sites++
					if ok, w := pc.safe(c.Common().Args[idx], in.Block(), depth+1); !ok {
						okAll = false
						why = fmt.Sprintf("caller %s at %s: %s", caller.Name, pc.r.P.Pos(instrPos(in)), w)
					}
				})
			}
		}
	}
	if sites == 0 {
		pc.memo[par] = 2
		return false, "parameter of a function without static callers (an entry point): the id must be validated inside"
	}
	if okAll {
		pc.memo[par] = 1
		return true, fmt.Sprintf("all %d static callers pass a validated id", sites)
	}
	pc.memo[par] = 2
	return false, why
}

// collectionValidated: a call H(..., m, ...) whose nil error dominates b, where H
// checks every key of its parameter against PartitionCount and fails otherwise.
func (pc *partIDChecker) collectionValidated(m ssa.Value, b *ssa.BasicBlock) (bool, string) {
	return pc.collectionValidatedDepth(m, b, 0)
}

func (pc *partIDChecker) collectionValidatedDepth(m ssa.Value, b *ssa.BasicBlock, depth int) (bool, string) {
	p := pc.r.P
	pt := passThrough(p)
	for _, c := range core.Conditions(b) {
		v, nonNil, ok := isErrNilTest(c)
		if !ok || nonNil {
			continue
		}
		for _, call := range errSources(p, v) {
			o := core.CalleeObj(call)
			h := p.ByObj[o]
			if h == nil || h.SSA == nil {
				continue
			}
			// the map is itself a result of the helper (decode-and-verify helper): every
			// success return of the helper hands out a map it validated as a whole
			if ex, isEx := m.(*ssa.Extract); isEx && ex.Tuple == ssa.Value(call) && depth == 0 {
				all, any := true, false
				for _, ret := range core.Returns(h.SSA) {
					if !core.SuccessCapable(ret, pt) {
						continue
					}
					any = true
					if ok, _ := pc.collectionValidatedDepth(core.ResultValue(ret, ex.Index), ret.Block(), 1); !ok {
						all = false
					}
				}
				if any && all {
					return true, "the map is returned by " + h.Name + ", which validated its keys as a whole on every success path"
				}
			}
			for ai, a := range call.Call.Args {
				if !sameCollection(a, m, call) || ai >= len(h.SSA.Params) {
					continue
				}
				par := h.SSA.Params[ai]
				if helperValidatesKeys(p, h.SSA, par) {
					return true, "keys of the map were validated as a whole by " + h.Name + " (nil result dominates)"
				}
			}
		}
	}
	return false, ""
}

// sameCollection: a (the helper's argument) and m (the ranged map) are the same map:
// either the same SSA value, or two loads of one local variable that is not written
// (nor has its address passed on) after the validating call.
func sameCollection(a, m ssa.Value, call *ssa.Call) bool {
	if a == m {
		return true
	}
	la, ok1 := a.(*ssa.UnOp)
	lm, ok2 := m.(*ssa.UnOp)
	if !ok1 || !ok2 || la.Op != token.MUL || lm.Op != token.MUL || la.X != lm.X {
		return false
	}
	al, ok := la.X.(*ssa.Alloc)
	if !ok {
		return false
	}
	for _, ref := range *al.Referrers() {
		switch ref.(type) {
		case *ssa.UnOp, *ssa.DebugRef:
			continue
		}
		// a store, or a call that receives the address: must happen before the validation
		if !core.Dominates(ref, call) {
			return false
		}
	}
	return true
}

func helperValidatesKeys(p *core.Prog, h *ssa.Function, par *ssa.Parameter) bool {
	isKey := func(v ssa.Value) bool {
		ex, ok := core.StripConv(v).(*ssa.Extract)
		if !ok || ex.Index != 1 {
			return false
		}
		nx, ok := ex.Tuple.(*ssa.Next)
		if !ok {
			return false
		}
		rg, ok := nx.Iter.(*ssa.Range)
		return ok && rg.X == ssa.Value(par)
	}
	for _, ifi := range core.FindCmpIfs(h, isKey, isPC) {
		taken, _ := core.CmpTaken(ifi, isKey, isPC)
		if taken[1] != taken[2] || taken[0] == taken[1] {
			continue
		}
		// the bad edge must not simply continue the loop: it has to leave through an error return
		if edgeOnlyFails(p, ifi.Block(), taken[1]) {
			return true
		}
	}
	return false
}

func reachesBlock(from, target *ssa.BasicBlock) bool {
	seen := map[*ssa.BasicBlock]bool{}
	var visit func(b *ssa.BasicBlock) bool
	visit = func(b *ssa.BasicBlock) bool {
		if b == target {
			return true
		}
		if seen[b] {
			return false
		}
		seen[b] = true
		for _, s := range b.Succs {
			if visit(s) {
				return true
			}
		}
		return false
	}
	return visit(from)
}

// fieldValidatedByHelper: id = base.F, and a call H(base) with nil error dominates b
// where H compares param.F with PartitionCount and fails otherwise.
// paramFieldSafe: the id is the field of a struct handed in as a parameter; every static
// caller must have validated that field of its argument before the call.
func (pc *partIDChecker) paramFieldSafe(par *ssa.Parameter, field int, depth int) (bool, string) {
	fn := par.Parent()
	obj, _ := fn.Object().(*types.Func)
	if obj == nil {
		return false, ""
	}
	idx := -1
	for i, q := range fn.Params {
		if q == par {
			idx = i
		}
	}
	sites, okAll := 0, true
	for _, caller := range pc.r.P.FuncList {
		for _, sf := range core.AllSSA(caller.SSA) {
			core.Instrs(sf, func(in ssa.Instruction) {
				c, ok := in.(ssa.CallInstruction)
				if !ok || c.Common().IsInvoke() || core.CalleeObj(c) != obj || idx >= len(c.Common().Args) {
					return
				}
				sites++
				a := c.Common().Args[idx]
				if ltPCKey(fieldKey{a, field}, in.Block()) {
					return
				}
				if ok, _ := pc.fieldValidatedByHelper(a, field, in.Block()); ok {
					return
				}
				if ap, isPar := a.(*ssa.Parameter); isPar && depth < 3 {
					if ok, _ := pc.paramFieldSafe(ap, field, depth+1); ok {
						return
					}
				}
				okAll = false
			})
		}
	}
	if sites > 0 && okAll {
		return true, fmt.Sprintf("field of a parameter: all %d static callers validated it before the call", sites)
	}
	return false, ""
}

func (pc *partIDChecker) fieldValidatedByHelper(base ssa.Value, field int, b *ssa.BasicBlock) (bool, string) {
	p := pc.r.P
	pt := passThrough(p)
	for _, c := range core.Conditions(b) {
		v, nonNil, ok := isErrNilTest(c)
		if !ok || nonNil {
			continue
		}
		for _, call := range errSources(p, v) {
			o := core.CalleeObj(call)
			h := p.ByObj[o]
			if h == nil || h.SSA == nil {
				continue
			}
			args := call.Call.Args
			for ai, a := range args {
				if a != base || ai >= len(h.SSA.Params) {
					continue
				}
				par := h.SSA.Params[ai]
				isF := func(v ssa.Value) bool {
					k, ok := idKey(v).(fieldKey)
					return ok && k.base == ssa.Value(par) && k.field == field
				}
				for _, ifi := range core.FindCmpIfs(h.SSA, isF, isPC) {
					taken, _ := core.CmpTaken(ifi, isF, isPC)
					if taken[1] != taken[2] || taken[0] == taken[1] {
						continue
					}
					ib := ifi.Block()
					all := true
					for _, ret := range core.ReturnsFrom(ib.Succs[taken[1]], ib) {
						if core.SuccessCapable(ret, pt) {
							all = false
						}
					}
					// and every success return of the helper passes the comparison
					for _, ret := range core.Returns(h.SSA) {
						if core.SuccessCapable(ret, pt) && !core.EdgeDominates(ib, taken[0], ret.Block()) {
							all = false
						}
					}
					if all {
						return true, "validated by " + h.Name + " (its success returns all lie on the id < PartitionCount edge; nil result dominates)"
					}
				}
			}
		}
	}
	return false, ""
}

func c16PartID(r *core.Run) {
	p := r.P
	pc := &partIDChecker{r: r, memo: map[*ssa.Parameter]int{}}
	total := 0
	var roots []*core.Fn
	for _, h := range handlers(p) {
		roots = append(roots, h.Handler)
	}
	reach := reachable(p, roots)
	for _, fn := range p.FuncList {
		if fn.SSA == nil || skipPkg(fn) || !reach[fn] {
			continue
		}
		n := counter{}
		for _, sf := range core.AllSSA(fn.SSA) {
			core.Instrs(sf, func(in ssa.Instruction) {
				c, ok := in.(ssa.CallInstruction)
				if !ok {
					return
				}
				o := core.CalleeObj(c)
				if o == nil || core.QualName(o) != partByID {
					return
				}
				total++
				r.CallSites++
				key := n.next(fn.Name + " PartitionByID")
				args := c.Common().Args
				id := args[len(args)-1]
				if fv, ok := id.(*ssa.FreeVar); ok {
					id = resolveFreeVar(fv)
				}
				ok2, why := pc.safe(id, in.Block(), 0)
				r.Check(ok2, "partition-id-validated", key, site(r, instrPos(in)), why,
					"the partition id reaching PartitionByID is not known to be below PartitionCount ("+why+"): PartitionByID returns nil for unknown ids and the caller dereferences it")
			})
		}
	}
	r.Floor("partition-id-validated", total, 8)
}

// resolveFreeVar maps a captured variable to the value bound at closure creation when
// it is captured by value; otherwise returns the free variable itself.
func resolveFreeVar(fv *ssa.FreeVar) ssa.Value {
	fn := fv.Parent()
	idx := -1
	for i, f := range fn.FreeVars {
		if f == fv {
			idx = i
		}
	}
	if fn.Parent() == nil || idx < 0 {
		return fv
	}
	var out ssa.Value = fv
	core.Instrs(fn.Parent(), func(in ssa.Instruction) {
		if mc, ok := in.(*ssa.MakeClosure); ok && mc.Fn == ssa.Value(fn) && idx < len(mc.Bindings) {
			out = mc.Bindings[idx]
		}
	})
	return out
}

// c16Divisors: integer division / modulo by a run-time quantity needs a zero test.
func c16Divisors(r *core.Run) {
	p := r.P
	var roots []*core.Fn
	for _, h := range handlers(p) {
		roots = append(roots, h.Handler)
	}
	reach := reachable(p, roots)
	total := 0
	for _, fn := range p.FuncList {
		if fn.SSA == nil || skipPkg(fn) || !reach[fn] {
			continue
		}
		n := counter{}
		for _, sf := range core.AllSSA(fn.SSA) {
			core.Instrs(sf, func(in ssa.Instruction) {
				b, ok := in.(*ssa.BinOp)
				if !ok || (b.Op != token.QUO && b.Op != token.REM) {
					return
				}
				bt, ok := b.Type().Underlying().(*types.Basic)
				if !ok || bt.Info()&types.IsInteger == 0 {
					return
				}
				if _, ok := b.Y.(*ssa.Const); ok {
					return
				}
				total++
				key := n.next(fn.Name + " integer " + b.Op.String())
				why, ok2 := nonZero(b.Y, b.Block(), 0)
				r.Check(ok2, "divisor-guard", key, site(r, instrPos(b)), why,
					"integer division by a run-time quantity that may be zero on some path ("+why+"): an integer-divide panic terminates the member")
			})
		}
	}
	r.Floor("divisor-guard", total, 3)
}

func nonZero(y ssa.Value, b *ssa.BasicBlock, depth int) (string, bool) {
	y0 := core.StripConv(y)
	if isPC(y0) {
		return "divisor is the configured partition count (validated > 0 by config.Sanitize/Validate at start-up)", true
	}
	if core.IsFieldLoad("KVStore", "tableSize")(y0) {
		return "divisor is the store's table size (validated at engine start-up)", true
	}
	for _, c := range core.Conditions(b) {
		bin, ok := c.Val.(*ssa.BinOp)
		if !ok || !core.IsCompare(bin.Op) {
			continue
		}
		var other ssa.Value
		op := bin.Op
		if core.StripConv(bin.X) == y0 || bin.X == y {
			other = bin.Y
		} else if core.StripConv(bin.Y) == y0 || bin.Y == y {
			other = bin.X
			op = flip(op)
		} else {
			continue
		}
		k, ok := other.(*ssa.Const)
		if !ok || k.Value == nil || k.Int64() != 0 {
			continue
		}
		// "y op 0" with truth c.Truth implies y != 0 ?
		implies := false
		switch {
		case op == token.EQL && !c.Truth, op == token.NEQ && c.Truth, op == token.GTR && c.Truth, op == token.LEQ && !c.Truth:
			implies = true
		}
		if implies {
			return "dominated by a test that excludes zero", true
		}
	}
	if call, ok := y0.(*ssa.Call); ok {
		if bi, ok := call.Call.Value.(*ssa.Builtin); ok && bi.Name() == "len" {
			return "divisor is a length with no dominating emptiness test", false
		}
	}
	return "no dominating zero test", false
}
