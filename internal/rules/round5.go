package rules

import (
	"go/token"
	"go/types"
	"strings"

	"golang.org/x/tools/go/ssa"

	"olricvet/internal/core"
)

// c06SanitizeDoesNotAliasInput: getOnCluster hands the version list it collected to two
// consumers: sanitizeAndSortVersions (which drops the holders without a copy and sorts) and,
// afterwards, readRepair — which needs exactly the dropped ones, because a holder without a
// copy is what it has to repair. The sanitised list is therefore built in storage of its
// own: the base of every append in sanitizeAndSortVersions is a fresh slice (nil, a literal
// or make), never a reslice of the parameter. Filtering "in place" (versions[:0]) overwrites
// the owner's entry-less slot with a backup's version, and the owner's missing copy is never
// written back.
func c06SanitizeDoesNotAliasInput(r *core.Run) {
	const rule = "sanitize-does-not-alias-input"
	fn := r.Need(rule, dmapPkg+".(*DMap).sanitizeAndSortVersions")
	if fn == nil {
		return
	}
	f := fn.SSA
	params := map[ssa.Value]bool{}
	for _, pa := range f.Params {
		if _, ok := pa.Type().Underlying().(*types.Slice); ok {
			params[pa] = true
		}
	}
	var fromParam func(v ssa.Value, seen map[ssa.Value]bool) bool
	fromParam = func(v ssa.Value, seen map[ssa.Value]bool) bool {
		if seen[v] {
			return false
		}
		seen[v] = true
		if params[v] {
			return true
		}
		switch x := v.(type) {
		case *ssa.Slice:
			return fromParam(x.X, seen)
		case *ssa.Phi:
			for _, e := range x.Edges {
				if fromParam(e, seen) {
					return true
				}
			}
		case *ssa.Call:
			if b, ok := x.Call.Value.(*ssa.Builtin); ok && b.Name() == "append" && len(x.Call.Args) > 0 {
				return fromParam(x.Call.Args[0], seen)
			}
		case *ssa.UnOp:
			if x.Op == token.MUL {
				if a, ok := x.X.(*ssa.Alloc); ok {
					for _, ref := range *a.Referrers() {
						if st, ok := ref.(*ssa.Store); ok && st.Addr == ssa.Value(a) && fromParam(st.Val, seen) {
							return true
						}
					}
				}
			}
		}
		return false
	}
	cnt := 0
	n := counter{}
	core.Instrs(f, func(in ssa.Instruction) {
		c, ok := in.(*ssa.Call)
		if !ok {
			return
		}
		b, ok := c.Call.Value.(*ssa.Builtin)
		if !ok || b.Name() != "append" || len(c.Call.Args) == 0 {
			return
		}
		cnt++
		alias := fromParam(c.Call.Args[0], map[ssa.Value]bool{})
		r.Check(!alias, rule, n.next(fn.Name+" append"), site(r, instrPos(c)),
			"the sanitised list grows in storage of its own",
			"the sanitised list is built inside the caller's slice (a reslice of the parameter is the base of the append): the entry-less slot of a holder without a copy is overwritten before readRepair sees it, so the owner's (or a backup's) missing copy is never repaired and is lost with the next failure of the other holders")
	})
	r.Floor(rule, cnt, 1)
}

// c06ReadRepairReachesEveryHolder: readRepair walks over every collected version and brings
// each stale holder up to date. It is best effort per holder, not per read: a holder that
// cannot be written is logged and the walk goes on to the next one. The only way out of the
// loop other than its end is a failure to obtain this member's own fragment. A return on a
// failed remote write leaves every holder behind the failing one stale, on this read and on
// every later one (the failing holder keeps its place in the list).
func c06ReadRepairReachesEveryHolder(r *core.Run) {
	const rule = "read-repair-reaches-every-holder"
	fn := r.Need(rule, dmapPkg+".(*DMap).readRepair")
	if fn == nil {
		return
	}
	p := r.P
	loops := 0
	n := counter{}
	f := fn.SSA
	for _, h := range loopHeaders(f) {
		body := core.NaturalLoop(h)
		loops++
		for _, blk := range f.Blocks {
			if !body[blk] || blk == h || len(blk.Instrs) == 0 {
				continue
			}
			kind := ""
			last := blk.Instrs[len(blk.Instrs)-1]
			if _, isRet := last.(*ssa.Return); isRet {
				kind = "return"
			}
			for _, sb := range blk.Succs {
				if !body[sb] {
					kind = "break"
					if len(sb.Instrs) > 0 {
						if _, isRet := sb.Instrs[len(sb.Instrs)-1].(*ssa.Return); isRet && len(sb.Preds) == 1 {
							kind = "return"
							blk = sb
						}
					}
				}
			}
			if kind == "" {
				continue
			}
			// the exit must be on the failing edge of loadOrCreateFragment
			ok := false
			for _, cd := range core.Conditions(blk) {
				v, nonNil, isTest := isErrNilTest(cd)
				if !isTest || !nonNil {
					continue
				}
				for _, src := range errSources(p, v) {
					if strings.HasSuffix(calleeName(src), ".loadOrCreateFragment") {
						ok = true
					}
				}
			}
			r.Check(ok, rule, n.next(fn.Name+" leaves the walk"), site(r, instrPos(blk.Instrs[len(blk.Instrs)-1])),
				"the walk over the holders is left early only when this member's own fragment cannot be obtained",
				"the walk over the holders is left ("+kind+") for another reason than a missing local fragment: the stale holders behind this point are not repaired by this read nor by any later one")
		}
	}
	r.Floor(rule, loops, 1)
}

// c20CompactionPauseIsShort: a fragment is compacted in steps (one table, or about a
// thousand entries, per step) with the fragment lock released in between. The pause
// between two steps must be short and fixed: a constant duration. A pause taken from the
// configuration's TriggerCompactionInterval (ten minutes by default) turns one round into
// hours, holds a worker slot of the compaction pool for that long, and the garbage the
// round should have released stays allocated.
func c20CompactionPauseIsShort(r *core.Run) {
	const rule = "compaction-pause-is-short"
	fn := r.Need(rule, dmapPkg+".(*Service).callCompactionOnFragment")
	if fn == nil {
		return
	}
	cnt := 0
	n := counter{}
	core.Instrs(fn.SSA, func(in ssa.Instruction) {
		c, ok := in.(ssa.CallInstruction)
		if !ok {
			return
		}
		name := calleeName(c)
		var d ssa.Value
		switch name {
		case "time.After", "time.NewTimer", "time.Sleep", "time.NewTicker", "time.Tick":
			d = c.Common().Args[0]
		case "time.(*Timer).Reset", "time.(*Ticker).Reset":
			d = c.Common().Args[1]
		default:
			return
		}
		cnt++
		k, isConst := d.(*ssa.Const)
		short := false
		if isConst {
			if v, ok := constantIntValue(k); ok && v > 0 && v <= int64(1000000000) {
				short = true
			}
		}
		r.Check(short, rule, n.next(fn.Name+" "+name), site(r, instrPos(in)),
			"the pause between two compaction steps is a constant of at most one second",
			"the pause between two compaction steps is not a short constant (it is computed or read from the configuration): with the default TriggerCompactionInterval one table is compacted every ten minutes, the round never finishes under churn and its worker slot stays taken")
	})
	r.Floor(rule, cnt, 1)
}

func constantIntValue(k *ssa.Const) (int64, bool) {
	if k == nil || k.Value == nil {
		return 0, false
	}
	if v, ok := k.Value.(interface{ String() string }); ok {
		_ = v
	}
	if k.Value.Kind().String() == "Int" {
		return k.Int64(), true
	}
	return 0, false
}

// c01WipeDecidedUnderWriteLock: the janitor removes a fragment it finds empty. "Empty" and
// the removal belong to one write-lock region of that fragment: the Lock that covers the
// call to wipeOutFragment also covers the test of the fragment's length. Testing under the
// shared lock (or none) and locking afterwards lets a Put slip in between: it re-validates
// the fragment (still registered), stores, is acknowledged — and is wiped with the fragment.
func c01WipeDecidedUnderWriteLock(r *core.Run) {
	const rule = "wipe-decided-under-write-lock"
	fn := r.Need(rule, dmapPkg+".(*Service).janitor")
	if fn == nil {
		return
	}
	cnt := 0
	for _, f := range core.AllSSA(fn.SSA) {
		for _, w := range findInstrs(f, false, callTo(dmapPkg+".wipeOutFragment")) {
			cnt++
			var locks []ssa.Instruction
			core.Instrs(f, func(in ssa.Instruction) {
				if in.Parent() != f {
					return
				}
				if c, ok := in.(*ssa.Call); ok {
					if op, ok := isFragmentMutexOp(c); ok && op == "Lock" && core.Dominates(c, w) {
						locks = append(locks, c)
					}
				}
			})
			ok := len(locks) > 0
			why := "the call to wipeOutFragment is not preceded by a write lock of the fragment"
			tests := 0
			if ok {
				for _, b := range f.Blocks {
					if len(b.Instrs) == 0 {
						continue
					}
					ifi, isIf := b.Instrs[len(b.Instrs)-1].(*ssa.If)
					if !isIf || !b.Dominates(w.Block()) {
						continue
					}
					bin, isBin := ifi.Cond.(*ssa.BinOp)
					if !isBin || !(mentionsField(bin.X, "Length") || mentionsField(bin.Y, "Length")) {
						continue
					}
					tests++
					covered := false
					for _, l := range locks {
						if core.Dominates(l, ifi) {
							covered = true
						}
					}
					if !covered {
						ok = false
						why = "the fragment's length is tested at " + site(r, instrPos(ifi)) + " before the write lock is taken: a Put that lands between the test and the lock is acknowledged and then removed together with the fragment (a following Get answers not-found, NX succeeds a second time)"
					}
				}
				if tests == 0 {
					ok = false
					why = "no test of the fragment's length guards the removal"
				}
			}
			r.Check(ok, rule, fn.Name, site(r, instrPos(w)),
				"the emptiness test and the removal share one write-lock region of the fragment", why)
		}
	}
	r.Floor(rule, cnt, 1)
}
