package rules

import (
	"fmt"
	"go/types"
	"sort"
	"strings"

	"golang.org/x/tools/go/ssa"

	"olricvet/internal/core"
)

// Must-hold lockset analysis for the fragment lock (mechanism M3 of DESIGN.md).
//
// Lock levels: 0 none, 1 read, 2 write. The lock is the sync.RWMutex embedded in
// dmap.fragment; identity is type-level ("a fragment lock is held"), which is exact for
// this code base because no function handles two fragments at once — the approximation
// is stated in the evidence.
//
// Resource accesses are interface calls on a value loaded from the field
// fragment.storage (methods of storage.Engine) and calls on the transfer iterator
// obtained from it. Every Engine method must be classified; an unclassified method makes
// the property undecided.

const (
	lkNone  = 0
	lkRead  = 1
	lkWrite = 2
)

var engineNeeds = map[string]int{
	// mutators
	"Put": lkWrite, "PutRaw": lkWrite, "Delete": lkWrite, "UpdateTTL": lkWrite,
	"Import": lkWrite, "Compaction": lkWrite, "TransferIterator": lkWrite,
	// readers
	"Get": lkRead, "GetRaw": lkRead, "GetTTL": lkRead, "GetLastAccess": lkRead, "GetKey": lkRead,
	"Check": lkRead, "Stats": lkRead, "Range": lkRead, "RangeHKey": lkRead, "Scan": lkRead, "ScanRegexMatch": lkRead,
	// lifecycle / pure (kvstore: no shared state touched)
	"Start": lkNone, "Close": lkNone, "Destroy": lkNone, "SetConfig": lkNone, "SetLogger": lkNone,
	"Fork": lkNone, "Name": lkNone, "NewEntry": lkNone,
}

var iteratorNeeds = map[string]int{"Next": lkRead, "Export": lkRead, "Drop": lkWrite}

type lockSite struct {
	fn    *ssa.Function
	in    ssa.Instruction
	what  string // "storage.Put", "call of checkPutConditions (needs write)"
	need  int
	state int
	via   *ssa.Function // callee whose requirement this is (nil for direct access)
}

type lockAnalysis struct {
	r            *core.Run
	requires     map[*ssa.Function]int
	why          map[*ssa.Function]*lockSite // one unsatisfied site explaining the requirement
	sites        []*lockSite                 // all direct access sites with their state (last iteration)
	impls        map[*types.Func][]*types.Func
	unknown      []string
	closureEntry map[*ssa.Function]int
}

func levelName(l int) string { return [...]string{"no lock", "the read lock", "the write lock"}[l] }

func isFragmentMutexOp(c ssa.CallInstruction) (op string, ok bool) {
	cc := c.Common()
	sc := cc.StaticCallee()
	if sc == nil || len(cc.Args) == 0 {
		return "", false
	}
	o, _ := sc.Object().(*types.Func)
	if o == nil || o.Pkg() == nil || o.Pkg().Path() != "sync" {
		return "", false
	}
	switch o.Name() {
	case "Lock", "Unlock", "RLock", "RUnlock":
	default:
		return "", false
	}
	fa, ok := cc.Args[0].(*ssa.FieldAddr)
	if !ok {
		return "", false
	}
	t := deref(fa.X.Type())
	n, ok := t.(*types.Named)
	if !ok || n.Obj().Name() != "fragment" || core.RelPkg(n.Obj().Pkg().Path()) != "internal/dmap" {
		return "", false
	}
	return o.Name(), true
}

// storageAccess: c is an invoke on a value loaded from fragment.storage, or on a
// transfer iterator obtained from such a value.
func storageAccess(c ssa.CallInstruction) (method string, need int, known bool, ok bool) {
	cc := c.Common()
	if !cc.IsInvoke() {
		return "", 0, false, false
	}
	recv := cc.Value
	if isStorageLoad(recv) {
		m := cc.Method.Name()
		n, k := engineNeeds[m]
		return "storage." + m, n, k, true
	}
	// iterator: result of storage.TransferIterator()
	if call, ok := recv.(*ssa.Call); ok && call.Call.IsInvoke() && call.Call.Method.Name() == "TransferIterator" && isStorageLoad(call.Call.Value) {
		m := cc.Method.Name()
		n, k := iteratorNeeds[m]
		return "TransferIterator()." + m, n, k, true
	}
	return "", 0, false, false
}

func isStorageLoad(v ssa.Value) bool { return core.IsFieldLoad("fragment", "storage")(v) }

func newLockAnalysis(r *core.Run) *lockAnalysis {
	return &lockAnalysis{r: r, requires: map[*ssa.Function]int{}, why: map[*ssa.Function]*lockSite{},
		impls: implIndex(r.P), closureEntry: map[*ssa.Function]int{}}
}

// callees resolves a call to repository SSA functions (static, or every repository
// implementation of an interface method).
func (la *lockAnalysis) callees(c ssa.CallInstruction) []*ssa.Function {
	cc := c.Common()
	if sc := cc.StaticCallee(); sc != nil {
		if sc.Synthetic != "" && sc.Object() == nil {
			if o := core.CalleeObj(c); o != nil {
				if f := la.r.P.ByObj[o]; f != nil && f.SSA != nil {
					return []*ssa.Function{f.SSA}
				}
			}
		}
		return []*ssa.Function{sc}
	}
	if cc.IsInvoke() {
		var out []*ssa.Function
		for _, m := range la.impls[cc.Method] {
			if f := la.r.P.ByObj[m]; f != nil && f.SSA != nil {
				out = append(out, f.SSA)
			}
		}
		return out
	}
	return nil
}

// flow runs the must-hold dataflow on f with the given entry level and calls visit for
// every instruction with the level held just before it.
func (la *lockAnalysis) flow(f *ssa.Function, entry int, visit func(in ssa.Instruction, state int)) {
	if len(f.Blocks) == 0 {
		return
	}
	const top = 3
	in := make([]int, len(f.Blocks))
	out := make([]int, len(f.Blocks))
	for i := range in {
		in[i], out[i] = top, top
	}
	transfer := func(b *ssa.BasicBlock, st int, cb func(ssa.Instruction, int)) int {
		for _, ins := range b.Instrs {
			if cb != nil {
				cb(ins, st)
			}
			c, ok := ins.(*ssa.Call)
			if !ok {
				continue
			}
			if op, ok := isFragmentMutexOp(c); ok {
				switch op {
				case "Lock":
					st = lkWrite
				case "RLock":
					if st < lkRead {
						st = lkRead
					}
				case "Unlock", "RUnlock":
					st = lkNone
				}
			}
		}
		return st
	}
	in[0] = entry
	for changed := true; changed; {
		changed = false
		for _, b := range f.Blocks {
			st := top
			if b.Index == 0 {
				st = entry
			}
			for _, p := range b.Preds {
				if out[p.Index] < st {
					st = out[p.Index]
				}
			}
			if b == f.Recover {
				st = lkNone
			}
			if st == top && b.Index != 0 {
				continue // unreachable so far
			}
			if st != in[b.Index] {
				in[b.Index] = st
				changed = true
			}
			o := transfer(b, st, nil)
			if o != out[b.Index] {
				out[b.Index] = o
				changed = true
			}
		}
	}
	for _, b := range f.Blocks {
		if in[b.Index] == top {
			continue
		}
		transfer(b, in[b.Index], visit)
	}
}

// closureMode classifies how an anonymous function is used by its parent.
func closureUse(an *ssa.Function) (mc *ssa.MakeClosure, mode string) {
	if an.Parent() == nil {
		return nil, ""
	}
	mode = "none"
	core.Instrs(an.Parent(), func(in ssa.Instruction) {
		m, ok := in.(*ssa.MakeClosure)
		if !ok || m.Fn != ssa.Value(an) {
			return
		}
		mc = m
		mode = "sync"
		for _, ref := range *m.Referrers() {
			switch ref.(type) {
			case *ssa.Go:
				mode = "go"
			case *ssa.Defer:
				mode = "defer"
			case *ssa.Call, *ssa.DebugRef:
			default:
				mode = "stored" // stored in a variable or field: may run later without the lock
			}
		}
	})
	if mc == nil {
		// closure without free variables: used as a plain function value
		mode = "sync"
		core.Instrs(an.Parent(), func(in ssa.Instruction) {
			switch x := in.(type) {
			case *ssa.Go:
				if x.Call.Value == ssa.Value(an) {
					mode = "go"
				}
			case *ssa.Defer:
				if x.Call.Value == ssa.Value(an) {
					mode = "defer"
				}
			}
		})
	}
	return mc, mode
}

// analyse computes, for entry level `entry`, the unsatisfied sites of f (including its
// synchronously used closures).
func (la *lockAnalysis) analyse(f *ssa.Function, entry int, record bool) (req int, why *lockSite) {
	note := func(s *lockSite) {
		if s.need > s.state {
			if s.need > req {
				req = s.need
				why = s
			}
		}
		if record && s.via == nil {
			la.sites = append(la.sites, s)
		}
	}
	stateAt := map[ssa.Instruction]int{}
	la.flow(f, entry, func(in ssa.Instruction, st int) {
		stateAt[in] = st
		c, ok := in.(ssa.CallInstruction)
		if !ok {
			return
		}
		if _, isGo := in.(*ssa.Go); isGo {
			// the goroutine starts without any lock
			for _, g := range la.callees(c) {
				if q := la.requires[g]; q > lkNone {
					note(&lockSite{fn: f, in: in, what: "go " + g.Name(), need: q, state: lkNone, via: g})
				}
			}
			return
		}
		if _, isDefer := in.(*ssa.Defer); isDefer {
			return // runs at exit; lock operations in defers are releases
		}
		if m, need, known, ok := storageAccess(c); ok {
			if !known {
				la.unknown = append(la.unknown, m)
				return
			}
			note(&lockSite{fn: f, in: in, what: m, need: need, state: st})
			return
		}
		for _, g := range la.callees(c) {
			if q := la.requires[g]; q > lkNone {
				note(&lockSite{fn: f, in: in, what: "call of " + g.Name(), need: q, state: st, via: g})
			}
		}
	})
	// closures
	for _, an := range f.AnonFuncs {
		mc, mode := closureUse(an)
		centry := lkNone
		if mode == "sync" && mc != nil {
			centry = stateAt[mc]
		} else if mode == "sync" {
			centry = entry
		}
		la.closureEntry[an] = centry
		q, w := la.analyse(an, centry, record)
		if q > lkNone {
			if mode == "sync" {
				if q > req {
					req, why = q, w
				}
			} else {
				// runs later / concurrently: nothing the parent holds helps; keep as a requirement
				// of the closure itself, reported at roots
				la.requires[an] = q
				la.why[an] = w
			}
		}
	}
	return req, why
}

// run computes the requires-held summaries to a fixpoint.
func (la *lockAnalysis) run() {
	p := la.r.P
	var fns []*core.Fn
	for _, fn := range p.FuncList {
		if fn.SSA != nil && !skipPkg(fn) {
			fns = append(fns, fn)
		}
	}
	for iter := 0; iter < 10; iter++ {
		changed := false
		for _, fn := range fns {
			q, w := la.analyse(fn.SSA, lkNone, false)
			if q != la.requires[fn.SSA] {
				la.requires[fn.SSA] = q
				la.why[fn.SSA] = w
				changed = true
			}
		}
		if !changed {
			break
		}
	}
	la.sites = nil
	for _, fn := range fns {
		la.analyse(fn.SSA, lkNone, true)
	}
}

// chain renders the path from f to the offending access.
func (la *lockAnalysis) chain(f *ssa.Function) string {
	var parts []string
	seen := map[*ssa.Function]bool{}
	for f != nil && !seen[f] {
		seen[f] = true
		w := la.why[f]
		if w == nil {
			break
		}
		parts = append(parts, fmt.Sprintf("%s at %s (%s)", fnName(la.r.P, w.fn), la.r.P.Pos(instrPos(w.in)), w.what))
		f = w.via
	}
	return strings.Join(parts, " -> ")
}

// lockDiscipline emits the obligations of C01.lock-discipline.
func lockDiscipline(r *core.Run) *lockAnalysis {
	p := r.P
	la := newLockAnalysis(r)
	la.run()
	for _, m := range la.unknown {
		r.Unknown("lock-discipline", "unclassified "+m, "-", "a storage.Engine / TransferIterator method is used that the lock table does not classify as mutator, reader or lifecycle")
	}
	// direct access sites: discharged if the level held inside the function (or inherited
	// by a synchronous closure) suffices, otherwise the requirement moves to the callers.
	n := counter{}
	direct := 0
	for _, s := range la.sites {
		direct++
		key := n.next(fnName(p, s.fn) + " " + s.what)
		if s.state >= s.need {
			r.OK("lock-discipline", key, site(r, instrPos(s.in)), fmt.Sprintf("needs %s, holds %s here", levelName(s.need), levelName(s.state)))
		} else {
			r.OK("lock-discipline", key, site(r, instrPos(s.in)), fmt.Sprintf("needs %s from the caller (requires-held summary, discharged at the roots below)", levelName(s.need)))
		}
	}
	r.Floor("lock-discipline(storage sites)", direct, 27)

	// roots: functions nobody calls with the lock, goroutine bodies, handlers, exported API
	roots := map[*ssa.Function]string{}
	for _, h := range handlers(p) {
		if h.Handler != nil && h.Handler.SSA != nil {
			roots[h.Handler.SSA] = "handler of " + h.Name
		}
	}
	for _, fn := range p.FuncList {
		if fn.SSA == nil || skipPkg(fn) {
			continue
		}
		rel := core.RelPkg(fn.Pkg.PkgPath)
		if rel == kvPkg || rel == tablePkg {
			continue
		}
		if fn.Obj.Exported() && receiverExported(fn.Obj) {
			roots[fn.SSA] = "exported " + fn.Name
		}
		if len(p.CallersOf(fn.Obj)) == 0 {
			if _, ok := roots[fn.SSA]; !ok {
				roots[fn.SSA] = "no static caller"
			}
		}
		for _, cs := range p.CallersOf(fn.Obj) {
			if cs.Go {
				roots[fn.SSA] = "started with go in " + cs.Caller.Name
			}
		}
	}
	for an, q := range la.requires {
		if an.Parent() != nil && q > lkNone {
			roots[an] = "closure that runs detached from its creator"
		}
	}
	var rs []*ssa.Function
	for f := range roots {
		rs = append(rs, f)
	}
	sort.Slice(rs, func(i, j int) bool { return fnName(p, rs[i])+rs[i].Name() < fnName(p, rs[j])+rs[j].Name() })
	nroots := 0
	for _, f := range rs {
		q := la.requires[f]
		if q == lkNone {
			continue
		}
		nroots++
		r.Bad("lock-discipline", "root "+fnName(p, f)+" ("+roots[f]+")", site(r, f.Pos()),
			fmt.Sprintf("reaches a storage access that needs %s without holding the fragment lock: %s. Two goroutines then race on the engine's unsynchronised maps, so some schedule loses or corrupts an update", levelName(q), la.chain(f)))
	}
	// summary obligations for functions that rely on their callers, to make the discharge visible
	var helpers []*ssa.Function
	for f, q := range la.requires {
		if q > lkNone {
			if _, isRoot := roots[f]; !isRoot {
				helpers = append(helpers, f)
			}
		}
	}
	sort.Slice(helpers, func(i, j int) bool { return fnName(p, helpers[i]) < fnName(p, helpers[j]) })
	for _, f := range helpers {
		r.OK("lock-discipline", "requires-held "+fnName(p, f), site(r, f.Pos()),
			fmt.Sprintf("needs %s from every caller; all callers up to the roots provide it (%s)", levelName(la.requires[f]), la.chain(f)))
	}
	r.Notes = append(r.Notes, "lock identity is type-level (any dmap.fragment RWMutex); exact here because no function handles two fragments at once")
	return la
}

// singleLockRegion emits C01.check-then-act: inside one function invocation the fragment
// lock is not released and then taken again (the window between a condition evaluated on
// the store and the write that depends on it).
func singleLockRegion(r *core.Run) {
	p := r.P
	cnt := 0
	for _, fn := range p.FuncList {
		if fn.SSA == nil || skipPkg(fn) {
			continue
		}
		for _, f := range core.AllSSA(fn.SSA) {
			var acquires, releases []*ssa.Call
			core.Instrs(f, func(in ssa.Instruction) {
				c, ok := in.(*ssa.Call)
				if !ok {
					return
				}
				if op, ok := isFragmentMutexOp(c); ok {
					if op == "Lock" || op == "RLock" {
						acquires = append(acquires, c)
					} else {
						releases = append(releases, c)
					}
				}
			})
			if len(acquires) == 0 {
				continue
			}
			cnt++
			bad := ""
			for _, rel := range releases {
				// the acquire this release pairs with: the nearest dominating acquire
				var own *ssa.Call
				for _, a := range acquires {
					if core.Dominates(a, rel) && (own == nil || core.Dominates(own, a)) {
						own = a
					}
				}
				// any other acquire reachable after the release?
				for _, a := range acquires {
					if a == own {
						continue
					}
					if reachableAfter(rel, a) {
						bad = fmt.Sprintf("released at %s and taken again at %s", p.Pos(instrPos(rel)), p.Pos(instrPos(a)))
					}
				}
			}
			r.Check(bad == "", "check-then-act", fnName(p, f)+" lock regions", site(r, f.Pos()),
				"one lock region per invocation (no release followed by a different acquire)",
				"the fragment lock is "+bad+" within one invocation: a concurrent writer can slip between what was read under the first region and what is written under the second (e.g. two NX puts both succeed)")
		}
	}
	r.Floor("check-then-act", cnt, 8)
}

// reachableAfter: instruction b can execute after instruction a in one invocation.
func reachableAfter(a, b ssa.Instruction) bool {
	if a.Block() == b.Block() && core.InstrIndex(a) < core.InstrIndex(b) {
		return true
	}
	seen := map[*ssa.BasicBlock]bool{}
	var visit func(x *ssa.BasicBlock) bool
	visit = func(x *ssa.BasicBlock) bool {
		if seen[x] {
			return false
		}
		seen[x] = true
		if x == b.Block() {
			return true
		}
		for _, s := range x.Succs {
			if visit(s) {
				return true
			}
		}
		return false
	}
	for _, s := range a.Block().Succs {
		if visit(s) {
			return true
		}
	}
	return false
}

// receiverExported: f is a plain function, or a method of an exported type (methods of
// unexported types are reachable from other packages only through interfaces, and those
// call sites are resolved by the analysis).
func receiverExported(f *types.Func) bool {
	sig := f.Type().(*types.Signature)
	if sig.Recv() == nil {
		return true
	}
	if n, ok := deref(sig.Recv().Type()).(*types.Named); ok {
		return n.Obj().Exported()
	}
	return true
}
