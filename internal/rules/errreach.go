package rules

import (
	"fmt"
	"go/token"
	"regexp"
	"sort"
	"strings"

	"olricvet/internal/core"
)

// errExceptions: the places of today's tree where the error of a call is dropped, or is
// only compared and logged. Key: calling function | callee. Each was read; the reason
// says why the failure needs no reporting there. Anything not listed is a violation.
var errExceptions = map[string]string{
	"config.getBindIP|net.InterfaceByName":                                                                                                  "the interface is optional: a nil interface falls through to the address lookup",
	"events.encodeEvent|bytes.(*Buffer).Write":                                                                                              "bytes.Buffer writes never fail",
	"events.encodeEvent|bytes.(*Buffer).WriteString":                                                                                        "bytes.Buffer writes never fail",
	"internal/cluster/balancer.(*Balancer).scanPartition|internal/cluster/partitions.(Fragment).Move":                                       "background worker: a failed move is logged, the fragment is kept and the move is retried at the next pass",
	"internal/cluster/balancer.(*Balancer).triggerBalancer|internal/cluster/routingtable.(*RoutingTable).CheckBootstrap":                    "background worker: not bootstrapped yet means try again at the next tick",
	"internal/cluster/routingtable.(*RoutingTable).attemptToJoin|internal/discovery.(*Discovery).Join":                                      "retried in a loop until the join deadline; the last error is returned by the caller",
	"internal/cluster/routingtable.(*RoutingTable).distributeBackups|github.com/redis/go-redis/v9.(*Client).Process":                        "an owner that cannot be resolved or asked about its left-over data is logged and skipped; membership events prune it",
	"internal/cluster/routingtable.(*RoutingTable).distributeBackups|github.com/redis/go-redis/v9.(*IntCmd).Result":                         "an owner that cannot be resolved or asked about its left-over data is logged and skipped; membership events prune it",
	"internal/cluster/routingtable.(*RoutingTable).distributeBackups|internal/cluster/routingtable.(*RoutingTable).getReplicaOwners":        "an owner that cannot be resolved or asked about its left-over data is logged and skipped; membership events prune it",
	"internal/cluster/routingtable.(*RoutingTable).distributeBackups|internal/discovery.(*Discovery).FindMemberByName":                      "an owner that cannot be resolved or asked about its left-over data is logged and skipped; membership events prune it",
	"internal/cluster/routingtable.(*RoutingTable).distributePrimaryCopies|github.com/redis/go-redis/v9.(*Client).Process":                  "an owner that cannot be resolved or asked about its left-over data is logged and skipped; membership events prune it",
	"internal/cluster/routingtable.(*RoutingTable).distributePrimaryCopies|github.com/redis/go-redis/v9.(*IntCmd).Result":                   "an owner that cannot be resolved or asked about its left-over data is logged and skipped; membership events prune it",
	"internal/cluster/routingtable.(*RoutingTable).distributePrimaryCopies|internal/discovery.(*Discovery).FindMemberByName":                "an owner that cannot be resolved or asked about its left-over data is logged and skipped; membership events prune it",
	"internal/cluster/routingtable.(*RoutingTable).processClusterEvent|internal/cluster/routingtable.(*Members).Get":                        "a leave event for a member that is not known is logged and ignored",
	"internal/cluster/routingtable.(*RoutingTable).processClusterEvent|internal/discovery.NewMemberFromMetadata":                            "the metadata was produced by this code base; the member is looked up by name next and a miss is logged",
	"internal/cluster/routingtable.(*RoutingTable).processClusterEvent|internal/server.(*Client).Close":                                     "teardown of the connection pool of a member that left",
	"internal/cluster/routingtable.(*RoutingTable).publishNodeJoinEvent|events.(*NodeJoinEvent).Encode":                                     "cluster events are best effort",
	"internal/cluster/routingtable.(*RoutingTable).publishNodeJoinEvent|github.com/redis/go-redis/v9.(*baseCmd).Err":                        "cluster events are best effort",
	"internal/cluster/routingtable.(*RoutingTable).publishNodeLeftEvent|events.(*NodeLeftEvent).Encode":                                     "cluster events are best effort",
	"internal/cluster/routingtable.(*RoutingTable).publishNodeLeftEvent|github.com/redis/go-redis/v9.(*baseCmd).Err":                        "cluster events are best effort",
	"internal/cluster/routingtable.(*RoutingTable).updateRouting|internal/cluster/routingtable.(*RoutingTable).CheckMemberCountQuorum":      "the coordinator's push: logged, repeated at the next membership event or tick",
	"internal/cluster/routingtable.(*RoutingTable).updateRouting|internal/cluster/routingtable.(*RoutingTable).updateRoutingTableOnCluster": "the coordinator's push: logged, repeated at the next membership event or tick",
	"internal/discovery.(*Discovery).GetMembers|internal/discovery.NewMemberFromMetadata":                                                   "the metadata was produced by this code base",
	"internal/discovery.(*Discovery).Shutdown|github.com/hashicorp/memberlist.(*Memberlist).Leave":                                          "shutdown: every step is attempted and logged",
	"internal/discovery.(*Discovery).Shutdown|pkg/service_discovery.(ServiceDiscovery).Close":                                               "shutdown: every step is attempted and logged",
	"internal/discovery.(*Discovery).Shutdown|pkg/service_discovery.(ServiceDiscovery).Deregister":                                          "shutdown: every step is attempted and logged",
	"internal/dmap.(*DMap).asyncPutOnBackup|github.com/redis/go-redis/v9.(*Client).Process":                                                 "asynchronous replication is best effort by configuration",
	"internal/dmap.(*DMap).asyncPutOnBackup|github.com/redis/go-redis/v9.(*baseCmd).Err":                                                    "asynchronous replication is best effort by configuration",
	"internal/dmap.(*DMap).atomicIncrByFloat|internal/locker.(*Locker).Unlock":                                                              "deferred release of the per-key mutex: nothing to hand the error to, logged",
	"internal/dmap.(*DMap).atomicIncrDecr|internal/locker.(*Locker).Unlock":                                                                 "deferred release of the per-key mutex: nothing to hand the error to, logged",
	"internal/dmap.(*DMap).getPut|internal/locker.(*Locker).Unlock":                                                                         "deferred release of the per-key mutex: nothing to hand the error to, logged",
	"internal/dmap.(*DMap).leaseKey|internal/locker.(*Locker).Unlock":                                                                       "deferred release of the per-key mutex: nothing to hand the error to, logged",
	"internal/dmap.(*DMap).lookupOnOwners|internal/dmap.(*DMap).lookupOnPreviousOwner":                                                      "a previous owner that cannot be read is logged and skipped; the read goes on with the other copies",
	"internal/dmap.(*DMap).lookupOnReplicas|github.com/redis/go-redis/v9.(*Client).Process":                                                 "a backup that cannot be read is logged and skipped; the read goes on with the other copies and the read quorum counts what was obtained",
	"internal/dmap.(*DMap).lookupOnReplicas|github.com/redis/go-redis/v9.(*StringCmd).Bytes":                                                "a backup that cannot be read is logged and skipped; the read goes on with the other copies and the read quorum counts what was obtained",
	"internal/dmap.(*DMap).lookupOnReplicas|internal/protocol.ConvertError":                                                                 "a backup that cannot be read is logged and skipped; the read goes on with the other copies and the read quorum counts what was obtained",
	"internal/dmap.(*DMap).readRepair|github.com/redis/go-redis/v9.(*Client).Process":                                                       "read repair is best effort: the result of the read stands",
	"internal/dmap.(*DMap).readRepair|github.com/redis/go-redis/v9.(*baseCmd).Err":                                                          "read repair is best effort: the result of the read stands",
	"internal/dmap.(*DMap).readRepair|internal/dmap.(*DMap).loadOrCreateFragment":                                                           "read repair is best effort: the result of the read stands",
	"internal/dmap.(*DMap).readRepair|internal/dmap.(*DMap).putEntryOnFragment":                                                             "read repair is best effort: the result of the read stands",
	"internal/dmap.(*DMap).syncPutOnCluster|github.com/redis/go-redis/v9.(*Client).Process":                                                 "a copy that failed is not counted towards the write quorum (see wq-counter); the decision is made on the count",
	"internal/dmap.(*DMap).syncPutOnCluster|github.com/redis/go-redis/v9.(*baseCmd).Err":                                                    "a copy that failed is not counted towards the write quorum (see wq-counter); the decision is made on the count",
	"internal/dmap.(*DMap).syncPutOnCluster|internal/dmap.(*DMap).putEntryOnFragment":                                                       "a copy that failed is not counted towards the write quorum (see wq-counter); the decision is made on the count",
	"internal/dmap.(*DMap).syncPutOnCluster|internal/protocol.ConvertError":                                                                 "a copy that failed is not counted towards the write quorum (see wq-counter); the decision is made on the count",
	"internal/dmap.(*DMap).unlockKey|internal/locker.(*Locker).Unlock":                                                                      "deferred release of the per-key mutex: nothing to hand the error to, logged",
	"internal/dmap.(*Service).callCompactionOnFragment|internal/dmap.(*fragment).Compaction":                                                "background worker: logged, retried at the next interval",
	"internal/dmap.(*Service).evictKeysAtBackground|golang.org/x/sync/semaphore.(*Weighted).Acquire":                                        "Acquire fails only when the service context ends: the worker stops",
	"internal/dmap.(*Service).janitor|internal/dmap.wipeOutFragment":                                                                        "background worker: logged, retried at the next interval",
	"internal/dmap.(*Service).publishEvent|events.(Event).Encode":                                                                           "cluster events are best effort",
	"internal/dmap.(*Service).publishEvent|github.com/redis/go-redis/v9.(*baseCmd).Err":                                                     "cluster events are best effort",
	"internal/dmap.(*Service).scanFragmentForEviction|internal/dmap.(*DMap).deleteOnCluster":                                                "background worker: logged, the key is looked at again in the next round",
	"internal/dmap.(*Service).scanFragmentForEviction|internal/dmap.(*Service).getOrCreateDMap":                                             "background worker: logged, the key is looked at again in the next round",
	"internal/dmap.(*Service).scanFragmentForEviction|pkg/storage.(Engine).GetKey":                                                          "background worker: the key is skipped and looked at again in the next round",
	"internal/dmap.(*Service).scanFragmentForEviction|pkg/storage.(Engine).GetTTL":                                                          "background worker: the key is skipped and looked at again in the next round",
	"internal/dmap.(*Service).triggerCompaction|golang.org/x/sync/semaphore.(*Weighted).Acquire":                                            "Acquire fails only when the service context ends: the worker stops",
	"internal/kvstore.(*KVStore).evictTable|internal/kvstore/table.(*Table).GetRaw":                                                         "the key was just yielded by the same table's range",
	"internal/kvstore.(*KVStore).scanCommon|internal/kvstore.(*KVStore).findCoefficient":                                                    "an unknown cursor ends the scan (cursor 0), by design",
	"internal/kvstore/table.(*Table).ScanRegexMatch|internal/kvstore/table.(*Table).getRawKey":                                              "the offset was just yielded by the same table's index",
	"internal/protocol.errWrongNumber|strings.(*Builder).Write":                                                                             "strings.Builder writes never fail",
	"internal/protocol.errWrongNumber|strings.(*Builder).WriteByte":                                                                         "strings.Builder writes never fail",
	"internal/pubsub.(*PubSub).subscribe|github.com/tidwall/redcon.(DetachedConn).Flush":                                                    "a subscriber whose connection fails is removed by its reader loop",
	"internal/pubsub.(*PubSub).unsubscribe|github.com/tidwall/redcon.(DetachedConn).Flush":                                                  "a subscriber whose connection fails is removed by its reader loop",
	"internal/pubsub.(*pubSubConn).bgrunner|github.com/tidwall/redcon.(Conn).Close":                                                         "teardown",
	"internal/pubsub.(*pubSubConn).bgrunner|github.com/tidwall/redcon.(DetachedConn).Flush":                                                 "a subscriber whose connection fails is removed by its reader loop",
	"internal/pubsub.(*pubSubConn).bgrunner|github.com/tidwall/redcon.(DetachedConn).ReadCommand":                                           "a read error ends the subscriber loop (checked by subscriber-loop-exits-on-read-error)",
	"internal/pubsub.(*pubSubConn).writeMessage|github.com/tidwall/redcon.(DetachedConn).Flush":                                             "a subscriber whose connection fails is removed by its reader loop",
	"olric.(*ClusterClient).Ping|github.com/redis/go-redis/v9.(*baseCmd).Err":                                                               "kept as found (Ping reports an empty reply)",
	"olric.(*ClusterClient).Ping|olric.processProtocolError":                                                                                "kept as found (Ping reports an empty reply)",
	"olric.(*ClusterClient).fetchRoutingTablePeriodically|olric.(*ClusterClient).fetchRoutingTable":                                         "periodic refresh: logged, repeated at the next tick",
	"olric.(*ClusterDMap).Decr|github.com/redis/go-redis/v9.(*IntCmd).Uint64":                                                               "the same error is re-read from cmd.Err() and returned",
	"olric.(*ClusterDMap).Delete|github.com/redis/go-redis/v9.(*IntCmd).Uint64":                                                             "the same error is re-read from cmd.Err() and returned",
	"olric.(*ClusterDMap).IncrByFloat|github.com/redis/go-redis/v9.(*FloatCmd).Result":                                                      "the same error is re-read from cmd.Err() and returned",
	"olric.(*ClusterDMap).Incr|github.com/redis/go-redis/v9.(*IntCmd).Uint64":                                                               "the same error is re-read from cmd.Err() and returned",
	"olric.(*ClusterIterator).fetchRoutingTablePeriodically|olric.(*ClusterIterator).fetchRoutingTable":                                     "periodic refresh: logged, repeated at the next tick",
	"olric.(*ClusterIterator).next|olric.(*ClusterIterator).fetchData":                                                                      "the iterator interface has no error result: a failed fetch is logged and ends the iteration",
	"olric.(*DMapPipeline).execOnPartition|github.com/redis/go-redis/v9.(Pipeliner).Exec":                                                   "per-command errors are read from the returned commands by the futures",
	"olric.(*FutureDecr).Result|github.com/redis/go-redis/v9.(Cmder).Err":                                                                   "tested, then read again and returned",
	"olric.(*FutureDelete).Result|github.com/redis/go-redis/v9.(Cmder).Err":                                                                 "tested, then read again and returned",
	"olric.(*FutureGet).Result|github.com/redis/go-redis/v9.(Cmder).Err":                                                                    "tested, then read again and returned",
	"olric.(*FutureGetPut).Result|github.com/redis/go-redis/v9.(Cmder).Err":                                                                 "tested, then read again and returned",
	"olric.(*FutureIncr).Result|github.com/redis/go-redis/v9.(Cmder).Err":                                                                   "tested, then read again and returned",
	"olric.(*FutureIncrByFloat).Result|github.com/redis/go-redis/v9.(Cmder).Err":                                                            "tested, then read again and returned",
}

// errRoots: the entry points from which a property's operations are reached (regular
// expressions over qualified function names).
var errRoots = map[string]string{
	"C01": `^internal/dmap\.\(\*Service\)\.(del|delEntry)CommandHandler$|^internal/dmap\.\(\*DMap\)\.Delete$|^olric\.\(\*(ClusterDMap|EmbeddedDMap|DMapPipeline)\)\.Delete$`,
	"C02": `^internal/dmap\.\(\*Service\)\.(put|putEntry|del|delEntry)CommandHandler$|^internal/dmap\.\(\*DMap\)\.(Put|Delete)$`,
	"C03": `^internal/dmap\.\(\*Service\)\.moveFragmentCommandHandler$|^internal/cluster/balancer\.|^internal/dmap\.\(\*fragment\)\.Move$`,
	"C04": `^internal/dmap\.\(\*Service\)\.(put|putEntry|expire|pexpire)CommandHandler$|^internal/dmap\.\(\*DMap\)\.(Put|Expire)$`,
	"C05": `^internal/dmap\.\(\*Service\)\.(put|get)CommandHandler$|^internal/dmap\.\(\*DMap\)\.(Put|Get)$|^internal/server\.`,
	"C06": `^internal/dmap\.\(\*Service\)\.(get|getEntry)CommandHandler$|^internal/dmap\.\(\*DMap\)\.Get$`,
	"C07": `^internal/dmap\.\(\*Service\)\.(incr|decr|incrByFloat|getPut)CommandHandler$|^internal/dmap\.\(\*DMap\)\.(Incr|Decr|IncrByFloat|GetPut)$|^olric\.\(\*(ClusterDMap|EmbeddedDMap|DMapPipeline)\)\.(Incr|Decr|IncrByFloat|GetPut)$`,
	"C08": `^internal/dmap\.\(\*Service\)\.(lock|unlock|lockLease|plockLease)CommandHandler$|^internal/dmap\.\(\*DMap\)\.(Lock|LockWithTimeout|Unlock|Lease)$|^olric\.\(\*(ClusterDMap|EmbeddedDMap|ClusterLockContext|EmbeddedLockContext)\)\.`,
	"C09": `^internal/dmap\.\(\*Service\)\.(expire|pexpire|put)CommandHandler$|^internal/dmap\.\(\*DMap\)\.(Expire|Put)$|^olric\.\(\*(ClusterDMap|EmbeddedDMap|DMapPipeline)\)\.(Expire|Put)$`,
	"C10": `^internal/dmap\.\(\*Service\)\.(evictKeysAtBackground|evictKeys|scanFragmentForEviction)$|^internal/dmap\.\(\*DMap\)\.Put$`,
	"C11": `^internal/kvstore[./]`,
	"C12": `^internal/dmap\.\(\*Service\)\.scanCommandHandler$|^internal/dmap\.\(\*DMap\)\.Scan$|^olric\.\(\*(ClusterIterator|EmbeddedIterator)\)\.|^olric\.\(\*(ClusterDMap|EmbeddedDMap)\)\.Scan$`,
	"C13": `^internal/cluster/routingtable\.|^internal/cluster/partitions\.|^internal/discovery\.`,
	"C14": `^internal/pubsub\.|^olric\.\(\*PubSub\)\.`,
	"C15": `^olric\.\(\*(ClusterDMap|EmbeddedDMap|DMapPipeline|ClusterClient|EmbeddedClient|Future[A-Za-z]*)\)\.`,
	"C16": `^internal/server\.|^internal/protocol\.|CommandHandler$`,
	"C17": `^internal/resp\.|^internal/protocol\.|^internal/kvstore/entry\.`,
	"C18": `^internal/dmap\.\(\*Service\)\.(get|getPut)CommandHandler$|^olric\.\(\*(ClusterDMap|EmbeddedDMap)\)\.(Get|GetPut|Put)$|^olric\.\(\*GetResponse\)\.`,
	"C19": `^internal/dmap\.\(\*Service\)\.destroyCommandHandler$|^internal/dmap\.\(\*DMap\)\.Destroy$|^olric\.\(\*(ClusterDMap|EmbeddedDMap)\)\.Destroy$`,
	"C20": `^internal/kvstore[./]|^internal/dmap\.\(\*Service\)\.(compactionWorker|triggerCompaction|callCompactionOnFragment|doCompaction)$`,
}

// errorsReachTheCaller: error discipline. Along the code reached from the property's
// entry points, the error returned by a call is handed on (returned, wrapped, stored,
// sent, inspected with errors.Is/As or a type assertion); it is not dropped and not merely
// compared and logged. A step of an operation that fails while the operation reports
// success is how acknowledged writes get lost, deletes resurrect and locks stay taken; the
// places where today's tree does drop or only log an error are enumerated above with
// their reasons and anything else is reported.
func errorsReachTheCaller(r *core.Run) {
	const rule = "errors-reach-the-caller"
	p := r.P
	pat, ok := errRoots[r.Property]
	if !ok {
		return
	}
	re := regexp.MustCompile(pat)
	var roots []*core.Fn
	for _, fn := range p.FuncList {
		if fn.SSA != nil && !skipPkg(fn) && re.MatchString(fn.Name) {
			roots = append(roots, fn)
		}
	}
	reach := reachable(p, roots)
	all := ErrFates(p)
	var excepted func(fn *core.Fn, callee string) (string, bool)
	excepted = func(fn *core.Fn, callee string) (string, bool) {
		if why, ok := errExceptions[fn.Name+"|"+callee]; ok {
			return why, true
		}
		// the callee is a function that did not exist when the table was written (a
		// wrapper extracted around the listed call): look at what it calls
		if g := p.Funcs[callee]; g != nil && g != fn && !p.IsRecorded(g) {
			for _, e2 := range all {
				if e2.Fn == g && p.Funcs[e2.Callee] != g {
					if why, ok := errExceptions[fn.Name+"|"+e2.Callee]; ok {
						return why, true
					}
				}
			}
		}
		return "", false
	}
	// a function that did not exist when the table was written inherits the exceptions
	// that all of its callers have (a helper extracted from them)
	var inherited func(fn *core.Fn, callee string, depth int) bool
	inherited = func(fn *core.Fn, callee string, depth int) bool {
		if _, ok := excepted(fn, callee); ok {
			return true
		}
		if depth > 3 || p.IsRecorded(fn) {
			return false
		}
		callers := p.CallersOf(fn.Obj)
		if len(callers) == 0 {
			return false
		}
		for _, cs := range callers {
			if cs.Caller == fn {
				continue
			}
			if !inherited(cs.Caller, callee, depth+1) {
				return false
			}
		}
		return true
	}
	examined, exc := 0, 0
	n := counter{}
	type key struct{ fn, callee string }
	var bad []ErrFate
	for _, e := range all {
		if !reach[e.Fn] {
			continue
		}
		examined++
		if e.Fate == "handled" {
			continue
		}
		if strings.HasPrefix(e.Fate, "dropped(") {
			// go f() / defer f(): the deferred or spawned call cannot hand its error to
			// anyone; cleanups (Close, Unlock, Done, cancel) are the only callees seen
			continue
		}
		if inherited(e.Fn, e.Callee, 0) {
			exc++
			continue
		}
		bad = append(bad, e)
	}
	sort.SliceStable(bad, func(i, j int) bool { return bad[i].Pos < bad[j].Pos })
	for _, e := range bad {
		what := "drops"
		if e.Fate == "swallowed" {
			what = "only tests and logs"
		}
		r.Bad(rule, n.next(e.Fn.Name+" "+what+" the error of "+e.Callee), site(r, e.Pos),
			e.Fn.Name+" "+what+" the error returned by "+e.Callee+": when that step fails the operation goes on and reports success (not among the enumerated places where a failure needs no reporting)")
	}
	r.OK(rule, "error-returning calls on the paths of "+r.Property, "-",
		fmt.Sprintf("%d error-returning calls in %d functions reached from %d entry points: every error is handed on, %d sites are enumerated exceptions", examined, len(reach), len(roots), exc))
	r.Floor(rule+"(entry points)", len(roots), 1)
	r.Floor(rule+"(calls)", examined, 10)
}

// callbackStops: the places of today's tree where a callback handed to a Range-style driver
// (sync.Map.Range, Engine.Range/RangeHKey, Table.Range, btree Ascend) asks the driver to
// stop before it has seen every element. Key: function | driver; value: how many such
// returns the function has, and why stopping is right there.
var callbackStops = map[string]struct {
	n   int
	why string
}{
	"internal/cluster/balancer.(*Balancer).scanPartition|sync.(*Map).Range":            {1, "the balancer gives up a partition for this pass when it meets an empty fragment or the routing table changed; the pass is repeated"},
	"internal/dmap.(*DMap).evictKeyWithLRU|pkg/storage.(Engine).Range":                 {1, "the LRU sample is complete"},
	"internal/dmap.(*Service).evictKeys|sync.(*Map).Range":                             {1, "one fragment per DMap and partition is looked at per round"},
	"internal/dmap.(*Service).scanFragmentForEviction|pkg/storage.(Engine).RangeHKey":  {1, "the per-round key budget is used up"},
	"internal/kvstore.(*KVStore).evictTable|internal/kvstore/table.(*Table).RangeHKey": {0, "only stops on an error, which evictTable returns; a full head table restarts the batch"},
	"internal/pubsub.(*PubSub).Publish|github.com/tidwall/btree.(*BTree).Ascend":       {1, "the ordered index has left the entries of this channel"},
}

// rangeCallbacksRunToTheEnd: work that is driven through a Range-style callback — moving
// the fragments of a partition, scanning a fragment for expired keys, evicting a table,
// delivering to the subscribers of a channel — covers every element unless the callback
// returns false. Such early stops are few and each has a reason (the table above); one
// more is how a scan silently stops at the first entry that does not need work.
func rangeCallbacksRunToTheEnd(r *core.Run) {
	const rule = "range-callbacks-run-to-the-end"
	p := r.P
	pat, ok := errRoots[r.Property]
	if !ok {
		return
	}
	re := regexp.MustCompile(pat)
	var roots []*core.Fn
	for _, fn := range p.FuncList {
		if fn.SSA != nil && !skipPkg(fn) && re.MatchString(fn.Name) {
			roots = append(roots, fn)
		}
	}
	reach := reachable(p, roots)
	counts := map[string]int{}
	first := map[string]LoopExit{}
	var keys []string
	for _, e := range LoopExits(p) {
		if e.Kind != "stop-callback" || !reach[e.Fn] {
			continue
		}
		k := e.Fn.Name + "|" + e.Over
		if counts[k] == 0 {
			keys = append(keys, k)
			first[k] = e
		}
		counts[k]++
	}
	sort.Strings(keys)
	for _, k := range keys {
		allowed, known := callbackStops[k]
		e := first[k]
		if !known && !p.IsRecorded(e.Fn) {
			// a function that did not exist when the table was written: judged with its callers
			inherit := 0
			for _, cs := range p.CallersOf(e.Fn.Obj) {
				if a, ok := callbackStops[cs.Caller.Name+"|"+e.Over]; ok && a.n > inherit {
					inherit = a.n
				}
			}
			allowed.n, known = inherit, inherit > 0
		}
		r.Check(known && counts[k] <= allowed.n, rule, k, site2(r, e.Pos),
			fmt.Sprintf("%d early stop(s), all enumerated: %s", counts[k], allowed.why),
			fmt.Sprintf("the callback handed to %s in %s returns false at %d place(s) where %d are known: the driver stops before it has seen every element, so the rest of the fragments, keys or subscribers are skipped in this pass", e.Over, e.Fn.Name, counts[k], allowed.n))
	}
}

func site2(r *core.Run, pos token.Pos) string { return r.P.Pos(pos) }
