package rules

import (
	"go/ast"
	"go/types"

	"olricvet/internal/core"
)

// fieldType: e is (a conversion of) a field selector; returns the field's type.
func fieldType(info *types.Info, e ast.Expr) types.Type {
	e = core.Unparen(e)
	if c, ok := e.(*ast.CallExpr); ok && len(c.Args) == 1 {
		if tv, ok := info.Types[c.Fun]; ok && tv.IsType() {
			return fieldType(info, c.Args[0])
		}
	}
	se, ok := e.(*ast.SelectorExpr)
	if !ok {
		if id, ok := e.(*ast.Ident); ok {
			if o := info.Uses[id]; o != nil {
				return o.Type()
			}
		}
		return nil
	}
	sel := info.Selections[se]
	if sel == nil || sel.Kind() != types.FieldVal {
		return nil
	}
	return sel.Obj().Type()
}
