package rules

import (
	"go/token"

	"golang.org/x/tools/go/ssa"

	"olricvet/internal/core"
)

// pipelineIndex: a pipelined command's future reads result[partID][index]; addCommand
// must therefore return exactly the position at which the command was appended to
// commands[partID], under the pipeline mutex, and execOnPartition must send the commands
// of a partition in slice order and store the results under the same partition id.
func pipelineIndex(r *core.Run) {
	name := "olric.(*DMapPipeline).addCommand"
	fn := r.Need("pipeline-index", name)
	if fn == nil {
		return
	}
	f := fn.SSA
	var upd *ssa.MapUpdate
	core.Instrs(f, func(in ssa.Instruction) {
		if mu, ok := in.(*ssa.MapUpdate); ok && core.LastField(mu.Map) == "commands" {
			upd = mu
		}
	})
	if upd == nil {
		r.Bad("pipeline-index", name+" stores the command", site(r, f.Pos()), "the command is not stored into commands[partID]")
		return
	}
	// the stored value is append(previous, cmd)
	app, _ := upd.Value.(*ssa.Call)
	isAppend := false
	var before ssa.Value
	if app != nil {
		if b, ok := app.Call.Value.(*ssa.Builtin); ok && b.Name() == "append" {
			isAppend = true
			before = app.Call.Args[0]
		}
	}
	r.Check(isAppend, "pipeline-index", name+" appends", site(r, instrPos(upd)), "commands[partID] = append(previous, cmd)", "the command is not appended to the partition's command list")
	ok := false
	for _, ret := range core.Returns(f) {
		if len(ret.Results) != 2 {
			continue
		}
		// partition id returned is the map key used
		if core.ResultValue(ret, 0) != upd.Key {
			continue
		}
		idx := core.ResultValue(ret, 1)
		// form A: len(commands[partID]) - 1 read after the update
		if sub, isSub := idx.(*ssa.BinOp); isSub && sub.Op == token.SUB {
			if k, isK := sub.Y.(*ssa.Const); isK && k.Value != nil && k.Int64() == 1 {
				if l := lenArg(sub.X); l != nil {
					if lk, isLk := l.(*ssa.Lookup); isLk && core.LastField(lk.X) == "commands" && lk.Index == upd.Key && core.Dominates(upd, lk) {
						ok = true
					}
					if l == ssa.Value(app) {
						ok = true
					}
				}
			}
		}
		// form B: len(previous) taken from the slice that was appended to
		if l := lenArg(idx); l != nil && before != nil && l == before {
			ok = true
		}
	}
	r.Check(ok, "pipeline-index", name+" returned index", site(r, f.Pos()),
		"the returned index is the position at which the command was appended", "the index handed to the future is not the position of the appended command: futures read another command's reply")
	// under the mutex
	locked := false
	core.Instrs(f, func(in ssa.Instruction) {
		if c, isC := in.(*ssa.Call); isC && methodName(c) == "Lock" && core.Dominates(in, upd) {
			locked = true
		}
	})
	r.Check(locked, "pipeline-index", name+" under the mutex", site(r, f.Pos()), "the append and the index are taken under dp.mtx", "commands are appended without the pipeline mutex: concurrent queueing hands out duplicate indexes")

	// execOnPartition
	if ex := r.Need("pipeline-index", "olric.(*DMapPipeline).execOnPartition"); ex != nil {
		ef := ex.SSA
		var partID ssa.Value
		if len(ef.Params) == 3 {
			partID = ef.Params[2]
		}
		inOrder := false
		for _, l := range core.IndexLoops(ef) {
			if lk, isLk := l.LenOf.(*ssa.Lookup); isLk && core.LastField(lk.X) == "commands" && lk.Index == partID && l.Lo == 0 && l.HiOff == 1 && !l.Desc {
				for _, c := range l.Calls() {
					if methodName(c) == "Do" {
						inOrder = true
					}
				}
			}
		}
		r.Check(inOrder, "pipeline-index", ex.Name+" sends in order", site(r, ef.Pos()), "the partition's commands are queued on the connection in slice order", "the partition's commands are not sent in the order in which they were queued")
		stored := withHelpers(r.P, ef, func(g *ssa.Function, resolve func(ssa.Value) ssa.Value) bool {
			ok := false
			core.Instrs(g, func(in ssa.Instruction) {
				if mu, isMu := in.(*ssa.MapUpdate); isMu && core.LastField(mu.Map) == "result" && resolve(mu.Key) == partID {
					if ex2, isEx := resolve(mu.Value).(*ssa.Extract); isEx {
						if c, isC := ex2.Tuple.(*ssa.Call); isC && methodName(c) == "Exec" {
							ok = true
						}
					}
				}
			})
			return ok
		})
		r.Check(stored, "pipeline-index", ex.Name+" stores the replies", site(r, ef.Pos()), "result[partID] = replies of Exec", "the replies are not stored under the partition id the futures use")
		// the connection is the partition owner's
		tgt := len(findInstrs(ef, false, callTo("olric.(*ClusterClient).clientByPartID"))) > 0
		r.Check(tgt, "pipeline-index", ex.Name+" targets the owner", site(r, ef.Pos()), "the batch is sent to the partition's owner", "the batch is not sent to the owner of the partition")
	}
}
