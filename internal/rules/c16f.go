package rules

import (
	"fmt"
	"go/token"
	"strings"

	"golang.org/x/tools/go/ssa"

	"olricvet/internal/core"
)

// addrKey renders the address a mutex method is called on so that Lock and Unlock calls on
// the same variable or field compare equal inside one function.
func addrKey(v ssa.Value, depth int) string {
	if depth > 8 {
		return fmt.Sprintf("?%p", v)
	}
	switch x := v.(type) {
	case *ssa.FieldAddr:
		return addrKey(x.X, depth+1) + "." + core.LastField(x)
	case *ssa.UnOp:
		if x.Op == token.MUL {
			return "*" + addrKey(x.X, depth+1)
		}
	case *ssa.Parameter:
		return "param:" + x.Name()
	case *ssa.FreeVar:
		return "free:" + x.Name()
	case *ssa.Global:
		return "global:" + x.Name()
	case *ssa.Alloc:
		return fmt.Sprintf("local:%s@%d", x.Comment, x.Pos())
	case *ssa.Call:
		if o := core.CalleeObj(x); o != nil {
			s := "call:" + core.QualName(o)
			for _, a := range x.Call.Args {
				s += "(" + addrKey(a, depth+1) + ")"
			}
			return s
		}
	}
	return fmt.Sprintf("?%p", v)
}

func mutexOp(in ssa.Instruction) (op, key string, ok bool) {
	c, isCall := in.(ssa.CallInstruction)
	if !isCall || len(c.Common().Args) == 0 {
		return "", "", false
	}
	o := core.CalleeObj(c)
	if o == nil {
		return "", "", false
	}
	q := core.QualName(o)
	switch q {
	case "sync.(*Mutex).Lock", "sync.(*RWMutex).Lock":
		op = "Lock"
	case "sync.(*Mutex).Unlock", "sync.(*RWMutex).Unlock":
		op = "Unlock"
	case "sync.(*RWMutex).RLock":
		op = "RLock"
	case "sync.(*RWMutex).RUnlock":
		op = "RUnlock"
	default:
		return "", "", false
	}
	return op, addrKey(c.Common().Args[0], 0), true
}

// c16LocksReleased: a mutex taken in a function is released on every way out of it — by a
// deferred unlock, or by an unlock on every path to every return. A return (typically an
// added error path) that leaves a service-wide mutex locked wedges every later request
// that needs it while the member still answers PING. Functions whose purpose is to return
// with the lock held (Lock wrappers) are recognised by having no unlock of that mutex at
// all and are listed, not judged.
func c16LocksReleased(r *core.Run) {
	const rule = "locks-released"
	p := r.P
	cnt := 0
	n := counter{}
	for _, fn := range p.FuncList {
		if fn.SSA == nil || skipPkg(fn) || strings.HasPrefix(core.RelPkg(fn.Pkg.PkgPath), "internal/testutil") || strings.HasPrefix(core.RelPkg(fn.Pkg.PkgPath), "internal/testcluster") {
			continue
		}
		for _, sf := range core.AllSSA(fn.SSA) {
			type lk struct {
				in      ssa.Instruction
				op, key string
			}
			var locks []lk
			unlocks := map[string]bool{}
			core.Instrs(sf, func(in ssa.Instruction) {
				if in.Parent() != sf {
					return
				}
				op, key, ok := mutexOp(in)
				if !ok {
					return
				}
				switch op {
				case "Lock", "RLock":
					if _, isDefer := in.(*ssa.Defer); !isDefer {
						if _, isGo := in.(*ssa.Go); !isGo {
							locks = append(locks, lk{in, op, key})
						}
					}
				default:
					unlocks[op+"|"+key] = true
				}
			})
			for _, l := range locks {
				want := "Unlock"
				if l.op == "RLock" {
					want = "RUnlock"
				}
				if !unlocks[want+"|"+l.key] {
					// never released here: a lock wrapper / a section closed by the caller
					continue
				}
				cnt++
				isRelease := func(in ssa.Instruction) bool {
					op, key, ok := mutexOp(in)
					return ok && op == want && key == l.key
				}
				// a deferred release registered before the lock (or in the same block ahead of it)
				// covers every way out as well
				covered := false
				core.Instrs(sf, func(in ssa.Instruction) {
					if d, isDefer := in.(*ssa.Defer); isDefer && isRelease(d) && core.Dominates(d, l.in) {
						covered = true
					}
				})
				var leak *ssa.BasicBlock
				if !covered {
					// search from the instruction after the lock: split the start block logically
					// by treating instructions up to the lock as already passed
					passed := false
					stop := func(in ssa.Instruction) bool {
						if in == l.in {
							passed = true
							return false
						}
						if in.Block() == l.in.Block() && !passed {
							return false
						}
						return isRelease(in)
					}
					leak = pathSearch(l.in.Block(), nil, stop, func(b *ssa.BasicBlock) bool {
						if len(b.Instrs) == 0 {
							return false
						}
						_, isRet := b.Instrs[len(b.Instrs)-1].(*ssa.Return)
						return isRet
					}, nil)
				}
				where := site(r, instrPos(l.in))
				why := "released on every way out"
				bad := ""
				if leak != nil {
					bad = "a return is reachable with " + l.key + " still locked" + blockAt(r, leak) + ": every later operation that needs this mutex blocks for ever (the member keeps answering PING but serves nothing)"
				}
				r.Check(leak == nil, rule, n.next(fnName(p, sf)+" "+l.op+" "+l.key), where, why, bad)
			}
		}
	}
	r.Floor(rule, cnt, 20)
}

// c16TickerPeriod: time.NewTicker and time.Tick panic on a non-positive period. A period
// that is computed (rather than a positive constant or a configuration field) must be
// tested positive before the call; otherwise a request that steers the value to zero
// (a deadline of 0 divided into steps, say) kills the member.
func c16TickerPeriod(r *core.Run) {
	const rule = "ticker-period-positive"
	p := r.P
	cnt := 0
	n := counter{}
	var allowed func(v ssa.Value, depth int) bool
	allowed = func(v ssa.Value, depth int) bool {
		v = canonVal(core.StripConv(v))
		switch x := v.(type) {
		case *ssa.Const:
			return x.Value != nil && x.Int64() > 0
		case *ssa.UnOp:
			if x.Op == token.MUL {
				if _, isFA := x.X.(*ssa.FieldAddr); isFA {
					return true // a configuration / struct field, set up outside the request path
				}
			}
		case *ssa.BinOp:
			// constant * constant, or field * constant
			if x.Op == token.MUL {
				return allowed(x.X, depth+1) && allowed(x.Y, depth+1)
			}
		case *ssa.Parameter:
			if depth >= 2 {
				return false
			}
			fn := x.Parent()
			obj := fn.Object()
			if obj == nil {
				return false
			}
			idx := -1
			for i, q := range fn.Params {
				if q == x {
					idx = i
				}
			}
			sites, ok := 0, true
			for _, caller := range p.FuncList {
				if caller.SSA == nil {
					continue
				}
				for _, sf := range core.AllSSA(caller.SSA) {
					core.Instrs(sf, func(in ssa.Instruction) {
						c, isCall := in.(ssa.CallInstruction)
						if !isCall || core.CalleeObj(c) == nil || core.CalleeObj(c) != obj || idx >= len(c.Common().Args) {
							return
						}
						sites++
						if !allowed(c.Common().Args[idx], depth+1) {
							ok = false
						}
					})
				}
			}
			return sites > 0 && ok
		}
		return false
	}
	for _, fn := range p.FuncList {
		if fn.SSA == nil || skipPkg(fn) || strings.HasPrefix(core.RelPkg(fn.Pkg.PkgPath), "internal/test") {
			continue
		}
		for _, sf := range core.AllSSA(fn.SSA) {
			for _, c := range findInstrs(sf, false, callTo("time.NewTicker", "time.Tick")) {
				cnt++
				arg := c.(ssa.CallInstruction).Common().Args[0]
				ok := allowed(arg, 0)
				if !ok {
					// a dominating test period > 0 (or >= a positive constant)
					for _, cd := range core.Conditions(c.Block()) {
						bin, isBin := cd.Val.(*ssa.BinOp)
						if !isBin || !core.IsCompare(bin.Op) {
							continue
						}
						k, isK := bin.Y.(*ssa.Const)
						if bin.X != arg || !isK || k.Value == nil {
							continue
						}
						// holds only for positive values?
						pos := true
						for _, ord := range []int{-1, 0} { // value < k, value == k
							if k.Int64() <= 0 && core.CmpHolds(bin.Op, ord) == cd.Truth {
								pos = false
							}
						}
						if k.Int64() < 0 {
							pos = false
						}
						if pos {
							ok = true
						}
					}
				}
				r.Check(ok, rule, n.next(fnName(p, sf)+" ticker period"), site(r, instrPos(c)),
					"the period is a positive constant, a configuration field, or tested positive",
					"the ticker's period is computed and not known to be positive: time.NewTicker panics on a period <= 0, nothing recovers, the member dies")
			}
		}
	}
	r.Floor(rule, cnt, 3)
}

// c20SemaphoreReleased: the background passes (compaction, eviction, routing updates,
// destroy fan-out, pipeline flush) bound their concurrency with a weighted semaphore. A
// slot that was acquired must be handed to a worker that releases it (or be released) on
// every way to the next iteration; a `continue` between Acquire and the `go` statement
// leaks the slot, the pass blocks for ever once all slots are gone, and the work it does
// (compaction: reclaiming dead tables) never happens again.
func semaphoreReleased(r *core.Run, rule string) {
	p := r.P
	cnt := 0
	n := counter{}
	isAcquire := callTo("golang.org/x/sync/semaphore.(*Weighted).Acquire")
	isRelease := callTo("golang.org/x/sync/semaphore.(*Weighted).Release")
	for _, fn := range p.FuncList {
		if fn.SSA == nil || skipPkg(fn) {
			continue
		}
		for _, sf := range core.AllSSA(fn.SSA) {
			for _, a := range findInstrs(sf, false, isAcquire) {
				call, ok := a.(*ssa.Call)
				if !ok {
					continue
				}
				cnt++
				// the nil edge of the acquire's error
				var okEdge, from *ssa.BasicBlock
				for _, b := range sf.Blocks {
					if len(b.Instrs) == 0 {
						continue
					}
					ifi, isIf := b.Instrs[len(b.Instrs)-1].(*ssa.If)
					if !isIf {
						continue
					}
					cv, neg := core.StripNot(ifi.Cond)
					v, nonNilTrue, isNilTest := isErrNilTest(core.Cond{If: ifi, Val: cv, Truth: true})
					if !isNilTest || v != ssa.Value(call) {
						continue
					}
					if neg {
						nonNilTrue = !nonNilTrue
					}
					idx := 1
					if !nonNilTrue {
						idx = 0
					}
					okEdge, from = b.Succs[idx], b
				}
				key := n.next(fnName(p, sf) + " semaphore slot")
				if okEdge == nil {
					r.Unknown(rule, key, site(r, instrPos(a)), "the result of Acquire is not tested")
					continue
				}
				hands := func(in ssa.Instruction) bool {
					if isRelease(in) {
						return true
					}
					// a goroutine (or errgroup.Go / deferred closure) whose body releases
					var fnv ssa.Value
					switch x := in.(type) {
					case *ssa.Go:
						fnv = x.Call.Value
					case *ssa.Defer:
						fnv = x.Call.Value
						if isRelease(in) {
							return true
						}
					case *ssa.Call:
						for _, arg := range x.Call.Args {
							if mc, isMC := arg.(*ssa.MakeClosure); isMC {
								fnv = mc
							}
						}
					}
					if mc, isMC := fnv.(*ssa.MakeClosure); isMC {
						if cf, isF := mc.Fn.(*ssa.Function); isF && len(findInstrs(cf, true, isRelease)) > 0 {
							return true
						}
					}
					if cf, isF := fnv.(*ssa.Function); isF && len(findInstrs(cf, true, isRelease)) > 0 {
						return true
					}
					return false
				}
				// leaked when the acquire block can be reached again, or the function returns
				// normally, without the slot having been handed on
				acq := a.Block()
				leak := pathSearchFrom(from, okEdge, nil, hands, func(b *ssa.BasicBlock) bool {
					if b == acq {
						return true
					}
					if len(b.Instrs) == 0 {
						return false
					}
					_, isRet := b.Instrs[len(b.Instrs)-1].(*ssa.Return)
					return isRet
				}, nil)
				r.Check(leak == nil, rule, key, site(r, instrPos(a)),
					"an acquired slot is released or handed to a worker that releases it on every way on",
					"a slot acquired here can be kept for ever"+blockAt(r, leak)+": after as many such iterations as there are slots the pass blocks in Acquire and never runs again")
			}
		}
	}
	r.Floor(rule, cnt, 4)
}

// c16GlobalMapsSynchronised: a package-level map that is written after start-up is shared by
// every connection's goroutine. The Go runtime aborts the process on a concurrent map write
// ("fatal error: concurrent map writes", not recoverable), so two requests that touch such a
// map at the same time kill the member. Every write to a package-level map outside init
// sits in a section of a mutex (a Lock call dominates it in the same function).
func c16GlobalMapsSynchronised(r *core.Run) {
	const rule = "global-map-writes-synchronised"
	p := r.P
	cnt := 0
	n := counter{}
	for _, fn := range p.FuncList {
		if fn.SSA == nil || skipPkg(fn) || strings.HasPrefix(core.RelPkg(fn.Pkg.PkgPath), "internal/test") {
			continue
		}
		for _, sf := range core.AllSSA(fn.SSA) {
			core.Instrs(sf, func(in ssa.Instruction) {
				var m ssa.Value
				switch x := in.(type) {
				case *ssa.MapUpdate:
					m = x.Map
				case *ssa.Call:
					if b, isB := x.Call.Value.(*ssa.Builtin); isB && b.Name() == "delete" && len(x.Call.Args) > 0 {
						m = x.Call.Args[0]
					}
				}
				if m == nil {
					return
				}
				u, isLoad := m.(*ssa.UnOp)
				if !isLoad || u.Op != token.MUL {
					return
				}
				g, isGlobal := u.X.(*ssa.Global)
				if !isGlobal || g.Pkg == nil || !core.IsRepoPkg(g.Pkg.Pkg) {
					return
				}
				cnt++
				locked := false
				core.Instrs(sf, func(l ssa.Instruction) {
					if op, _, ok := mutexOp(l); ok && (op == "Lock") && core.Dominates(l, in) {
						locked = true
					}
				})
				r.Check(locked, rule, n.next(fnName(p, sf)+" writes "+g.Name()), site(r, instrPos(in)),
					"the write is dominated by a mutex Lock in the same function",
					"the package-level map "+g.Name()+" is written without a mutex: requests on two connections that reach this write concurrently make the runtime abort the process (concurrent map writes)")
			})
		}
	}
	// usually there are only a few such maps (the error registry); none at all is fine too
	_ = cnt
}
