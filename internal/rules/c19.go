package rules

import (
	"fmt"
	"go/token"
	"go/types"
	"strings"

	"golang.org/x/tools/go/ssa"

	"olricvet/internal/core"
)

const (
	fnDestroyCluster = dmapPkg + ".(*DMap).destroyOnCluster"
	fnDestroyLocal   = dmapPkg + ".(*Service).destroyLocalDMap"
	fnDestroyFrag    = dmapPkg + ".(*DMap).destroyFragmentOnPartition"
	fnWipeOut        = dmapPkg + ".wipeOutFragment"
	fnLoadFragment   = dmapPkg + ".(*DMap).loadFragment"
	fnLoadOrCreate   = dmapPkg + ".(*DMap).loadOrCreateFragment"
)

func init() {
	register(&Property{
		ID: "C19",
		Explain: "Static structural necessary conditions of 'Destroy removes one DMap everywhere and DMaps never interfere' (concurrent Destroy vs Put is documented as unsupported and NOT decided): " +
			"(destroy-fan-out) destroyOnCluster sends the local destroy to every member of the routing table and returns any error; destroyLocalDMap visits every partition id below PartitionCount, destroys the primary fragment in every iteration (the only allowed skip is 'DMap unknown on this member') and the backup fragment whenever ReplicaCount > 1, has no success return inside the loop, then forgets the DMap handle; " +
			"(fragment-key-is-per-dmap) fragments are loaded, stored and wiped under the exact per-DMap fragment name (\"dmap.\"+name, an injective function of the DMap name); no code matches fragment names by a non-constant prefix; Destroy wipes exactly the fragment loaded under dm.fragmentName; " +
			"(fragment-name-normalised) a fragment-map key (\"dmap.<name>\") reaches DMap lookups and the migration pack only after the prefix was stripped exactly once, and reaches fragment-map operations unstripped — otherwise operations are applied to a DMap with a different name; " +
			"(pooled-commands-released-once) a pipeline that hands command slices back to the process-wide pool empties the map that held them before returning, so no slice is pooled twice and shared between the pipelines of two DMaps; " +
			"(engine-not-shared) every fragment gets its storage from Engine.Fork, and Fork builds fresh tables and index maps (only the table size and the configuration come from the parent).",
		Run: func(r *core.Run) {
			c19DestroyFanOut(r)
			c19DestroyLayers(r)
			c19PooledCommandsReleasedOnce(r)
			c19FragmentKey(r)
			fragmentNameNormalised(r)
			c19EngineNotShared(r)
		},
	})
}

func c19DestroyFanOut(r *core.Run) {
	p := r.P
	if fn := r.Need("destroy-fan-out", fnDestroyCluster); fn != nil {
		// members are collected from rt.Members().Range and every one is sent NewDestroy(...).SetLocal()
		reach := reachable(p, []*core.Fn{fn})
		_ = reach
		found := false
		for _, f := range core.AllSSA(fn.SSA) {
			for _, l := range core.IndexLoops(f) {
				if l.LenOf == nil || !(l.Lo == 0 && l.HiOff == 1) {
					continue
				}
				// the ranged slice is the one filled inside Members().Range
				sends := false
				for b := range l.Region() {
					for _, in := range b.Instrs {
						if mc, ok := in.(*ssa.MakeClosure); ok {
							if an, ok := mc.Fn.(*ssa.Function); ok && len(findInstrs(an, true, callTo(fnRedisProcess))) > 0 && len(findInstrs(an, true, callTo("internal/protocol.(*Destroy).SetLocal"))) > 0 {
								sends = true
							}
						}
					}
				}
				if sends {
					found = true
					// and no member is skipped: no way through an iteration avoids the spawn
					spawn := func(in ssa.Instruction) bool {
						mc, ok := in.(*ssa.MakeClosure)
						if !ok {
							return false
						}
						an, ok := mc.Fn.(*ssa.Function)
						return ok && len(findInstrs(an, true, callTo(fnRedisProcess))) > 0
					}
					skip := skippingLatch(l, spawn)
					r.Check(skip == nil, "destroy-fan-out", fnDestroyCluster+" no member skipped", site(r, l.Pos()),
						"every iteration sends the local destroy to its member (this member included)",
						"an iteration can end without sending the local destroy to its member"+blockAt(r, skip)+": that member (for example this one, handled by a direct call instead) keeps or mishandles its fragments")
				}
			}
		}
		r.Check(found, "destroy-fan-out", fnDestroyCluster+" every member", site(r, fn.SSA.Pos()),
			"a loop over all collected members sends DM.DESTROY ... LC to each", "destroyOnCluster does not send the local destroy to every member")
		// the members come from the routing table's member list
		mem := len(findInstrs(fn.SSA, true, callTo("internal/cluster/routingtable.(*RoutingTable).Members"))) > 0
		r.Check(mem, "destroy-fan-out", fnDestroyCluster+" member source", site(r, fn.SSA.Pos()), "members are taken from the routing table", "the member list is not taken from the routing table")
		// result is g.Wait()
		okRet := false
		for _, ret := range core.Returns(fn.SSA) {
			if c, ok := core.ResultValue(ret, 0).(*ssa.Call); ok && methodName(c) == "Wait" {
				okRet = true
			}
		}
		r.Check(okRet, "destroy-fan-out", fnDestroyCluster+" propagates errors", site(r, fn.SSA.Pos()), "returns errgroup.Wait()", "a member's failure to destroy is not reported")
		// a member that could not be told fails the Destroy: inside the fan-out closure the
		// transport error and the member's reply are handed back to the error group
		nc := counter{}
		for _, an := range fn.SSA.AnonFuncs {
			if len(findInstrs(an, false, callTo(fnRedisProcess))) == 0 {
				continue
			}
			ok := propagatesFailure(r.P, an, callTo(fnRedisProcess)) && propagatesFailure(r.P, an, callNamed("Err"))
			r.Check(ok, "destroy-fan-out", nc.next(fnDestroyCluster+" a member that cannot be told fails the Destroy"), site(r, an.Pos()),
				"the send's error and the member's reply are returned to the error group",
				"a DM.DESTROY that failed on its way to a member (transport error, timeout, error reply) is swallowed: Destroy reports success while that member — alive but unreachable for a moment — keeps its primary and backup fragments, and the keys are readable again")
		}
	}
	if fn := r.Need("destroy-fan-out", fnDestroyLocal); fn != nil {
		f := fn.SSA
		pt := passThrough(p)
		var loop *core.IndexLoop
		// counting loop partID := 0; partID < PartitionCount; partID++ (not a slice loop)
		for _, b := range f.Blocks {
			if len(b.Instrs) == 0 {
				continue
			}
			ifi, ok := b.Instrs[len(b.Instrs)-1].(*ssa.If)
			if !ok {
				continue
			}
			bin, ok := ifi.Cond.(*ssa.BinOp)
			if !ok || bin.Op != token.LSS || !isPC(bin.Y) {
				continue
			}
			ph, ok := bin.X.(*ssa.Phi)
			if !ok {
				continue
			}
			zero := false
			for i, e := range ph.Edges {
				if !b.Dominates(b.Preds[i]) {
					if k, isK := e.(*ssa.Const); isK && k.Value != nil && k.Uint64() == 0 {
						zero = true
					}
				}
			}
			if zero {
				loop = &core.IndexLoop{Header: b, Phi: ph, Body: core.NaturalLoop(b), Stay: b.Succs[0], Exit: b.Succs[1]}
			}
		}
		if loop == nil {
			r.Unknown("destroy-fan-out", fnDestroyLocal+" partition loop", site(r, f.Pos()), "no loop partID = 0 .. PartitionCount-1 recognised")
			return
		}
		r.OK("destroy-fan-out", fnDestroyLocal+" partition loop", site(r, instrPos(loop.Phi)), "visits partition ids 0 .. PartitionCount-1")
		region := loop.Region()
		var prim, back ssa.Instruction
		for b := range region {
			for _, in := range b.Instrs {
				if !callTo(fnDestroyFrag)(in) {
					continue
				}
				arg := in.(ssa.CallInstruction).Common().Args[1]
				if pc, ok := arg.(*ssa.Call); ok && callTo(partByID)(pc) {
					switch core.LastField(pc.Call.Args[0]) {
					case "primary":
						prim = in
					case "backup":
						back = in
					}
				}
			}
		}
		// "extract method" tolerance: the per-partition work may live in a same-package helper
		// that receives the loop's partition id; the helper call then stands for the primary
		// destroy (which must be unconditional in the helper) and the backup destroy is judged
		// by the conditions inside the helper plus those at the call site.
		var backExtra []core.Cond
		if prim == nil && back == nil {
			for b := range region {
				for _, in := range b.Instrs {
					c, isCall := in.(*ssa.Call)
					if !isCall {
						continue
					}
					h := p.ByObj[core.CalleeObj(c)]
					if h == nil || h.SSA == nil || h.SSA == f || h.Pkg.PkgPath != f.Pkg.Pkg.Path() || len(h.SSA.Blocks) == 0 {
						continue
					}
					var hp, hb ssa.Instruction
					core.Instrs(h.SSA, func(hin ssa.Instruction) {
						if hin.Parent() != h.SSA || !callTo(fnDestroyFrag)(hin) {
							return
						}
						arg := hin.(ssa.CallInstruction).Common().Args[1]
						pc, ok := arg.(*ssa.Call)
						if !ok || !callTo(partByID)(pc) {
							return
						}
						// the id is the helper's parameter bound to the loop variable
						idOK := false
						for ai, par := range h.SSA.Params {
							if ssa.Value(par) == pc.Call.Args[len(pc.Call.Args)-1] && ai < len(c.Call.Args) && c.Call.Args[ai] == ssa.Value(loop.Phi) {
								idOK = true
							}
						}
						if !idOK {
							return
						}
						switch core.LastField(pc.Call.Args[0]) {
						case "primary":
							hp = hin
						case "backup":
							hb = hin
						}
					})
					if hp != nil && hp.Block() == h.SSA.Blocks[0] {
						prim = in
						if hb != nil {
							back = hb
							backExtra = core.Conditions(in.Block())
						}
					}
				}
			}
		}
		if prim == nil {
			r.Bad("destroy-fan-out", fnDestroyLocal+" primary fragment", site(r, f.Pos()), "the primary fragment of the partition is not destroyed")
		} else {
			// every way through an iteration passes the call, except under errors.Is(err,
			// ErrDMapNotFound) (path sensitive for nil tests of the error)
			bad := ""
			latch := map[*ssa.BasicBlock]bool{}
			for _, pb := range loop.Header.Preds {
				if loop.Header.Dominates(pb) {
					latch[pb] = true
				}
			}
			body := map[*ssa.BasicBlock]bool{}
			for b := range region {
				if b != loop.Header {
					body[b] = true
				}
			}
			skip := pathSearch(loop.Stay, body, func(in ssa.Instruction) bool { return in == prim },
				func(b *ssa.BasicBlock) bool { return latch[b] },
				func(from, to *ssa.BasicBlock) bool {
					for _, cd := range edgeConds(from, to) {
						if call, ok := cd.Val.(*ssa.Call); ok && cd.Truth && callTo("errors.Is")(call) && core.IsGlobalLoad(call.Call.Args[1], dmapPkg, "ErrDMapNotFound") {
							return false
						}
					}
					return true
				})
			if skip != nil {
				bad = "an iteration can end without destroying the primary fragment"
			}
			r.Check(bad == "", "destroy-fan-out", fnDestroyLocal+" primary fragment in every iteration", site(r, instrPos(prim)),
				"every iteration destroys the primary fragment (only skip: the DMap is unknown on this member)",
				bad+" (an extra guard, e.g. 'only partitions this member currently owns'): during a hand-over the previous owner keeps its fragment, which is later migrated back — the destroyed DMap reappears")
		}
		if back == nil {
			r.Bad("destroy-fan-out", fnDestroyLocal+" backup fragment", site(r, f.Pos()), "backup fragments are never destroyed")
		} else {
			above, _ := replicaCountCond(back.Block())
			onlyRC := true
			for _, cd := range append(core.Conditions(back.Block()), backExtra...) {
				if _, ok := isFieldCmp(cd, "Config", "ReplicaCount"); ok {
					continue
				}
				if _, _, isErr := isErrNilTest(cd); isErr {
					continue
				}
				if bin, ok := cd.Val.(*ssa.BinOp); ok && isPC(bin.Y) {
					continue
				}
				if call, ok := cd.Val.(*ssa.Call); ok && callTo("errors.Is")(call) {
					continue
				}
				onlyRC = false
			}
			r.Check(above && onlyRC, "destroy-fan-out", fnDestroyLocal+" backup fragment", site(r, instrPos(back)),
				"destroyed whenever ReplicaCount > 1", "the backup fragment is destroyed under a condition other than ReplicaCount > 1: backup copies of the destroyed DMap survive and come back after a failover")
		}
		// no success return inside the loop
		for b := range region {
			for _, in := range b.Instrs {
				if ret, ok := in.(*ssa.Return); ok && b != loop.Exit {
					r.Check(!core.SuccessCapable(ret, pt), "destroy-fan-out", fnDestroyLocal+" return inside the loop", site(r, instrPos(ret)),
						"only error returns leave the loop", "a success return leaves the partition loop early")
				}
			}
		}
		// delete(s.dmaps, name) after the loop
		del := false
		core.Instrs(f, func(in ssa.Instruction) {
			if c, ok := in.(*ssa.Call); ok {
				if b, isB := c.Call.Value.(*ssa.Builtin); isB && b.Name() == "delete" && core.LastField(c.Call.Args[0]) == "dmaps" {
					del = true
				}
			}
		})
		r.Check(del, "destroy-fan-out", fnDestroyLocal+" forgets the handle", site(r, f.Pos()), "the DMap handle is removed", "the DMap handle is kept")
	}
}

func c19FragmentKey(r *core.Run) {
	p := r.P
	// (1) sync.Map operations on a partition's map
	cnt := 0
	for _, fn := range p.FuncList {
		if fn.SSA == nil || skipPkg(fn) {
			continue
		}
		rel := core.RelPkg(fn.Pkg.PkgPath)
		if rel != dmapPkg {
			continue
		}
		n := counter{}
		for _, sf := range core.AllSSA(fn.SSA) {
			core.Instrs(sf, func(in ssa.Instruction) {
				c, ok := in.(*ssa.Call)
				if !ok {
					return
				}
				o := core.CalleeObj(c)
				if o == nil || o.Pkg() == nil || o.Pkg().Path() != "sync" {
					return
				}
				switch o.Name() {
				case "Load", "Store", "Delete", "LoadOrStore", "LoadAndDelete":
				default:
					return
				}
				if recvN, ok := deref(o.Type().(*types.Signature).Recv().Type()).(*types.Named); !ok || recvN.Obj().Name() != "Map" {
					return
				}
				cnt++
				key := c.Call.Args[1]
				if mi, ok := key.(*ssa.MakeInterface); ok {
					key = mi.X
				}
				okKey := core.LastField(key) == "fragmentName"
				if pa, isP := key.(*ssa.Parameter); isP && fn.Name == fnWipeOut && pa.Name() == "name" {
					okKey = true // callers are checked below
				}
				r.Check(okKey, "fragment-key-is-per-dmap", n.next(fn.Name+" Map()."+o.Name()), site(r, instrPos(in)),
					"keyed by the DMap's fragmentName", "a partition's fragment map is accessed with a key other than the DMap's own fragmentName: two DMaps can end up sharing or overwriting a fragment")
			})
		}
	}
	r.Floor("fragment-key-is-per-dmap(map ops)", cnt, 2)
	// (2) callers of wipeOutFragment pass dm.fragmentName (Destroy) or the raw Range key (janitor)
	if w := p.Fn(fnWipeOut); w != nil {
		for _, cs := range p.CallersOf(w.Obj) {
			_ = cs
		}
	}
	if fn := r.Need("fragment-key-is-per-dmap", fnDestroyFrag); fn != nil {
		calls := findInstrs(fn.SSA, true, callTo(fnWipeOut))
		ok := len(calls) == 1 && fn.SSA == calls[0].Parent()
		if ok {
			a := calls[0].(ssa.CallInstruction).Common().Args
			ok = core.LastField(a[1]) == "fragmentName"
			// the fragment wiped is the one loaded under that exact name
			if ex, isEx := a[2].(*ssa.Extract); !isEx || !callTo(fnLoadFragment)(ex.Tuple.(ssa.Instruction)) {
				ok = false
			}
		}
		r.Check(ok, "fragment-key-is-per-dmap", fnDestroyFrag, site(r, fn.SSA.Pos()),
			"wipes exactly the fragment loaded under dm.fragmentName", "Destroy does not wipe exactly the fragment registered under the DMap's own fragment name (e.g. it ranges over the map and matches names): DMaps whose names share a prefix with the destroyed one lose their data")
	}
	// (3) no prefix matching with a non-constant prefix
	n := counter{}
	for _, fn := range p.FuncList {
		if fn.SSA == nil || skipPkg(fn) || core.RelPkg(fn.Pkg.PkgPath) != dmapPkg {
			continue
		}
		for _, c := range findInstrs(fn.SSA, true, callTo("strings.HasPrefix", "strings.Contains", "strings.HasSuffix")) {
			a := c.(ssa.CallInstruction).Common().Args
			_, isConst := a[1].(*ssa.Const)
			r.Check(isConst, "fragment-key-is-per-dmap", n.next(fn.Name+" name matching"), site(r, instrPos(c)),
				"names are matched against a constant (the data-structure prefix) only", "a name is matched by a non-constant prefix/substring (e.g. another DMap's fragment name): an operation on DMap \"a\" then also applies to \"ab\"")
		}
	}
	// (4) fragmentName is "dmap."+name
	if fn := r.Need("fragment-key-is-per-dmap", dmapPkg+".(*Service).fragmentName"); fn != nil {
		ok := false
		core.Instrs(fn.SSA, func(in ssa.Instruction) {
			if c, isC := in.(*ssa.Call); isC && callTo("fmt.Sprintf")(c) {
				if k, isK := c.Call.Args[0].(*ssa.Const); isK && k.Value != nil && strings.Trim(k.Value.ExactString(), `"`) == "dmap.%s" {
					ok = true
				}
			}
			if b, isB := in.(*ssa.BinOp); isB && b.Op == token.ADD {
				if k, isK := b.X.(*ssa.Const); isK && k.Value != nil && strings.Trim(k.Value.ExactString(), `"`) == "dmap." {
					ok = true
				}
			}
		})
		r.Check(ok, "fragment-key-is-per-dmap", fn.Name, site(r, fn.SSA.Pos()), "fragment name = constant prefix + DMap name (injective)", "the fragment name is not the constant prefix followed by the complete DMap name")
	}
}

// ---- fragment-name-normalised ----

type nameSink struct {
	need  int // 0 raw, 1 bare
	descr string
}

func stripDescr(count int) string {
	if count < 0 {
		return "the name rewritten by something other than strings.TrimPrefix(key, \"dmap.\") (must be: the registration prefix removed exactly once, nothing else touched)"
	}
	return fmt.Sprintf("the \"dmap.\" prefix stripped %d times (must be exactly once)", count)
}

func fragmentNameNormalised(r *core.Run) {
	p := r.P
	impls := implIndex(p)
	type state struct {
		v     ssa.Value
		count int
	}
	total := 0
	n := counter{}
	seenParam := map[string]bool{}
	var follow func(v ssa.Value, count int, depth int, origin string)
	follow = func(v ssa.Value, count int, depth int, origin string) {
		if depth > 4 {
			return
		}
		refs := v.Referrers()
		if refs == nil {
			return
		}
		for _, ref := range *refs {
			switch x := ref.(type) {
			case *ssa.TypeAssert:
				follow(x, count, depth, origin)
			case *ssa.Extract:
				follow(x, count, depth, origin)
			case *ssa.MakeInterface:
				follow(x, count, depth, origin)
			case *ssa.ChangeType:
				follow(x, count, depth, origin)
			case *ssa.Phi:
				// loops are not expected here
			case *ssa.Store:
				if x.Val == v {
					if fld := core.LastField(x.Addr); fld == "Name" {
						if nt, ok := deref(x.Addr.(*ssa.FieldAddr).X.Type()).(*types.Named); ok && nt.Obj().Name() == "fragmentPack" {
							total++
							r.Check(count == 1, "fragment-name-normalised", n.next(origin+" -> fragmentPack.Name"), site(r, instrPos(x)),
								"the migrated fragment carries the bare DMap name (prefix stripped once)",
								"the migration pack's Name receives a fragment-map key with "+stripDescr(count)+": the receiver merges the data into a DMap with a different name")
						}
					}
					// captured by a closure cell: follow loads of that cell
					if al, ok := x.Addr.(*ssa.Alloc); ok {
						for _, r2 := range *al.Referrers() {
							if u, ok := r2.(*ssa.UnOp); ok {
								follow(u, count, depth, origin)
							}
						}
					}
				}
			case ssa.CallInstruction:
				c := x.Common()
				o := core.CalleeObj(x)
				if o == nil {
					continue
				}
				q := core.QualName(o)
				argIdx := -1
				for i, a := range c.Args {
					if a == v {
						argIdx = i
					}
				}
				if argIdx < 0 {
					continue
				}
				switch q {
				case "strings.TrimPrefix", "strings.CutPrefix":
					if k, ok := c.Args[1].(*ssa.Const); ok && argIdx == 0 && k.Value != nil && strings.Trim(k.Value.ExactString(), `"`) == "dmap." {
						if call, ok := x.(*ssa.Call); ok {
							follow(call, count+1, depth, origin)
						}
						continue
					}
				}
				if o.Pkg() != nil && o.Pkg().Path() == "strings" {
					// any other rewriting of the key (ReplaceAll, TrimLeft, a different prefix ...)
					// is not "the registration prefix removed once": a name that merely contains
					// the prefix text comes out as a different DMap's name
					if call, ok := x.(*ssa.Call); ok {
						if bt, isB := call.Type().Underlying().(*types.Basic); isB && bt.Kind() == types.String {
							follow(call, -100, depth, origin+" via strings."+o.Name())
						}
					}
					continue
				}
				switch q {
				case dmapPkg + ".(*Service).getOrCreateDMap", dmapPkg + ".(*Service).getDMap", dmapPkg + ".(*Service).NewDMap", dmapPkg + ".(*Service).fragmentName":
					total++
					r.Check(count == 1, "fragment-name-normalised", n.next(origin+" -> "+o.Name()), site(r, instrPos(x)),
						"the DMap is looked up under its bare name (prefix stripped once)",
						"a fragment-map key reaches "+o.Name()+" with "+stripDescr(count)+": the operation (eviction deletes, migration) is applied to a DMap with a different name — e.g. expired keys are never deleted from the backups")
					continue
				}
				if o.Pkg() != nil && o.Pkg().Path() == "sync" && (o.Name() == "Delete" || o.Name() == "Load" || o.Name() == "Store") {
					total++
					r.Check(count == 0, "fragment-name-normalised", n.next(origin+" -> Map()."+o.Name()), site(r, instrPos(x)),
						"the fragment map is addressed with the unstripped key", "the fragment map is addressed with a stripped name: the fragment is not found")
					continue
				}
				// repository callee: continue with the corresponding parameter
				var targets []*types.Func
				if c.IsInvoke() {
					targets = impls[o]
				} else {
					targets = []*types.Func{o}
				}
				for _, t := range targets {
					h := p.ByObj[t]
					if h == nil || h.SSA == nil || skipPkg(h) {
						continue
					}
					pi := argIdx
					if c.IsInvoke() {
						pi = argIdx + 1 // receiver is not among Args for invoke calls
					}
					if pi >= len(h.SSA.Params) {
						continue
					}
					k := fmt.Sprintf("%s#%d@%d", h.Name, pi, count)
					if seenParam[k] {
						continue
					}
					seenParam[k] = true
					follow(h.SSA.Params[pi], count, depth+1, origin)
				}
			}
		}
	}
	// sources: first parameter of closures passed to (*sync.Map).Range on a partition map
	sources := 0
	for _, fn := range p.FuncList {
		if fn.SSA == nil || skipPkg(fn) {
			continue
		}
		for _, sf := range core.AllSSA(fn.SSA) {
			core.Instrs(sf, func(in ssa.Instruction) {
				c, ok := in.(*ssa.Call)
				if !ok {
					return
				}
				o := core.CalleeObj(c)
				if o == nil || o.Pkg() == nil || o.Pkg().Path() != "sync" || o.Name() != "Range" {
					return
				}
				// receiver comes from (*Partition).Map()
				if m, ok := c.Call.Args[0].(*ssa.Call); !ok || !callTo("internal/cluster/partitions.(*Partition).Map")(m) {
					return
				}
				_, cb := core.FuncValueObj(c.Call.Args[1])
				if cb == nil || len(cb.Params) < 1 {
					return
				}
				sources++
				follow(cb.Params[0], 0, 0, fnName(p, sf))
			})
		}
	}
	r.Floor("fragment-name-normalised(sources)", sources, 4)
	r.Floor("fragment-name-normalised(sinks)", total, 2)
}

func c19EngineNotShared(r *core.Run) {
	if fn := r.Need("engine-not-shared", dmapPkg+".(*DMap).newFragment"); fn != nil {
		ok := false
		core.Instrs(fn.SSA, func(in ssa.Instruction) {
			st, isSt := in.(*ssa.Store)
			if !isSt || core.LastField(st.Addr) != "storage" {
				return
			}
			if ex, isEx := st.Val.(*ssa.Extract); isEx {
				if c, isC := ex.Tuple.(*ssa.Call); isC && methodName(c) == "Fork" {
					ok = true
				}
			}
		})
		r.Check(ok, "engine-not-shared", fn.Name, site(r, fn.SSA.Pos()), "fragment.storage = engine.Fork(...)", "a fragment's storage is not a fresh fork of the engine: fragments (and therefore DMaps) share one store")
	}
	if fn := r.Need("engine-not-shared", kvPkg+".(*KVStore).Fork"); fn != nil {
		bad := ""
		recv := fn.SSA.Params[0]
		core.Instrs(fn.SSA, func(in ssa.Instruction) {
			if fa, ok := in.(*ssa.FieldAddr); ok && fa.X == ssa.Value(recv) {
				name := structOf(fa.X.Type()).Field(fa.Field).Name()
				if name != "tableSize" && name != "config" {
					bad = name
				}
			}
		})
		r.Check(bad == "", "engine-not-shared", fn.Name, site(r, fn.SSA.Pos()),
			"only the table size and the configuration are taken from the parent", "the forked store reads the parent's field "+bad+": parent and child share tables or index maps")
	}
}
