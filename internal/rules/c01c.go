package rules

import (
	"fmt"
	"go/token"
	"go/types"

	"golang.org/x/tools/go/ssa"

	"olricvet/internal/core"
)

// c06CollectedVersionsComplete: the versions of a key are collected first (this node, the
// previous owners, the backups) and compared afterwards. Two things must hold while
// collecting:
//   - a version appended for a REMOTE holder carries the entry that holder answered with.
//     A holder that answered "not found" is skipped; appending an empty version for it makes
//     read repair write the winner back to a holder that has just processed a Delete — the
//     deleted key is resurrected on the backup and survives the Delete;
//   - no expiry test takes part in collecting: the newest version must take part in the
//     comparison even when it is expired, otherwise an older copy on a previous owner wins
//     and the overwritten value is served after the deadline.
func c06CollectedVersionsComplete(r *core.Run) {
	const rule = "collected-versions-complete"
	p := r.P
	n := counter{}
	appends := 0
	for _, name := range []string{dmapPkg + ".(*DMap).lookupOnReplicas", dmapPkg + ".(*DMap).lookupOnOwners", dmapPkg + ".(*DMap).lookupOnPreviousOwner"} {
		fn := p.Fn(name)
		if fn == nil || fn.SSA == nil {
			continue
		}
		for _, f := range core.AllSSA(fn.SSA) {
			core.Instrs(f, func(in ssa.Instruction) {
				c, ok := in.(*ssa.Call)
				if !ok {
					return
				}
				if bi, isB := c.Call.Value.(*ssa.Builtin); !isB || bi.Name() != "append" || len(c.Call.Args) != 2 {
					return
				}
				// the appended elements: stores into the variadic array
				sl, ok := c.Call.Args[1].(*ssa.Slice)
				if !ok {
					return
				}
				arr, ok := sl.X.(*ssa.Alloc)
				if !ok {
					return
				}
				for _, ref := range *arr.Referrers() {
					ia, ok := ref.(*ssa.IndexAddr)
					if !ok {
						continue
					}
					for _, r2 := range *ia.Referrers() {
						st, ok := r2.(*ssa.Store)
						if !ok {
							continue
						}
						al, ok := st.Val.(*ssa.Alloc)
						if !ok {
							continue // a version obtained from a helper (lookupOnPreviousOwner, valueToVersion)
						}
						nt, ok := deref(al.Type()).(*types.Named)
						if !ok || nt.Obj().Name() != "version" {
							continue
						}
						appends++
						hasEntry := false
						for _, r3 := range *al.Referrers() {
							fa, ok := r3.(*ssa.FieldAddr)
							if !ok || core.LastField(fa) != "entry" {
								continue
							}
							for _, r4 := range *fa.Referrers() {
								if s4, ok := r4.(*ssa.Store); ok && s4.Addr == ssa.Value(fa) && s4.Block().Dominates(c.Block()) {
									if k, isK := s4.Val.(*ssa.Const); isK && k.IsNil() {
										continue
									}
									hasEntry = true
								}
							}
						}
						r.Check(hasEntry, rule, n.next(fnName(p, f)+" appends a version"), site(r, instrPos(c)),
							"the version appended for a remote holder carries the entry it answered with",
							"a version without an entry is appended for a remote holder (one that answered not-found, say): read repair then writes the winner to a holder that has just processed a Delete, and the deleted key comes back")
					}
				}
			})
		}
	}
	r.Floor(rule+"(appends)", appends, 1)
	// no expiry test while collecting
	cnt := 0
	for _, name := range []string{dmapPkg + ".(*DMap).lookupOnThisNode", dmapPkg + ".(*DMap).lookupOnReplicas", dmapPkg + ".(*DMap).lookupOnOwners", dmapPkg + ".(*DMap).lookupOnPreviousOwner", fnSanitize} {
		fn := r.Need(rule, name)
		if fn == nil {
			continue
		}
		cnt++
		var bad ssa.Instruction
		for _, f := range core.AllSSA(fn.SSA) {
			core.Instrs(f, func(in ssa.Instruction) {
				if callTo(dmapPkg + ".isKeyExpired")(in) {
					bad = in
				}
				if c, ok := in.(ssa.CallInstruction); ok {
					if o := core.CalleeObj(c); o != nil && core.QualName(o) == "time.Now" {
						bad = in
					}
				}
			})
		}
		where := site(r, fn.SSA.Pos())
		if bad != nil {
			where = site(r, instrPos(bad))
		}
		r.Check(bad == nil, rule, name+" has no expiry test", where,
			"the copies are collected whatever their expiry; expiry is judged on the winner",
			"an expiry test takes part in collecting the versions: an expired newest version is hidden from the comparison, so an older copy (on a previous owner, or on a backup) wins and the overwritten value is served after the deadline")
	}
	r.Floor(rule+"(collectors)", cnt, 4)
}

// kvEntrySizeFormula: the size the store computes for an entry before admitting it
// (requiredSizeForAnEntry, used by Put on the primary) is len(key) + len(value) + the
// table's MetadataLength — the same quantity Table.Put and PutRaw (the backup path, which
// gets the encoded entry) work with. A different constant makes the primary refuse sizes
// the backups accept: the Put is acknowledged by the write quorum while the primary holds
// nothing.
func kvEntrySizeFormula(r *core.Run) {
	const rule = "entry-size-formula"
	fn := r.Need(rule, kvPkg+".requiredSizeForAnEntry")
	if fn == nil {
		return
	}
	meta := constValue(r.P, tablePkg, "MetadataLength")
	var ret *ssa.Return
	core.Instrs(fn.SSA, func(in ssa.Instruction) {
		if x, ok := in.(*ssa.Return); ok {
			ret = x
		}
	})
	if ret == nil || len(ret.Results) != 1 {
		r.Unknown(rule, fn.Name, site(r, fn.SSA.Pos()), "no single result")
		return
	}
	var konst int64
	lens := map[string]int{}
	other := 0
	var walk func(v ssa.Value, depth int)
	walk = func(v ssa.Value, depth int) {
		v = core.StripConv(v)
		switch x := v.(type) {
		case *ssa.Const:
			if x.Value != nil {
				konst += x.Int64()
			}
		case *ssa.BinOp:
			if x.Op == token.ADD && depth < 12 {
				walk(x.X, depth+1)
				walk(x.Y, depth+1)
				return
			}
			other++
		case *ssa.Call:
			if b, ok := x.Call.Value.(*ssa.Builtin); ok && b.Name() == "len" && len(x.Call.Args) == 1 {
				if c, ok := x.Call.Args[0].(*ssa.Call); ok {
					lens[methodName(c)]++
					return
				}
			}
			other++
		default:
			other++
		}
	}
	walk(ret.Results[0], 0)
	ok := other == 0 && konst == meta && lens["Key"] == 1 && lens["Value"] == 1 && len(lens) == 2
	r.Check(ok, rule, fn.Name, site(r, fn.SSA.Pos()),
		fmt.Sprintf("len(key) + len(value) + %d (table.MetadataLength)", meta),
		fmt.Sprintf("the admission size is not len(key) + len(value) + table.MetadataLength (%d): constant part %d, lengths %v, other terms %d — the primary's size limit differs from the one the tables and the backup path apply, so entries of some sizes are stored on the backups and acknowledged while the primary refuses them", meta, konst, lens, other))
}
