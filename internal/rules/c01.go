package rules

import (
	"go/types"

	"golang.org/x/tools/go/ssa"

	"olricvet/internal/core"
)

func init() {
	register(&Property{
		ID: "C01",
		Explain: "Static structural necessary conditions of per-key linearizability, decided for all interleavings at once: " +
			"(lock-discipline) must-hold lockset analysis: every storage.Engine call on a fragment's storage (29 sites) is made with that fragment's lock held — write lock for mutators, read or write lock for readers — directly, through a synchronous callback, or through a requires-held summary discharged at every caller up to the roots (handlers, exported API, goroutine bodies); " +
			"(check-then-act) no function releases the fragment lock and takes it again within one invocation, so a condition evaluated on the store and the write depending on it share one lock region; " +
			"(lock-pairing) every release is dominated by an acquire of the same kind in the same function (a callee never releases its caller's lock), no acquire is deferred, every return after an acquire passes a release; " +
			"(replication-under-lock) the synchronous replication sends of a primary mutation (PutEntry / DelEntry to backups and previous owners) are issued while the fragment write lock is held; " +
			"(single-writer-routing) the functions that apply a client's write/read on the primary copy (putOnCluster, getOnCluster, deleteKey) are called only on the true edge of the owner test (CompareByName/CompareByID of the partition owner with this member), the other edge forwards to the owner; reasoned exceptions are background workers and migration; " +
			"(single-live-version / lookup-covers-all-tables) shared with C11: at most one live version per store, lookups visit every table. " +
			"(wipe-decided-under-write-lock) the janitor tests a fragment's emptiness and removes it inside one write-lock region of that fragment; (partition-formula) shared with C13: the key's hash is computed from the whole DMap name and the whole key, and the partition from that hash. " +
			"NOT decided: the real-time order itself, forwarding during routing-table changes, wall-clock timestamp ties, the janitor/Move hand-over race (DESIGN D20).",
		Assume: []string{"lock identity is type-level (any dmap.fragment RWMutex)"},
		Run: func(r *core.Run) {
			la := lockDiscipline(r)
			singleLockRegion(r)
			lockPairing(r)
			replicationUnderLock(r, la)
			singleWriterRouting(r)
			optionsCompose(r)
			kvSingleLiveVersion(r)
			kvLookupCoversAllTables(r)
			compactionShape(r)
			c02DeletePropagates(r)
			fragmentRevalidatedAfterLock(r)
			c06CollectedVersionsComplete(r)
			c03PreviousOwners(r)
			kvScanIndexRegistration(r)
			c01WipeDecidedUnderWriteLock(r)
			c13PartitionFormula(r)
		},
	})
}

// isOwnerPredicate: v is the boolean "the partition owner is this member".
func isOwnerPredicate(p *core.Prog, v ssa.Value, depth int) bool {
	switch x := v.(type) {
	case *ssa.Call:
		if o := core.CalleeObj(x); o != nil {
			switch core.QualName(o) {
			case "internal/discovery.(Member).CompareByName", "internal/discovery.(Member).CompareByID":
				return ownerVsThis(x)
			}
		}
	case *ssa.Extract:
		call, ok := x.Tuple.(*ssa.Call)
		if !ok || depth > 1 {
			return false
		}
		o := core.CalleeObj(call)
		h := p.ByObj[o]
		if h == nil || h.SSA == nil {
			return false
		}
		rets := core.Returns(h.SSA)
		if len(rets) == 0 {
			return false
		}
		for _, ret := range rets {
			if x.Index >= len(ret.Results) || !isOwnerPredicate(p, core.ResultValue(ret, x.Index), depth+1) {
				return false
			}
		}
		return true
	}
	return false
}

// ownerVsThis: one operand of the comparison comes from (*Partition).Owner(), the other
// from (*RoutingTable).This().
func ownerVsThis(c *ssa.Call) bool {
	// The owner side is either the direct result of Owner() or a member that was grouped
	// by owner before (map key in deleteKeys); it is required not to be This() itself.
	nThis, nOther := 0, 0
	for _, a := range c.Call.Args {
		if originCall(a) == "internal/cluster/routingtable.(*RoutingTable).This" {
			nThis++
		} else {
			nOther++
		}
	}
	return nThis == 1 && nOther == 1
}

func originCall(v ssa.Value) string {
	for i := 0; i < 6; i++ {
		switch x := v.(type) {
		case *ssa.Call:
			if o := core.CalleeObj(x); o != nil {
				return core.QualName(o)
			}
			return ""
		case *ssa.UnOp:
			// load of a local that was stored once
			if al, ok := x.X.(*ssa.Alloc); ok {
				if st := singleStoreCell(al); st != nil {
					v = st.Val
					continue
				}
			}
			return ""
		case *ssa.Extract:
			v = x.Tuple
		case *ssa.ChangeType:
			v = x.X
		default:
			return ""
		}
	}
	return ""
}

func underOwnerGuard(p *core.Prog, b *ssa.BasicBlock) bool {
	for _, c := range core.Conditions(b) {
		if c.Truth && isOwnerPredicate(p, c.Val, 0) {
			return true
		}
	}
	return false
}

func singleWriterRouting(r *core.Run) {
	p := r.P
	targets := []string{
		"internal/dmap.(*DMap).putOnCluster",
		"internal/dmap.(*DMap).getOnCluster",
		"internal/dmap.(*DMap).deleteKey",
	}
	exceptions := map[string]string{}
	total := 0
	for _, t := range targets {
		fn := r.Need("single-writer-routing", t)
		if fn == nil {
			continue
		}
		n := counter{}
		for _, caller := range p.FuncList {
			if caller == fn {
				continue // "start over" inside the function itself: judged at its callers
			}
			if caller.SSA == nil || skipPkg(caller) {
				continue
			}
			for _, sf := range core.AllSSA(caller.SSA) {
				for _, c := range core.CallsTo(sf, false, func(o *types.Func) bool { return o == fn.Obj }) {
					total++
					r.CallSites++
					key := n.next(caller.Name + " -> " + fn.Obj.Name())
					where := site(r, instrPos(c))
					if why, ok := exceptions[caller.Name+"->"+fn.Obj.Name()]; ok {
						r.Except("single-writer-routing", key, where, why)
						continue
					}
					r.Check(underOwnerGuard(p, c.Block()), "single-writer-routing", key, where,
						"called on the true edge of owner.CompareByName/ID(this)",
						"a client operation is applied to the local primary copy without testing that this member owns the partition: two members can then apply writes for the same key independently (lost update / stale read)")
				}
			}
		}
	}
	r.Floor("single-writer-routing", total, 3)
	// the not-owner edge of put/Get/deleteKeys forwards to the owner: the command is sent to member.String()
	for _, name := range []string{"internal/dmap.(*DMap).put", "internal/dmap.(*DMap).Get", "internal/dmap.(*DMap).deleteKeys"} {
		fn := r.Need("single-writer-routing", name)
		if fn == nil {
			continue
		}
		procs := core.CallsTo(fn.SSA, true, core.Named("github.com/redis/go-redis/v9.(*Client).Process"))
		via := findEventsVia(p, fn.SSA, callTo(fnRedisProcess)) // or through a same-package helper
		r.Check(len(procs)+len(via) >= 1, "single-writer-routing", name+" forwards on the other edge", site(r, fn.SSA.Pos()),
			"the non-owner edge sends the command to the owner", "no forwarding call on the non-owner edge")
	}
}
