package rules

import (
	"go/types"
	"strings"

	"golang.org/x/tools/go/ssa"

	"olricvet/internal/core"
)

// c16ParseErrorsChecked: in the request parsers and handlers every numeric / hex
// conversion of an argument has its error result examined (returned or branched on) —
// a malformed number must be answered with an error, not silently read as zero.
func c16ParseErrorsChecked(r *core.Run) {
	p := r.P
	isConv := func(q string) bool {
		return strings.HasPrefix(q, "strconv.Parse") || q == "strconv.Atoi" || q == "encoding/hex.DecodeString" ||
			strings.HasPrefix(q, "internal/util.Parse") || q == "internal/util.Atoi"
	}
	cnt := 0
	for _, fn := range p.FuncList {
		if fn.SSA == nil || skipPkg(fn) {
			continue
		}
		rel := core.RelPkg(fn.Pkg.PkgPath)
		isHandler := strings.HasSuffix(fn.Obj.Name(), "CommandHandler")
		if rel != "internal/protocol" && !isHandler {
			continue
		}
		n := counter{}
		for _, sf := range core.AllSSA(fn.SSA) {
			core.Instrs(sf, func(in ssa.Instruction) {
				c, ok := in.(*ssa.Call)
				if !ok {
					return
				}
				o := core.CalleeObj(c)
				if o == nil || !isConv(core.QualName(o)) {
					return
				}
				cnt++
				used := false
				for _, ref := range *c.Referrers() {
					ex, ok := ref.(*ssa.Extract)
					if !ok || !types.Identical(ex.Type(), errType) {
						continue
					}
					for _, r2 := range *ex.Referrers() {
						switch r2.(type) {
						case *ssa.BinOp, *ssa.Return, *ssa.Phi, *ssa.Store, ssa.CallInstruction, *ssa.MakeInterface:
							used = true
						}
					}
				}
				r.Check(used, "parse-errors-checked", n.next(fn.Name+" "+o.Name()), site(r, instrPos(in)),
					"the conversion's error is examined", "the error of "+o.Name()+" is discarded: a malformed numeric argument is silently read as zero instead of being answered with an error")
			})
		}
	}
	r.Floor("parse-errors-checked", cnt, 20)
}
