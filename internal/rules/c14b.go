package rules

import (
	"go/token"

	"golang.org/x/tools/go/ssa"

	"olricvet/internal/core"
)

// c14KindFollowsCommand: whether a subscription is a channel or a pattern subscription is
// decided by the command the client used (SUBSCRIBE / PSUBSCRIBE, UNSUBSCRIBE /
// PUNSUBSCRIBE), never by the look of the argument. A pattern without glob characters is
// still a pattern subscription: PUNSUBSCRIBE must find it, NUMPAT must count it, it is
// delivered as pmessage, and together with a SUBSCRIBE of the same name it is a second
// subscription. Rule: Subscribe hands the constant false, Psubscribe the constant true to
// the common subscribe routine, and the unsubscribe calls derive their flag from a
// comparison of the command name alone.
func c14KindFollowsCommand(r *core.Run) {
	const rule = "kind-follows-command"
	p := r.P
	subscribe := p.Fn(fnPSSubscribe)
	if subscribe == nil {
		r.Unknown(rule, fnPSSubscribe, "-", "anchor not found")
		return
	}
	want := map[string]string{
		"internal/pubsub.(*PubSub).Subscribe":  "false",
		"internal/pubsub.(*PubSub).Psubscribe": "true",
	}
	cnt := 0
	for name, val := range want {
		fn := r.Need(rule, name)
		if fn == nil {
			continue
		}
		calls := findInstrs(fn.SSA, false, callTo(fnPSSubscribe))
		ok := len(calls) > 0
		for _, c := range calls {
			cnt++
			args := c.(ssa.CallInstruction).Common().Args
			// receiver, conn, pattern, channel
			if len(args) < 3 {
				ok = false
				continue
			}
			k, isK := args[2].(*ssa.Const)
			if !isK || k.Value == nil || k.Value.String() != val {
				ok = false
			}
		}
		r.Check(ok, rule, name+" pattern flag", site(r, fn.SSA.Pos()),
			"registers with pattern = "+val+" whatever the argument looks like",
			"the kind of the subscription is not the constant "+val+" implied by the command: e.g. a PSUBSCRIBE of a pattern without glob characters is stored as a channel subscription — PUNSUBSCRIBE does not find it, NUMPAT/NUMSUB/CHANNELS are wrong and a SUBSCRIBE of the same name collapses with it into one delivery")
	}
	// every other caller of subscribe/unsubscribe derives the flag from the command name
	for _, target := range []string{fnPSSubscribe, fnPSUnsub} {
		t := p.Fn(target)
		if t == nil {
			continue
		}
		n := counter{}
		for _, fn := range p.FuncList {
			if fn.SSA == nil || want[fn.Name] != "" {
				continue
			}
			for _, sf := range core.AllSSA(fn.SSA) {
				for _, c := range findInstrs(sf, false, callTo(target)) {
					cnt++
					args := c.(ssa.CallInstruction).Common().Args
					if len(args) < 3 {
						continue
					}
					v := canonVal(args[2])
					ok := false
					switch x := v.(type) {
					case *ssa.Const:
						ok = true
					case *ssa.BinOp:
						// command == "punsubscribe"
						_, k1 := x.X.(*ssa.Const)
						_, k2 := x.Y.(*ssa.Const)
						ok = k1 || k2
					case *ssa.Parameter:
						ok = true // forwarded flag, judged at the caller
					}
					r.Check(ok, rule, n.next(fnName(p, sf)+" -> "+t.Obj.Name()+" pattern flag"), site(r, instrPos(c)),
						"the flag is a constant or a comparison of the command name",
						"the pattern flag handed to "+t.Obj.Name()+" is computed from something other than the command name")
				}
			}
		}
	}
	r.Floor(rule, cnt, 4)
}

// c14UnsubscribeKindFilter: an argument-less UNSUBSCRIBE cancels the connection's channel
// subscriptions and nothing else; PUNSUBSCRIBE the pattern subscriptions and nothing else.
// Wherever unsubscribe walks the connection's entries, an entry is selected (collected,
// kept, handed on) only on the equal edge of entry.pattern == pattern.
func c14UnsubscribeKindFilter(r *core.Run) {
	const rule = "unsubscribe-kind-filter"
	fn := r.Need(rule, fnPSUnsub)
	if fn == nil {
		return
	}
	cnt := 0
	n := counter{}
	for _, sf := range core.AllSSA(fn.SSA) {
		core.Instrs(sf, func(in ssa.Instruction) {
			ex, ok := in.(*ssa.Extract)
			if !ok || ex.Index != 1 {
				return
			}
			nx, isNx := ex.Tuple.(*ssa.Next)
			if !isNx {
				return
			}
			rg, isRange := nx.Iter.(*ssa.Range)
			if !isRange || core.LastField(rg.X) != "entries" {
				return
			}
			// uses of the entry other than reading its fields
			for _, ref := range *ex.Referrers() {
				if _, isFA := ref.(*ssa.FieldAddr); isFA {
					continue
				}
				if _, isDbg := ref.(*ssa.DebugRef); isDbg {
					continue
				}
				cnt++
				filtered := false
				conds := core.Conditions(ref.Block())
				if phi, isPhi := ref.(*ssa.Phi); isPhi {
					// the entry flows into a variable: judge the edge it arrives on
					conds = nil
					for i, e := range phi.Edges {
						if e == ssa.Value(ex) {
							conds = append(conds, edgeConds(phi.Block().Preds[i], phi.Block())...)
						}
					}
				}
				for _, cd := range conds {
					bin, isBin := cd.Val.(*ssa.BinOp)
					if isBin && ((bin.Op == token.EQL && cd.Truth) || (bin.Op == token.NEQ && !cd.Truth)) && (core.LastField(bin.X) == "pattern" || core.LastField(bin.Y) == "pattern") {
						filtered = true
					}
				}
				r.Check(filtered, rule, n.next(fnName(r.P, sf)+" selects an entry"), site(r, instrPos(ref)),
					"only entries of the kind the command names are selected (entry.pattern == pattern)",
					"an entry of the connection is selected without comparing its kind with the command's: a bare UNSUBSCRIBE also cancels the pattern subscriptions (or PUNSUBSCRIBE the channel ones), their messages stop and NUMPAT/NUMSUB/CHANNELS drop subscriptions the client still holds")
			}
		})
	}
	r.Floor(rule, cnt, 2)
}

// c14SubscribersNotIdleClosed: a connection in subscriber mode is detached from redcon's
// serve loop, which is the only place where the idle read deadline is re-armed. If the
// server is given an idle timeout, every subscriber is cut off that long after its
// SUBSCRIBE although it neither unsubscribed nor disconnected — unless the subscriber loop
// re-arms the deadline itself.
func c14SubscribersNotIdleClosed(r *core.Run) {
	const rule = "subscribers-not-idle-closed"
	p := r.P
	sets := false
	var where ssa.Instruction
	for _, fn := range p.FuncList {
		if fn.SSA == nil || core.RelPkg(fn.Pkg.PkgPath) != "olric" {
			continue
		}
		core.Instrs(fn.SSA, func(in ssa.Instruction) {
			if st, ok := in.(*ssa.Store); ok && core.LastField(st.Addr) == "IdleClose" {
				if fa, isFA := st.Addr.(*ssa.FieldAddr); isFA {
					if t := deref(fa.X.Type()); t != nil && t.String() == core.Module+"/internal/server.Config" {
						sets, where = true, in
					}
				}
			}
		})
	}
	rearm := false
	if bg := p.Fn(fnBgrunner); bg != nil && bg.SSA != nil {
		for _, sf := range core.AllSSA(bg.SSA) {
			if len(findInstrs(sf, false, callNamed("SetReadDeadline"))) > 0 || len(findInstrs(sf, false, callNamed("SetDeadline"))) > 0 {
				rearm = true
			}
		}
	}
	pos := "-"
	if where != nil {
		pos = site(r, instrPos(where))
	}
	r.Check(!sets || rearm, rule, "idle timeout and detached subscribers", pos,
		"the RESP server gets no idle timeout (or the subscriber loop re-arms the deadline)",
		"the RESP server is configured with an idle timeout while the detached subscriber loop never re-arms the read deadline: every subscriber is disconnected that long after SUBSCRIBE and silently stops receiving messages")
}
