package rules

import (
	"golang.org/x/tools/go/ssa"

	"olricvet/internal/core"
)

// c14KindFollowsCommand: whether a subscription is a channel or a pattern subscription is
// decided by the command the client used (SUBSCRIBE / PSUBSCRIBE, UNSUBSCRIBE /
// PUNSUBSCRIBE), never by the look of the argument. A pattern without glob characters is
// still a pattern subscription: PUNSUBSCRIBE must find it, NUMPAT must count it, it is
// delivered as pmessage, and together with a SUBSCRIBE of the same name it is a second
// subscription. Rule: Subscribe hands the constant false, Psubscribe the constant true to
// the common subscribe routine, and the unsubscribe calls derive their flag from a
// comparison of the command name alone.
func c14KindFollowsCommand(r *core.Run) {
	const rule = "kind-follows-command"
	p := r.P
	subscribe := p.Fn(fnPSSubscribe)
	if subscribe == nil {
		r.Unknown(rule, fnPSSubscribe, "-", "anchor not found")
		return
	}
	want := map[string]string{
		"internal/pubsub.(*PubSub).Subscribe":  "false",
		"internal/pubsub.(*PubSub).Psubscribe": "true",
	}
	cnt := 0
	for name, val := range want {
		fn := r.Need(rule, name)
		if fn == nil {
			continue
		}
		calls := findInstrs(fn.SSA, false, callTo(fnPSSubscribe))
		ok := len(calls) > 0
		for _, c := range calls {
			cnt++
			args := c.(ssa.CallInstruction).Common().Args
			// receiver, conn, pattern, channel
			if len(args) < 3 {
				ok = false
				continue
			}
			k, isK := args[2].(*ssa.Const)
			if !isK || k.Value == nil || k.Value.String() != val {
				ok = false
			}
		}
		r.Check(ok, rule, name+" pattern flag", site(r, fn.SSA.Pos()),
			"registers with pattern = "+val+" whatever the argument looks like",
			"the kind of the subscription is not the constant "+val+" implied by the command: e.g. a PSUBSCRIBE of a pattern without glob characters is stored as a channel subscription — PUNSUBSCRIBE does not find it, NUMPAT/NUMSUB/CHANNELS are wrong and a SUBSCRIBE of the same name collapses with it into one delivery")
	}
	// every other caller of subscribe/unsubscribe derives the flag from the command name
	for _, target := range []string{fnPSSubscribe, fnPSUnsub} {
		t := p.Fn(target)
		if t == nil {
			continue
		}
		n := counter{}
		for _, fn := range p.FuncList {
			if fn.SSA == nil || want[fn.Name] != "" {
				continue
			}
			for _, sf := range core.AllSSA(fn.SSA) {
				for _, c := range findInstrs(sf, false, callTo(target)) {
					cnt++
					args := c.(ssa.CallInstruction).Common().Args
					if len(args) < 3 {
						continue
					}
					v := canonVal(args[2])
					ok := false
					switch x := v.(type) {
					case *ssa.Const:
						ok = true
					case *ssa.BinOp:
						// command == "punsubscribe"
						_, k1 := x.X.(*ssa.Const)
						_, k2 := x.Y.(*ssa.Const)
						ok = k1 || k2
					case *ssa.Parameter:
						ok = true // forwarded flag, judged at the caller
					}
					r.Check(ok, rule, n.next(fnName(p, sf)+" -> "+t.Obj.Name()+" pattern flag"), site(r, instrPos(c)),
						"the flag is a constant or a comparison of the command name",
						"the pattern flag handed to "+t.Obj.Name()+" is computed from something other than the command name")
				}
			}
		}
	}
	r.Floor(rule, cnt, 4)
}
