package rules

import (
	"go/token"
	"strings"

	"golang.org/x/tools/go/ssa"

	"olricvet/internal/core"
)

// c15ParserConsumesAllArguments: the option parsers of internal/protocol read their
// arguments in a loop; a command is accepted only after the loop has seen every argument.
// A success return from inside the loop (at NX, say) silently drops the options that
// follow it: `DM.PUT k v NX PX 3000` is acknowledged and stored without expiry, while the
// clients, which emit the options in another order, are unaffected.
func c15ParserConsumesAllArguments(r *core.Run) {
	const rule = "parser-consumes-all-arguments"
	p := r.P
	loops := map[string]bool{}
	for _, e := range LoopExits(p) {
		if !strings.HasPrefix(e.Fn.Name, "internal/protocol.Parse") {
			continue
		}
		loops[e.Fn.Name] = true
		if e.Kind == "return-success" || e.Kind == "return" {
			r.Bad(rule, e.Fn.Name+" returns from inside its argument loop", site(r, e.Pos),
				e.Fn.Name+" accepts the command from inside the loop over its arguments: the arguments after that point are never looked at, so options written after it are silently dropped (the condition is honoured, the expiry is not)")
		}
	}
	for name := range loops {
		r.OK(rule, name, "-", "the command is accepted only after the argument loop has ended")
	}
	r.Floor(rule, len(loops), 2)
}

// c14ConnectionWritesUnderConnLock: a subscriber connection is written by several
// goroutines (every publisher, and the connection's own reader loop for replies), and
// redcon's writer is not safe for concurrent use. Every Write*/Flush/Close on a
// connection's dconn happens while that connection's mutex is held: taken before, and not
// released before the call. Flushing after the unlock interleaves frames of concurrent
// publishers: duplicated, lost and torn messages while PUBLISH reports one delivery each.
func c14ConnectionWritesUnderConnLock(r *core.Run) {
	const rule = "connection-writes-under-conn-lock"
	p := r.P
	n := counter{}
	cnt := 0
	for _, fn := range p.FuncList {
		if fn.SSA == nil || skipPkg(fn) || core.RelPkg(fn.Pkg.PkgPath) != "internal/pubsub" {
			continue
		}
		for _, f := range core.AllSSA(fn.SSA) {
			core.Instrs(f, func(in ssa.Instruction) {
				c, ok := in.(ssa.CallInstruction)
				if !ok {
					return
				}
				com := c.Common()
				var recv ssa.Value
				name := ""
				if com.IsInvoke() {
					recv, name = com.Value, com.Method.Name()
				} else if o := core.CalleeObj(c); o != nil && len(com.Args) > 0 {
					recv, name = com.Args[0], o.Name()
				}
				if recv == nil || core.LastField(recv) != "dconn" {
					return
				}
				if !(strings.HasPrefix(name, "Write") || name == "Flush" || name == "Close") {
					return
				}
				if _, isDefer := in.(*ssa.Defer); isDefer {
					return
				}
				cnt++
				// the owner of dconn and its mutex
				u, _ := recv.(*ssa.UnOp)
				var owner ssa.Value
				if u != nil {
					if fa, ok := u.X.(*ssa.FieldAddr); ok {
						owner = fa.X
					}
				}
				held := false
				why := "no Lock of the connection's mutex dominates the call"
				core.Instrs(f, func(l ssa.Instruction) {
					op, _, ok := mutexOp(l)
					if !ok || op != "Lock" || !core.Dominates(l, in) {
						return
					}
					lc := l.(ssa.CallInstruction).Common().Args[0]
					fa, ok := lc.(*ssa.FieldAddr)
					if !ok || core.LastField(fa) != "mu" || (owner != nil && canonVal(fa.X) != canonVal(owner)) {
						return
					}
					released := false
					core.Instrs(f, func(ul ssa.Instruction) {
						if _, isDefer := ul.(*ssa.Defer); isDefer {
							return
						}
						op2, _, ok2 := mutexOp(ul)
						if !ok2 || op2 != "Unlock" {
							return
						}
						fa2, ok := ul.(ssa.CallInstruction).Common().Args[0].(*ssa.FieldAddr)
						if !ok || canonVal(fa2.X) != canonVal(fa.X) {
							return
						}
						if core.Dominates(l, ul) && reachableAfter(ul, in) {
							released = true
						}
					})
					if released {
						why = "the connection's mutex is released before the call"
					} else {
						held = true
					}
				})
				if !held && f.Parent() != nil {
					// a closure run synchronously by its parent, which holds the lock
					// (taken before the closure is made, released by a deferred call)
					par := f.Parent()
					core.Instrs(par, func(mk ssa.Instruction) {
						mc, ok := mk.(*ssa.MakeClosure)
						if !ok || mc.Fn != ssa.Value(f) {
							return
						}
						if _, mode := closureUse(f); mode != "sync" {
							return
						}
						core.Instrs(par, func(l ssa.Instruction) {
							op, _, ok := mutexOp(l)
							if !ok || op != "Lock" || !core.Dominates(l, mk) {
								return
							}
							if fa, ok := l.(ssa.CallInstruction).Common().Args[0].(*ssa.FieldAddr); ok && core.LastField(fa) == "mu" {
								explicit := false
								core.Instrs(par, func(ul ssa.Instruction) {
									if _, isDefer := ul.(*ssa.Defer); isDefer {
										return
									}
									if op2, _, ok2 := mutexOp(ul); ok2 && op2 == "Unlock" {
										if fa2, ok := ul.(ssa.CallInstruction).Common().Args[0].(*ssa.FieldAddr); ok && canonVal(fa2.X) == canonVal(fa.X) {
											explicit = true
										}
									}
								})
								if !explicit && core.LastField(fa.X) != "ps" {
									held = true
								}
							}
						})
					})
				}
				r.Check(held, rule, n.next(fnName(p, f)+" dconn."+name), site(r, instrPos(in)),
					"called with the connection's mutex held",
					"dconn."+name+" is called without the connection's mutex ("+why+"): concurrent publishers and the connection's own reader write to the same unsynchronised redcon writer, so frames are interleaved — subscribers see duplicated, missing and torn messages")
			})
		}
	}
	r.Floor(rule, cnt, 10)
}

// c11TableWritesWholeHeader: a table's memory is reused without being cleared (Reset keeps
// it, makeTable takes recycled tables back into service). Table.Put therefore writes every
// field of an entry's header on every call: each write into t.memory dominates the
// successful return. A field written only "when non-zero" lets the bytes of an earlier
// entry show through as a TTL or a timestamp.
func c11TableWritesWholeHeader(r *core.Run) {
	const rule = "table-writes-whole-header"
	cnt := 0
	for _, name := range []string{tablePkg + ".(*Table).Put"} {
		fn := r.Need(rule, name)
		if fn == nil {
			continue
		}
		f := fn.SSA
		var success []*ssa.Return
		for _, ret := range core.Returns(f) {
			if k, ok := ret.Results[len(ret.Results)-1].(*ssa.Const); ok && k.IsNil() {
				success = append(success, ret)
			}
		}
		n := counter{}
		core.Instrs(f, func(in ssa.Instruction) {
			c, ok := in.(*ssa.Call)
			if !ok {
				return
			}
			what := ""
			if o := core.CalleeObj(c); o != nil && strings.HasPrefix(core.QualName(o), "encoding/binary.(bigEndian).PutUint") {
				what = o.Name()
			} else if b, isB := c.Call.Value.(*ssa.Builtin); isB && b.Name() == "copy" {
				what = "copy"
			}
			if what == "" {
				return
			}
			// the destination is table memory
			dst := c.Call.Args[len(c.Call.Args)-2]
			if what != "copy" {
				dst = c.Call.Args[len(c.Call.Args)-2]
			} else {
				dst = c.Call.Args[0]
			}
			sl, ok := dst.(*ssa.Slice)
			if !ok || !isMemoryLoad(sl.X) {
				return
			}
			cnt++
			always := len(success) > 0
			for _, ret := range success {
				if !c.Block().Dominates(ret.Block()) {
					always = false
				}
			}
			r.Check(always, rule, n.next(name+" "+what+" into memory"), site(r, instrPos(c)),
				"written on every successful call",
				"a field of the entry is written into the table's memory only on some paths: the memory of a recycled table is not cleared, so the bytes an earlier entry left there are read back as this entry's field (a TTL of 0 reads back as garbage and the key expires or not at random)")
		})
	}
	r.Floor(rule, cnt, 6)
}

// c11IdleTableRemovedByItsOwnIndex: compaction releases recycled tables that stayed idle.
// The element removed from k.tables is the one whose state was just tested: the index of
// the removal is the index of the running loop over k.tables. Indices collected in a first
// pass go stale with the first removal and a live table is released instead.
func c11IdleTableRemovedByItsOwnIndex(r *core.Run) {
	const rule = "idle-table-removed-by-its-own-index"
	fn := r.Need(rule, kvPkg+".(*KVStore).Compaction")
	if fn == nil {
		return
	}
	f := fn.SSA
	recycled := constValue(r.P, tablePkg, "RecycledState")
	cnt := 0
	n := counter{}
	loops := core.IndexLoops(f)
	core.Instrs(f, func(in ssa.Instruction) {
		sl, ok := in.(*ssa.Slice)
		if !ok || !isTablesLoad(sl.X) || sl.High == nil || sl.Low != nil {
			return
		}
		// k.tables[:i] of the removal append(k.tables[:i], k.tables[i+1:]...)
		cnt++
		idx := sl.High
		own := false
		for _, l := range loops {
			if l.LenOf != nil && isTablesLoad(l.LenOf) && (l.Index == idx || ssa.Value(l.Phi) == idx) && l.Region()[sl.Block()] {
				own = true
			}
		}
		tested := false
		for _, cd := range core.Conditions(sl.Block()) {
			bin, ok := cd.Val.(*ssa.BinOp)
			if !ok || bin.Op != token.EQL || !cd.Truth {
				continue
			}
			c, ok := bin.X.(*ssa.Call)
			k, isK := bin.Y.(*ssa.Const)
			if !ok || !isK || methodName(c) != "State" || k.Value == nil || k.Int64() != recycled {
				continue
			}
			if u, ok := c.Call.Args[0].(*ssa.UnOp); ok {
				if ia, ok := u.X.(*ssa.IndexAddr); ok && isTablesLoad(ia.X) && ia.Index == idx {
					tested = true
				}
			}
		}
		_ = own
		r.Check(tested, rule, n.next(fn.Name+" removal from k.tables"), site(r, instrPos(sl)),
			"the table removed is k.tables[i] of the running loop, found in RecycledState in the same iteration",
			"the index of the removal is not the index of a running loop over k.tables whose element was just found recycled (indices collected earlier go stale with the first removal): a table holding live entries is released and its keys are lost without any Delete")
	})
	r.Floor(rule, cnt, 1)
}

// c13TimerRearmed: a periodic worker driven by a time.Timer must re-arm it on every way
// round its loop. A Reset on the success path only ends the periodic work with the first
// failure: a cluster client whose routing-table refresh failed once keeps its stale table
// for the rest of its life.
func c13TimerRearmed(r *core.Run) {
	const rule = "timer-rearmed"
	p := r.P
	n := counter{}
	cnt := 0
	for _, fn := range p.FuncList {
		if fn.SSA == nil || skipPkg(fn) {
			continue
		}
		for _, f := range core.AllSSA(fn.SSA) {
			var timers []*ssa.Call
			core.Instrs(f, func(in ssa.Instruction) {
				if c, ok := in.(*ssa.Call); ok {
					if o := core.CalleeObj(c); o != nil && core.QualName(o) == "time.NewTimer" {
						timers = append(timers, c)
					}
				}
			})
			for _, tm := range timers {
				// received from inside a loop?
				var recvBlocks []*ssa.BasicBlock
				core.Instrs(f, func(in ssa.Instruction) {
					isC := func(v ssa.Value) bool {
						u, ok := v.(*ssa.UnOp)
						if !ok {
							return false
						}
						fa, ok := u.X.(*ssa.FieldAddr)
						return ok && core.LastField(fa) == "C" && canonVal(fa.X) == canonVal(tm)
					}
					switch x := in.(type) {
					case *ssa.Select:
						for _, st := range x.States {
							if isC(st.Chan) {
								recvBlocks = append(recvBlocks, in.Block())
							}
						}
					case *ssa.UnOp:
						if x.Op == token.ARROW && isC(x.X) {
							recvBlocks = append(recvBlocks, in.Block())
						}
					}
				})
				isReset := func(in ssa.Instruction) bool {
					c, ok := in.(ssa.CallInstruction)
					if !ok {
						return false
					}
					o := core.CalleeObj(c)
					return o != nil && core.QualName(o) == "time.(*Timer).Reset" && canonVal(c.Common().Args[0]) == canonVal(tm)
				}
				for _, rb := range recvBlocks {
					for _, h := range loopHeaders(f) {
						body := core.NaturalLoop(h)
						if !body[rb] {
							continue
						}
						cnt++
						// a cycle through the receive that avoids every Reset
						avoid := map[*ssa.BasicBlock]bool{}
						for b := range body {
							for _, in := range b.Instrs {
								if isReset(in) {
									avoid[b] = true
								}
							}
						}
						stuck := false
						if !avoid[rb] {
							seen := map[*ssa.BasicBlock]bool{}
							var walk func(b *ssa.BasicBlock) bool
							walk = func(b *ssa.BasicBlock) bool {
								for _, s := range b.Succs {
									if !body[s] || avoid[s] {
										continue
									}
									if s == rb {
										return true
									}
									if !seen[s] {
										seen[s] = true
										if walk(s) {
											return true
										}
									}
								}
								return false
							}
							stuck = walk(rb)
						}
						r.Check(!stuck, rule, n.next(fnName(p, f)+" timer loop"), site(r, instrPos(tm)),
							"every way round the loop re-arms the timer",
							"the loop can come back to waiting for the timer without having re-armed it (Reset is missing on some path, typically the error path): the timer never fires again and the periodic work — a routing-table refresh, a retry — silently stops after the first failure")
						break
					}
				}
			}
		}
	}
	r.Floor(rule, cnt, 1)
}
