package rules

import (
	"go/token"

	"golang.org/x/tools/go/ssa"

	"olricvet/internal/core"
)

// c09ExplicitExpiryWins: prepareTTL turns a request into the stored deadline. The
// request's own expiry options (EX, PX, EXAT, PXAT) take precedence over env.timeout,
// which putOnCluster fills from the DMap's default TTL when the request carries none (and
// which Incr/Decr use to carry the remaining time). If the timeout were consulted first, a
// DMap with a default TTL would silently replace every explicit deadline: keys stay
// visible long after the deadline the caller asked for. Rule: every result of prepareTTL
// that is computed from env.timeout is produced on the false edges of all four Has* flags.
func c09ExplicitExpiryWins(r *core.Run) {
	const rule = "explicit-expiry-wins"
	fn := r.Need(rule, dmapPkg+".prepareTTL")
	if fn == nil {
		return
	}
	f := fn.SSA
	flags := []string{"HasEX", "HasPX", "HasEXAT", "HasPXAT"}
	// values derived from a load of env.timeout
	var fromTimeout func(v ssa.Value, depth int) bool
	fromTimeout = func(v ssa.Value, depth int) bool {
		if depth > 8 || v == nil {
			return false
		}
		switch x := v.(type) {
		case *ssa.UnOp:
			if x.Op == token.MUL && core.LastField(x) == "timeout" {
				return true
			}
			return fromTimeout(x.X, depth+1)
		case *ssa.BinOp:
			return fromTimeout(x.X, depth+1) || fromTimeout(x.Y, depth+1)
		case *ssa.Call:
			for _, a := range x.Call.Args {
				if fromTimeout(a, depth+1) {
					return true
				}
			}
		case *ssa.Convert:
			return fromTimeout(x.X, depth+1)
		case *ssa.FieldAddr:
			return core.LastField(x) == "timeout"
		}
		return false
	}
	cnt := 0
	n := counter{}
	judge := func(v ssa.Value, at *ssa.BasicBlock, conds []core.Cond, where token.Pos) {
		if !fromTimeout(v, 0) {
			return
		}
		cnt++
		cleared := map[string]bool{}
		for _, cd := range conds {
			if !cd.Truth {
				cleared[core.LastField(cd.Val)] = true
			}
		}
		var missing []string
		for _, fl := range flags {
			if !cleared[fl] {
				missing = append(missing, fl)
			}
		}
		r.Check(len(missing) == 0, rule, n.next(fn.Name+" deadline from env.timeout"), site(r, where),
			"the request's timeout (the DMap's default TTL) decides the deadline only when none of EX, PX, EXAT, PXAT was given",
			"the deadline is taken from env.timeout although an explicit expiry option may be set (not on the false edge of every Has* flag): a DMap with a default TTL overrides the deadline the caller asked for, and the key stays visible after it")
		_ = at
	}
	for _, ret := range core.Returns(f) {
		v := core.ResultValue(ret, 0)
		if phi, ok := v.(*ssa.Phi); ok {
			var walk func(p *ssa.Phi, depth int)
			walk = func(p *ssa.Phi, depth int) {
				for i, e := range p.Edges {
					if inner, isPhi := e.(*ssa.Phi); isPhi && depth < 3 {
						walk(inner, depth+1)
						continue
					}
					where := instrPos(ret)
					if in, isIn := e.(ssa.Instruction); isIn {
						where = instrPos(in)
					}
					judge(e, p.Block().Preds[i], edgeConds(p.Block().Preds[i], p.Block()), where)
				}
			}
			walk(phi, 0)
			continue
		}
		judge(v, ret.Block(), core.Conditions(ret.Block()), instrPos(ret))
	}
	r.Floor(rule, cnt, 1)
}

// c09SanitizeKeepsVersions: the version list of a quorum read is sanitised before the
// newest-first sort: only holders that answered "no copy" (entry == nil) are removed.
// Every real copy — expired or not — must take part in the comparison: if an expired
// newest version were removed here, an older version without expiry from a lagging
// replica or a previous owner would win, and the read would return a value after the
// key's deadline (and read-repair would spread it).
func c09SanitizeKeepsVersions(r *core.Run) {
	const rule = "sanitize-keeps-every-copy"
	fn := r.Need(rule, fnSanitize)
	if fn == nil {
		return
	}
	f := fn.SSA
	cnt := 0
	n := counter{}
	for _, l := range core.IndexLoops(f) {
		if _, isPar := l.LenOf.(*ssa.Parameter); !isPar {
			continue
		}
		for b := range l.Region() {
			for _, in := range b.Instrs {
				c, ok := in.(*ssa.Call)
				if !ok {
					continue
				}
				if bi, isB := c.Call.Value.(*ssa.Builtin); !isB || bi.Name() != "append" {
					continue
				}
				cnt++
				onlyNil := true
				for _, cd := range core.Conditions(b) {
					if cd.If.Block() == l.Header || !l.Region()[cd.If.Block()] {
						continue // the loop condition itself and what precedes the loop
					}
					v, _, isNilTest := isErrNilTest(cd)
					if isNilTest && core.LastField(v) == "entry" {
						continue
					}
					onlyNil = false
				}
				r.Check(onlyNil, rule, n.next(fn.Name+" keeps a version"), site(r, instrPos(in)),
					"a version is dropped only when its holder had no copy (entry == nil)",
					"a version is kept only under a condition other than 'the holder has a copy': an expired newest version is dropped before the comparison and an older copy without expiry wins — the key is visible after its deadline")
			}
		}
	}
	r.Floor(rule, cnt, 1)
}

// c09RelativeExpiryFromNow: a relative expiry (EX, PX, the request timeout) becomes the
// stored deadline by adding it to the current time at the moment the write is applied.
// Measuring it from a time stamp taken earlier (the env's creation time, say) shortens the
// lifetime by however long the request waited — a lock granted after a wait is released
// before its timeout, or is stored already expired while its caller holds a token.
func c09RelativeExpiryFromNow(r *core.Run) {
	const rule = "relative-expiry-from-now"
	fn := r.Need(rule, dmapPkg+".prepareTTL")
	if fn == nil {
		return
	}
	cnt := 0
	n := counter{}
	core.Instrs(fn.SSA, func(in ssa.Instruction) {
		bin, ok := in.(*ssa.BinOp)
		if !ok || bin.Op != token.ADD {
			return
		}
		isDur := func(v ssa.Value) bool {
			c, isCall := core.StripConv(v).(*ssa.Call)
			return isCall && methodName(c) == "Nanoseconds"
		}
		var other ssa.Value
		switch {
		case isDur(bin.X):
			other = bin.Y
		case isDur(bin.Y):
			other = bin.X
		default:
			return
		}
		cnt++
		r.Check(derivesFromNow(other), rule, n.next(fn.Name+" relative deadline"), site(r, instrPos(bin)),
			"the duration is added to time.Now()",
			"a relative expiry is added to something other than the current time (a time stamp taken when the request was created): the key's lifetime is shortened by the time the request waited — a lock acquired after a wait is released early or is born expired")
	})
	r.Floor(rule, cnt, 2)
}

// tableUpdateWritesVersion: Expire on the owner rewrites the entry's header in place
// (Table.UpdateTTL). The header carries the expiry AND the write time stamp that
// last-write-wins, fragment merge and read repair compare: the in-place update must store
// both from the new entry (and refresh the access time), otherwise the owner's copy gets
// the new expiry under the old version number — a copy that missed the Expire ties with it,
// the stale one can win the tie, and read repair skips the holder whose stamp equals the
// winner's.
func tableUpdateWritesVersion(r *core.Run, rule string) {
	fn := r.Need(rule, tablePkg+".(*Table).UpdateTTL")
	if fn == nil {
		return
	}
	f := fn.SSA
	got := map[string]bool{}
	core.Instrs(f, func(in ssa.Instruction) {
		c, ok := in.(ssa.CallInstruction)
		if !ok || methodName(c) != "PutUint64" {
			return
		}
		args := c.Common().Args
		v := core.StripConv(args[len(args)-1])
		if call, isCall := v.(*ssa.Call); isCall {
			switch methodName(call) {
			case "TTL", "Timestamp":
				got[methodName(call)] = true
			}
		}
		if derivesFromNow(v) {
			got["now"] = true
		}
	})
	r.Check(got["TTL"] && got["Timestamp"], rule, fn.Name+" header fields", site(r, f.Pos()),
		"the in-place update stores the new entry's TTL and its write time stamp",
		"the in-place update does not store both the new TTL and the new write time stamp: Expire leaves the owner's copy at its old version, a copy that missed the Expire ties with it and can win, and read repair never fixes the stale holder")
	r.Check(got["now"], rule, fn.Name+" access time", site(r, f.Pos()),
		"the access time is refreshed", "the access time is not refreshed by the update")
}

// derivesFromClamp: v is a value that was clamped from below by a positive constant — a phi
// with such a constant among its edges, possibly inside a helper of the repository whose
// result it is, possibly converted or scaled afterwards.
func derivesFromClamp(p *core.Prog, v ssa.Value, depth int) bool {
	if depth > 6 {
		return false
	}
	switch x := v.(type) {
	case *ssa.Phi:
		for _, e := range x.Edges {
			if k, ok := e.(*ssa.Const); ok && k.Value != nil && k.Int64() > 0 {
				return true
			}
		}
		for _, e := range x.Edges {
			if derivesFromClamp(p, e, depth+1) {
				return true
			}
		}
	case *ssa.Convert:
		return derivesFromClamp(p, x.X, depth+1)
	case *ssa.ChangeType:
		return derivesFromClamp(p, x.X, depth+1)
	case *ssa.BinOp:
		return derivesFromClamp(p, x.X, depth+1) || derivesFromClamp(p, x.Y, depth+1)
	case *ssa.Call:
		if o := core.CalleeObj(x); o != nil {
			if h := p.ByObj[o]; h != nil && h.SSA != nil {
				for _, ret := range core.Returns(h.SSA) {
					if len(ret.Results) > 0 && derivesFromClamp(p, ret.Results[0], depth+1) {
						return true
					}
				}
			}
		}
	}
	return false
}

// c09SubMillisecondKept: relative expiries travel between members (and from the cluster
// client) in whole milliseconds, and zero on the wire means "no expiry". A positive
// duration below one millisecond must therefore be rounded up, not truncated: otherwise a
// Put with PX, an Expire or a Lock timeout that expires within a millisecond on the owner's
// own path is stored for ever when the request was forwarded.
func c09SubMillisecondKept(r *core.Run) {
	const rule = "sub-millisecond-expiry-kept"
	p := r.P
	n := counter{}
	sites := 0
	for _, fn := range p.FuncList {
		if fn.SSA == nil || skipPkg(fn) || core.RelPkg(fn.Pkg.PkgPath) == "internal/protocol" {
			continue
		}
		for _, f := range core.AllSSA(fn.SSA) {
			core.Instrs(f, func(in ssa.Instruction) {
				c, ok := in.(ssa.CallInstruction)
				if !ok {
					return
				}
				o := core.CalleeObj(c)
				if o == nil || o.Pkg() == nil || core.RelPkg(o.Pkg().Path()) != "internal/protocol" {
					return
				}
				args := c.Common().Args
				var arg ssa.Value
				switch o.Name() {
				case "SetPX":
					arg = args[len(args)-1]
				case "NewPExpire":
					arg = args[len(args)-1]
				default:
					return
				}
				sites++
				r.Check(derivesFromClamp(p, arg, 0), rule, n.next(fn.Name+" "+o.Name()), site(r, instrPos(in)),
					"the relative expiry put on the wire is clamped from below (a positive duration never becomes 0 ms)",
					"the relative expiry handed to "+o.Name()+" is a truncated duration (whole milliseconds) without a lower bound: a positive expiry below one millisecond becomes 0, which means 'no expiry' on the wire — the key (or lock) is stored for ever when the request is forwarded, while it expires on the owner's own path")
			})
		}
	}
	r.Floor(rule, sites, 3)
}
