package rules

import (
	"fmt"
	"go/ast"
	"go/token"
	"go/types"
	"sort"
	"strings"

	"golang.org/x/tools/go/ssa"

	"olricvet/internal/core"
)

func init() {
	register(&Property{
		ID: "C15",
		Explain: "Static sibling-agreement conditions of 'an operation means the same thing through every client path' (equality of results over all input values is NOT decided): " +
			"(sub-millisecond-expiry-kept) shared with C08/C09: every encoder that puts a relative expiry on the wire in milliseconds rounds a positive duration below one millisecond up instead of truncating it to 0, which the decoders read as no expiry; " +
			"(option-groups) every option translator keeps ttl options and NX/XX in separate exclusive decisions and handles both groups; " +
			"(forwarding-covers-local-inputs) every request field the owner-side write path reads is transmitted by the forwarding encoder (or is recomputed on the owner: ctx, hkey, timestamp, kind, fragment), and a timeout travels only with the ttl-only mode; " +
			"(multi-key-visits-all) the multi-key delete visits every owner group: no success return inside the loop over groups; " +
			"(codec) for every protocol message the writer (T.Command) and the parser (ParseTCommand) agree on the mandatory argument count, and every option token the writer emits is accepted by the parser; the handler registered under the writer's command name parses with that parser; " +
			"(error-mapping) EmbeddedDMap methods return errors obtained from the internal dmap package only through convertDMapError, ClusterDMap methods return wire errors only through processProtocolError; " +
			"(pipeline-mirrors-client) each pipeline method builds its command with the same protocol constructor and modifiers as the cluster-client method of the same name; " +
			"(handler-lookup) every client-facing DMap handler resolves the DMap with getOrCreateDMap (a member without a local handle still forwards to the owners); " +
			"(unit-agreement, client-targets-owner) shared with C09 / C07.",
		Run: func(r *core.Run) {
			c09SubMillisecondKept(r)
			c15ParserConsumesAllArguments(r)
			optionGroups(r)
			optionsCompose(r)
			putDoesNotRetain(r)
			forwardingCoversLocalInputs(r)
			timeoutNeedsTTLMode(r)
			multiKeyVisitsAll(r)
			codecAgreement(r)
			errorMapping(r)
			pipelineMirrorsClient(r)
			pipelineIndex(r)
			handlerLookup(r)
			unitAgreement(r)
			c07ClientTargetsOwner(r)
			c15NullReplyIsNoValue(r)
			c15DeleteSendsOwnersKeys(r)
			c15ErrorsKeepTheirPrefix(r)
		},
	})
}

// fieldsRead collects the names of the fields of struct types env / PutConfig read in fn
// and (transitively, inside package dmap) its callees.
func fieldsRead(p *core.Prog, roots []*core.Fn) map[string]bool {
	out := map[string]bool{}
	seen := map[*core.Fn]bool{}
	var visit func(fn *core.Fn)
	visit = func(fn *core.Fn) {
		if fn == nil || seen[fn] || fn.SSA == nil {
			return
		}
		seen[fn] = true
		for _, sf := range core.AllSSA(fn.SSA) {
			core.Instrs(sf, func(in ssa.Instruction) {
				if u, ok := in.(*ssa.UnOp); ok && u.Op == token.MUL {
					if fa, ok := u.X.(*ssa.FieldAddr); ok {
						if n, ok := deref(fa.X.Type()).(*types.Named); ok {
							tn := n.Obj().Name()
							if tn == "env" || tn == "PutConfig" {
								out[tn+"."+structOf(fa.X.Type()).Field(fa.Field).Name()] = true
							}
						}
					}
				}
				if c, ok := in.(ssa.CallInstruction); ok {
					if o := core.CalleeObj(c); o != nil {
						if g := p.ByObj[o]; g != nil && core.RelPkg(g.Pkg.PkgPath) == dmapPkg {
							visit(g)
						}
					}
				}
			})
		}
	}
	for _, r := range roots {
		visit(r)
	}
	return out
}

func forwardingCoversLocalInputs(r *core.Run) {
	p := r.P
	local := r.Need("forwarding-covers-local-inputs", fnPutOnCluster)
	fwd := r.Need("forwarding-covers-local-inputs", dmapPkg+".(*DMap).writePutCommand")
	if local == nil || fwd == nil {
		return
	}
	lr := fieldsRead(p, []*core.Fn{local})
	fr := fieldsRead(p, []*core.Fn{fwd})
	recomputed := map[string]string{
		"env.ctx":       "the server context of the receiving member is used",
		"env.hkey":      "pure function of (dmap, key), recomputed by put on the owner",
		"env.timestamp": "stamped by the member that applies the write",
		"env.kind":      "local handle",
		"env.fragment":  "local handle",
		"env.putConfig": "the pointer itself; its fields are checked individually",
	}
	var names []string
	for f := range lr {
		names = append(names, f)
	}
	sort.Strings(names)
	cnt := 0
	for _, f := range names {
		cnt++
		if why, ok := recomputed[f]; ok {
			r.Except("forwarding-covers-local-inputs", "field "+f, site(r, local.SSA.Pos()), "recomputed on the owner: "+why)
			continue
		}
		r.Check(fr[f], "forwarding-covers-local-inputs", "field "+f, site(r, fwd.SSA.Pos()),
			"read by the owner-side write path and by the forwarding encoder",
			"the owner-side write path reads "+f+" but the forwarding encoder (writePutCommand) never looks at it: the same request issued on a non-owner member is applied without it")
	}
	r.Floor("forwarding-covers-local-inputs", cnt, 12)
}

// multiKeyVisitsAll: deleteKeys.
func multiKeyVisitsAll(r *core.Run) {
	fn := r.Need("multi-key-visits-all", dmapPkg+".(*DMap).deleteKeys")
	if fn == nil {
		return
	}
	f := fn.SSA
	pt := passThrough(r.P)
	// loops that range over the owner-group map: blocks containing a Next on a map range
	cnt := 0
	for _, b := range f.Blocks {
		var nx *ssa.Next
		for _, in := range b.Instrs {
			if n, ok := in.(*ssa.Next); ok && !n.IsString {
				nx = n
			}
		}
		if nx == nil {
			continue
		}
		// only the loop whose body forwards / deletes
		body := core.NaturalLoop(b)
		has := false
		region := map[*ssa.BasicBlock]bool{}
		var visit func(x *ssa.BasicBlock)
		visit = func(x *ssa.BasicBlock) {
			if region[x] || x == b {
				return
			}
			region[x] = true
			for _, s := range x.Succs {
				visit(s)
			}
		}
		// the stay successor: the one inside the natural loop
		var exit *ssa.BasicBlock
		for _, s := range b.Succs {
			if !body[s] {
				exit = s
			}
		}
		for _, s := range b.Succs {
			if body[s] && s != exit {
				region[exit] = true // do not walk past the loop exit
				visit(s)
				delete(region, exit)
			}
		}
		for x := range region {
			for _, in := range x.Instrs {
				if callTo(fnRedisProcess, fnDeleteKey)(in) {
					has = true
				}
			}
		}
		if !has {
			continue
		}
		cnt++
		bad := ""
		for x := range region {
			for _, in := range x.Instrs {
				if ret, ok := in.(*ssa.Return); ok && core.SuccessCapable(ret, pt) {
					bad = site(r, instrPos(ret))
				}
			}
		}
		r.Check(bad == "", "multi-key-visits-all", fn.Name+" loop over owner groups", site(r, instrPos(nx)),
			"no success return inside the loop: every owner group is visited", "a success return at "+bad+" leaves the loop over the owner groups early: keys owned by the remaining members are not deleted and the returned count is wrong")
	}
	r.Floor("multi-key-visits-all", cnt, 1)
	// the count is accumulated: the value returned on success is a phi/add web fed by the remote count
	okCount := false
	for _, ret := range core.Returns(f) {
		if !core.SuccessCapable(ret, pt) {
			continue
		}
		web := core.PhiWeb(core.ResultValue(ret, 0))
		adds := 0
		for v := range web {
			if _, ok := v.(*ssa.BinOp); ok {
				adds++
			}
		}
		// additions of a non-constant (remote count) are not in PhiWeb; look for any ADD feeding the result
		var hasAdd func(v ssa.Value, d int) bool
		hasAdd = func(v ssa.Value, d int) bool {
			if d > 6 {
				return false
			}
			switch x := v.(type) {
			case *ssa.BinOp:
				return x.Op == token.ADD
			case *ssa.Phi:
				for _, e := range x.Edges {
					if hasAdd(e, d+1) {
						return true
					}
				}
			}
			return false
		}
		if hasAdd(core.ResultValue(ret, 0), 0) {
			okCount = true
		}
		_ = adds
	}
	r.Check(okCount, "multi-key-visits-all", fn.Name+" accumulates the count", site(r, f.Pos()), "the returned count is accumulated over the groups", "the returned count is not accumulated over the owner groups")
}

// ---- codec ----

type writerInfo struct {
	typ       string
	cmdRef    string // "DMap.Put"
	mandatory int    // unconditional appends, including the command name
	variadic  bool   // appends inside a loop (keys...)
	tokens    map[string]bool
	pos       token.Pos
	base      string // built on another message's writer
}

type parserInfo struct {
	typ      string
	delegate string // another parser of the package this one hands the command to
	minLen   int
	tokens   map[string]bool
	pos      token.Pos
	hasLoop  bool
}

func codecAgreement(r *core.Run) {
	p := r.P
	pkg := p.Pkg("internal/protocol")
	if pkg == nil {
		r.Unknown("codec", "internal/protocol", "-", "package not loaded")
		return
	}
	writers := map[string]*writerInfo{}
	parsers := map[string]*parserInfo{}
	for _, fn := range p.FuncList {
		if fn.Pkg != pkg {
			continue
		}
		sig := fn.Obj.Type().(*types.Signature)
		if sig.Recv() != nil && fn.Obj.Name() == "Command" {
			n, ok := deref(sig.Recv().Type()).(*types.Named)
			if !ok {
				continue
			}
			w := &writerInfo{typ: n.Obj().Name(), tokens: map[string]bool{}, pos: fn.Decl.Pos()}
			// the elements a statement adds to the argument list: append(args, a, b) or the
			// elements of the slice literal the list starts from
			emit := func(rhs ast.Expr, cond, loop bool) {
				var elems []ast.Expr
				switch e := rhs.(type) {
				case *ast.CallExpr:
					if id, ok := e.Fun.(*ast.Ident); !ok || id.Name != "append" || len(e.Args) < 2 {
						return
					}
					elems = e.Args[1:]
				case *ast.CompositeLit:
					if _, isArr := e.Type.(*ast.ArrayType); !isArr {
						return
					}
					elems = e.Elts
				default:
					return
				}
				for _, a := range elems {
					if loop {
						w.variadic = true
						continue
					}
					if s, ok := core.ConstString(pkg, a); ok && cond {
						w.tokens[strings.ToUpper(s)] = true
						continue
					}
					if !cond {
						if w.mandatory == 0 {
							w.cmdRef = commandRef(fn, a)
						}
						w.mandatory++
					}
				}
			}
			var walk func(stmts []ast.Stmt, cond, loop bool)
			walk = func(stmts []ast.Stmt, cond, loop bool) {
				for _, s := range stmts {
					switch x := s.(type) {
					case *ast.DeclStmt:
						// var args = []interface{}{...}
						if gd, ok := x.Decl.(*ast.GenDecl); ok {
							for _, sp := range gd.Specs {
								if vs, ok := sp.(*ast.ValueSpec); ok {
									for _, v := range vs.Values {
										emit(v, cond, loop)
									}
								}
							}
						}
					case *ast.AssignStmt:
						for _, rhs := range x.Rhs {
							emit(rhs, cond, loop)
						}
					case *ast.IfStmt:
						walk(x.Body.List, true, loop)
						if el, ok := x.Else.(*ast.BlockStmt); ok {
							walk(el.List, true, loop)
						}
					case *ast.RangeStmt:
						walk(x.Body.List, cond, true)
					case *ast.ForStmt:
						walk(x.Body.List, cond, true)
					case *ast.BlockStmt:
						walk(x.List, cond, loop)
					}
				}
			}
			walk(fn.Decl.Body.List, false, false)
			// a writer built on another message's writer: x.Inner.Command(ctx); args[0] = Name
			ast.Inspect(fn.Decl.Body, func(nd ast.Node) bool {
				switch x := nd.(type) {
				case *ast.CallExpr:
					if se, ok := x.Fun.(*ast.SelectorExpr); ok && se.Sel.Name == "Command" {
						if o := core.Callee(pkg, x); o != nil && o != fn.Obj {
							if sg := o.Type().(*types.Signature); sg.Recv() != nil {
								if bn, ok := deref(sg.Recv().Type()).(*types.Named); ok {
									w.base = bn.Obj().Name()
								}
							}
						}
					}
				case *ast.AssignStmt:
					if len(x.Lhs) == 1 && len(x.Rhs) == 1 {
						if ix, ok := x.Lhs[0].(*ast.IndexExpr); ok {
							if k, ok := core.ConstInt(pkg, ix.Index); ok && k == 0 {
								if ref := commandRef(fn, x.Rhs[0]); ref != "" {
									w.cmdRef = ref
								}
							}
						}
					}
				}
				return true
			})
			writers[w.typ] = w
		}
		if sig.Recv() == nil && strings.HasPrefix(fn.Obj.Name(), "Parse") && strings.HasSuffix(fn.Obj.Name(), "Command") {
			typ := strings.TrimSuffix(strings.TrimPrefix(fn.Obj.Name(), "Parse"), "Command")
			pi := &parserInfo{typ: typ, tokens: map[string]bool{}, pos: fn.Decl.Pos(), minLen: -1}
			ast.Inspect(fn.Decl.Body, func(nd ast.Node) bool {
				switch x := nd.(type) {
				case *ast.BinaryExpr:
					if x.Op == token.EQL || x.Op == token.NEQ {
						for _, e := range []ast.Expr{x.X, x.Y} {
							if s, ok := core.ConstString(pkg, e); ok && s != "" {
								pi.tokens[strings.ToUpper(s)] = true
							}
						}
					}
					if pi.minLen < 0 && x.Op == token.LSS {
						if call, ok := x.X.(*ast.CallExpr); ok {
							if id, ok := call.Fun.(*ast.Ident); ok && id.Name == "len" {
								if k, ok := core.ConstInt(pkg, x.Y); ok {
									pi.minLen = int(k)
								}
							}
						}
					}
				case *ast.CaseClause:
					for _, e := range x.List {
						if s, ok := core.ConstString(pkg, e); ok {
							pi.tokens[strings.ToUpper(s)] = true
						}
					}
				case *ast.ForStmt, *ast.RangeStmt:
					pi.hasLoop = true
				case *ast.CallExpr:
					if o := core.Callee(pkg, x); o != nil && o.Pkg() == fn.Obj.Pkg() && o != fn.Obj &&
						strings.HasPrefix(o.Name(), "Parse") && strings.HasSuffix(o.Name(), "Command") {
						pi.delegate = strings.TrimSuffix(strings.TrimPrefix(o.Name(), "Parse"), "Command")
					}
				}
				return true
			})
			parsers[typ] = pi
		}
	}
	// a parser that hands the command to another parser (ParseDecrCommand -> ParseIncrCommand)
	// inherits what it does not decide itself
	for _, pi := range parsers {
		if d := parsers[pi.delegate]; d != nil && d != pi {
			if pi.minLen < 0 {
				pi.minLen = d.minLen
			}
			for t := range d.tokens {
				pi.tokens[t] = true
			}
			pi.hasLoop = pi.hasLoop || d.hasLoop
		}
	}
	for _, w := range writers {
		if w.base != "" {
			if b := writers[w.base]; b != nil {
				w.mandatory += b.mandatory
				w.variadic = w.variadic || b.variadic
				for t := range b.tokens {
					w.tokens[t] = true
				}
			}
		}
	}
	// handler registration: command ref -> parser used by the handler
	regs := handlers(p)
	parserOfCmd := map[string]map[string]bool{}
	for _, h := range regs {
		if h.Handler == nil || h.Ref == "" {
			continue
		}
		m := map[string]bool{}
		var walk func(fn *core.Fn, depth int)
		walk = func(fn *core.Fn, depth int) {
			if fn == nil || fn.Decl == nil || fn.Decl.Body == nil {
				return
			}
			core.WalkCalls(fn.Decl.Body, func(call *ast.CallExpr, _ *ast.FuncLit) {
				o := core.Callee(fn.Pkg, call)
				if o == nil || o.Pkg() == nil {
					return
				}
				if core.RelPkg(o.Pkg().Path()) == "internal/protocol" && strings.HasPrefix(o.Name(), "Parse") {
					m[strings.TrimSuffix(strings.TrimPrefix(o.Name(), "Parse"), "Command")] = true
					return
				}
				// a same-package helper that takes the command and parses it (one level)
				if depth == 0 && o.Pkg().Path() == fn.Pkg.PkgPath {
					walk(p.ByObj[o], 1)
				}
			})
		}
		walk(h.Handler, 0)
		parserOfCmd[h.Ref] = m
	}
	// writers that are used by non-test code (others are dead code: go-redis' own builders send those commands)
	var typs []string
	for t := range writers {
		typs = append(typs, t)
	}
	sort.Strings(typs)
	cnt := 0
	for _, t := range typs {
		w := writers[t]
		pi := parsers[t]
		wfn := p.Fn("internal/protocol.(*" + t + ").Command")
		live := wfn != nil && len(p.CallersOf(wfn.Obj)) > 0
		if pi == nil {
			if live && w.mandatory <= 1 && len(w.tokens) == 0 {
				r.OK("codec", "message "+t, p.Pos(w.pos), "the command has no arguments and needs no parser")
				continue
			}
			if live {
				r.Bad("codec", "message "+t, p.Pos(w.pos), "the writer has no parser Parse"+t+"Command")
			}
			continue
		}
		if !live {
			r.Except("codec", "message "+t, p.Pos(w.pos), "writer without non-test callers (the command is sent by go-redis' own builder); parser-side safety is covered by C16.argv-bounds")
			continue
		}
		cnt++
		where := p.Pos(w.pos)
		// (a) mandatory count
		if pi.minLen >= 0 {
			ok := w.mandatory == pi.minLen || (w.variadic && w.mandatory <= pi.minLen)
			r.Check(ok, "codec", "message "+t+" mandatory arguments", where,
				fmt.Sprintf("writer emits %d mandatory arguments, parser requires len >= %d", w.mandatory, pi.minLen),
				fmt.Sprintf("writer emits %d mandatory arguments but the parser requires len >= %d: a well-formed request from this repository's own client is rejected, or the parser indexes past what the writer sends", w.mandatory, pi.minLen))
		} else if t != "DelEntry" {
			r.Unknown("codec", "message "+t+" mandatory arguments", where, "no minimum-length test found in the parser")
		}
		// (b) tokens
		var missing []string
		for tok := range w.tokens {
			if !pi.tokens[tok] {
				missing = append(missing, tok)
			}
		}
		sort.Strings(missing)
		r.Check(len(missing) == 0, "codec", "message "+t+" option tokens", where,
			fmt.Sprintf("every option token the writer emits (%d) is accepted by the parser", len(w.tokens)),
			"the writer emits option token(s) "+strings.Join(missing, ",")+" that the parser does not accept: the option is rejected or silently dropped on the receiving member")
		// (c) the handler registered under the writer's command name parses with this parser
		if w.cmdRef != "" {
			m := parserOfCmd[w.cmdRef]
			r.Check(m[t], "codec", "message "+t+" handler pairing", where,
				"the handler registered for "+w.cmdRef+" parses with Parse"+t+"Command",
				"the handler registered under "+w.cmdRef+" does not parse with Parse"+t+"Command (a writer and the handler of its command name disagree about the message layout)")
		} else {
			r.Unknown("codec", "message "+t+" command name", where, "the writer's first argument is not an entry of the command-name tables")
		}
	}
	r.Floor("codec", cnt, 20)
}

// ---- error mapping ----

func errorMapping(r *core.Run) {
	p := r.P
	pkg := p.Pkg("olric")
	if pkg == nil {
		return
	}
	cnt := 0
	for _, fn := range p.FuncList {
		if fn.Pkg != pkg || fn.SSA == nil || !fn.Obj.Exported() {
			continue
		}
		sig := fn.Obj.Type().(*types.Signature)
		if sig.Recv() == nil || core.ErrIndex(fn.SSA) < 0 {
			continue
		}
		n, ok := deref(sig.Recv().Type()).(*types.Named)
		if !ok {
			continue
		}
		var conv string
		var isRaw func(*ssa.Call) bool
		switch n.Obj().Name() {
		case "EmbeddedDMap":
			conv = "olric.convertDMapError"
			isRaw = func(c *ssa.Call) bool {
				o := core.CalleeObj(c)
				return o != nil && o.Pkg() != nil && core.RelPkg(o.Pkg().Path()) == dmapPkg
			}
		case "ClusterDMap":
			conv = "olric.processProtocolError"
			isRaw = func(c *ssa.Call) bool {
				o := core.CalleeObj(c)
				if o == nil || o.Pkg() == nil {
					return false
				}
				return strings.HasPrefix(o.Pkg().Path(), "github.com/redis/go-redis")
			}
		default:
			continue
		}
		idx := core.ErrIndex(fn.SSA)
		bad := ""
		checked := 0
		for _, ret := range core.Returns(fn.SSA) {
			v := core.ResultValue(ret, idx)
			raws := rawErrorSources(v, conv, isRaw, map[ssa.Value]bool{})
			checked++
			if len(raws) > 0 {
				bad = fmt.Sprintf("return at %s hands back the error of %s unconverted", site(r, instrPos(ret)), calleeName(raws[0]))
			}
		}
		if checked == 0 {
			continue
		}
		cnt++
		r.Check(bad == "", "error-mapping", fn.Name, site(r, fn.SSA.Pos()),
			"every error coming from the lower layer passes "+conv, bad+": this client path reports a different error identity than the others (errors.Is(err, olric.ErrKeyNotFound) etc. fail)")
	}
	r.Floor("error-mapping", cnt, 20)
}

// rawErrorSources follows v back through phis/extracts; calls to conv stop the walk.
func rawErrorSources(v ssa.Value, conv string, isRaw func(*ssa.Call) bool, seen map[ssa.Value]bool) []*ssa.Call {
	if v == nil || seen[v] {
		return nil
	}
	seen[v] = true
	switch x := v.(type) {
	case *ssa.Phi:
		var out []*ssa.Call
		for _, e := range x.Edges {
			out = append(out, rawErrorSources(e, conv, isRaw, seen)...)
		}
		return out
	case *ssa.Extract:
		return rawErrorSources(x.Tuple, conv, isRaw, seen)
	case *ssa.Call:
		if o := core.CalleeObj(x); o != nil && core.QualName(o) == conv {
			return nil
		}
		if isRaw(x) {
			return []*ssa.Call{x}
		}
	}
	return nil
}

// ---- pipeline mirrors client ----

func protocolCalls(fn *core.Fn) map[string]bool {
	out := map[string]bool{}
	core.WalkCalls(fn.Decl.Body, func(call *ast.CallExpr, _ *ast.FuncLit) {
		o := core.Callee(fn.Pkg, call)
		if o == nil || o.Pkg() == nil {
			return
		}
		rel := core.RelPkg(o.Pkg().Path())
		if rel == "internal/protocol" && (strings.HasPrefix(o.Name(), "New") || strings.HasPrefix(o.Name(), "Set")) {
			out[o.Name()] = true
		}
		if core.QualName(o) == "olric.(*ClusterDMap).writePutCommand" {
			out["writePutCommand"] = true
		}
	})
	return out
}

func pipelineMirrorsClient(r *core.Run) {
	p := r.P
	cnt := 0
	for _, fn := range p.FuncList {
		if !strings.HasPrefix(fn.Name, "olric.(*DMapPipeline).") || !fn.Obj.Exported() {
			continue
		}
		pc := protocolCalls(fn)
		if len(pc) == 0 {
			continue
		}
		peer := p.Fn("olric.(*ClusterDMap)." + fn.Obj.Name())
		if peer == nil {
			continue
		}
		cc := protocolCalls(peer)
		if len(cc) == 0 {
			continue
		}
		cnt++
		var diff []string
		for k := range cc {
			if !pc[k] {
				diff = append(diff, "-"+k)
			}
		}
		for k := range pc {
			if !cc[k] {
				diff = append(diff, "+"+k)
			}
		}
		sort.Strings(diff)
		r.Check(len(diff) == 0, "pipeline-mirrors-client", fn.Name, p.Pos(fn.Decl.Pos()),
			"same protocol constructor and modifiers as ClusterDMap."+fn.Obj.Name(),
			"the pipelined "+fn.Obj.Name()+" builds its command differently from ClusterDMap."+fn.Obj.Name()+" ("+strings.Join(diff, " ")+"): the same operation has a different effect inside a pipeline")
	}
	r.Floor("pipeline-mirrors-client", cnt, 6)
}

// handlerLookup: client-facing DMap handlers resolve the DMap with getOrCreateDMap.
func handlerLookup(r *core.Run) {
	p := r.P
	cnt := 0
	for _, h := range handlers(p) {
		if h.Handler == nil || core.RelPkg(h.Handler.Pkg.PkgPath) != dmapPkg || !strings.HasPrefix(h.Name, "dm.") {
			continue
		}
		usesCreate, usesGet := false, false
		core.WalkCalls(h.Handler.Decl.Body, func(call *ast.CallExpr, _ *ast.FuncLit) {
			if o := core.Callee(h.Handler.Pkg, call); o != nil {
				switch core.QualName(o) {
				case dmapPkg + ".(*Service).getOrCreateDMap":
					usesCreate = true
				case dmapPkg + ".(*Service).getDMap":
					usesGet = true
				}
			}
		})
		if !usesCreate && !usesGet {
			continue
		}
		cnt++
		if h.Name == "dm.destroy" {
			// destroy on a member without the DMap has nothing local to wipe; both lookups are acceptable
			r.OK("handler-lookup", "handler of "+h.Name, p.Pos(h.Handler.Decl.Pos()), "destroy: a missing local DMap means nothing to wipe locally")
			continue
		}
		r.Check(usesCreate && !usesGet, "handler-lookup", "handler of "+h.Name, p.Pos(h.Handler.Decl.Pos()),
			"resolves the DMap with getOrCreateDMap", "the handler looks the DMap up with getDMap: on a member that has no local handle for that DMap yet the request is answered without being forwarded to the owners (e.g. DM.DEL returns 0 and the keys survive), unlike the same operation on the other paths")
	}
	r.Floor("handler-lookup", cnt, 14)
}
