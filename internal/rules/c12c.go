package rules

import (
	"golang.org/x/tools/go/ssa"

	"olricvet/internal/core"
)

// c12MatchIsRegexp: a scan with MATCH yields exactly the keys the regular expression
// matches (unanchored, anywhere in the key). The table-level scan therefore decides about
// a key with the compiled expression's own Match and nothing else: a "fast path" that
// compares a literal pattern as a prefix makes every key that contains the literal
// elsewhere disappear from the scan.
func c12MatchIsRegexp(r *core.Run) {
	const rule = "match-is-regexp"
	fn := r.Need(rule, tablePkg+".(*Table).ScanRegexMatch")
	if fn == nil {
		return
	}
	f := fn.SSA
	// the callback invocation f(e) (the emit) and the conditions it sits under
	cnt := 0
	n := counter{}
	isRegexpMatch := func(v ssa.Value) bool {
		c, ok := v.(*ssa.Call)
		if !ok {
			return false
		}
		o := core.CalleeObj(c)
		if o == nil {
			return false
		}
		switch core.QualName(o) {
		case "regexp.(*Regexp).Match", "regexp.(*Regexp).MatchString":
			return true
		}
		return false
	}
	core.Instrs(f, func(in ssa.Instruction) {
		c, ok := in.(*ssa.Call)
		if !ok || c.Parent() != f {
			return
		}
		// an indirect call of the callback parameter
		if _, isPar := c.Call.Value.(*ssa.Parameter); !isPar {
			return
		}
		cnt++
		matched, foreign := false, ""
		for _, cd := range core.Conditions(in.Block()) {
			switch {
			case isRegexpMatch(cd.Val):
				if cd.Truth {
					matched = true
				}
			default:
				if call, isCall := cd.Val.(*ssa.Call); isCall {
					// a boolean decided by a call other than the expression's Match (a dynamic
					// matcher, bytes.HasPrefix, strings.Contains ...)
					if o := core.CalleeObj(call); o != nil {
						switch core.QualName(o) {
						case "github.com/RoaringBitmap/roaring/v2/roaring64.(*intIterator).HasNext", "github.com/RoaringBitmap/roaring/roaring64.(*intIterator).HasNext":
							continue
						}
						if methodName(call) == "HasNext" {
							continue
						}
						foreign = core.QualName(o)
					} else {
						foreign = "a dynamically chosen matcher"
					}
				}
			}
		}
		r.Check(matched && foreign == "", rule, n.next(fn.Name+" emits a key"), site(r, instrPos(in)),
			"a key is handed to the callback exactly on the true edge of the compiled expression's Match",
			"whether a key is yielded is not decided by regexp.Match alone ("+map[bool]string{true: "no Match on the way", false: "also decided by " + foreign}[!matched]+"): keys that match the expression are missing from a MATCH scan, or others appear")
	})
	r.Floor(rule, cnt, 1)
}
