package rules

import (
	"go/token"

	"golang.org/x/tools/go/ssa"

	"olricvet/internal/core"
)

// c12MatchIsRegexp: a scan with MATCH yields exactly the keys the regular expression
// matches (unanchored, anywhere in the key). The table-level scan therefore decides about
// a key with the compiled expression's own Match and nothing else: a "fast path" that
// compares a literal pattern as a prefix makes every key that contains the literal
// elsewhere disappear from the scan.
func c12MatchIsRegexp(r *core.Run) {
	const rule = "match-is-regexp"
	fn := r.Need(rule, tablePkg+".(*Table).ScanRegexMatch")
	if fn == nil {
		return
	}
	f := fn.SSA
	// the callback invocation f(e) (the emit) and the conditions it sits under
	cnt := 0
	n := counter{}
	isRegexpMatch := func(v ssa.Value) bool {
		c, ok := v.(*ssa.Call)
		if !ok {
			return false
		}
		o := core.CalleeObj(c)
		if o == nil {
			return false
		}
		switch core.QualName(o) {
		case "regexp.(*Regexp).Match", "regexp.(*Regexp).MatchString":
			return true
		}
		return false
	}
	core.Instrs(f, func(in ssa.Instruction) {
		c, ok := in.(*ssa.Call)
		if !ok || c.Parent() != f {
			return
		}
		// an indirect call of the callback parameter
		if _, isPar := c.Call.Value.(*ssa.Parameter); !isPar {
			return
		}
		cnt++
		matched, foreign := false, ""
		for _, cd := range core.Conditions(in.Block()) {
			switch {
			case isRegexpMatch(cd.Val):
				if cd.Truth {
					matched = true
				}
			default:
				if call, isCall := cd.Val.(*ssa.Call); isCall {
					// a boolean decided by a call other than the expression's Match (a dynamic
					// matcher, bytes.HasPrefix, strings.Contains ...)
					if o := core.CalleeObj(call); o != nil {
						switch core.QualName(o) {
						case "github.com/RoaringBitmap/roaring/v2/roaring64.(*intIterator).HasNext", "github.com/RoaringBitmap/roaring/roaring64.(*intIterator).HasNext":
							continue
						}
						if methodName(call) == "HasNext" {
							continue
						}
						foreign = core.QualName(o)
					} else {
						foreign = "a dynamically chosen matcher"
					}
				}
			}
		}
		r.Check(matched && foreign == "", rule, n.next(fn.Name+" emits a key"), site(r, instrPos(in)),
			"a key is handed to the callback exactly on the true edge of the compiled expression's Match",
			"whether a key is yielded is not decided by regexp.Match alone ("+map[bool]string{true: "no Match on the way", false: "also decided by " + foreign}[!matched]+"): keys that match the expression are missing from a MATCH scan, or others appear")
	})
	r.Floor(rule, cnt, 1)
}

// c12ResumeRestartsNextTable: a scan cursor is tableSize*coefficient + position inside the
// table. When the table the cursor names has gone (compacted away or shipped to another
// member) the scan continues with the next existing table FROM ITS BEGINNING: the cursor is
// re-based to coefficient*tableSize before the position inside the table is derived from it.
// Carrying the old in-table position into another table (cursor % tableSize) skips every
// entry of that table stored below the position.
func c12ResumeRestartsNextTable(r *core.Run) {
	const rule = "resume-restarts-next-table"
	fn := r.Need(rule, kvPkg+".(*KVStore).scanCommon")
	if fn == nil {
		return
	}
	f := fn.SSA
	isTS := core.IsFieldLoad("KVStore", "tableSize")
	cnt := 0
	n := counter{}
	for _, c := range findInstrs(f, false, callTo(tablePkg+".(*Table).Scan", tablePkg+".(*Table).ScanRegexMatch")) {
		args := c.(ssa.CallInstruction).Common().Args
		if len(args) < 2 {
			continue
		}
		cnt++
		pos := args[1] // receiver, cursor, ...
		rebased, modulo := false, false
		seen := map[ssa.Value]bool{}
		var back func(v ssa.Value, d int)
		back = func(v ssa.Value, d int) {
			if v == nil || seen[v] || d > 10 {
				return
			}
			seen[v] = true
			switch x := v.(type) {
			case *ssa.Phi:
				for _, e := range x.Edges {
					back(e, d+1)
				}
			case *ssa.BinOp:
				switch x.Op {
				case token.REM:
					modulo = true
				case token.SUB:
					back(x.X, d+1)
				case token.MUL:
					// coefficient * tableSize with the coefficient returned by findCoefficient
					other := x.X
					if isTS(x.X) {
						other = x.Y
					} else if !isTS(x.Y) {
						return
					}
					if ex, isEx := core.SuccessValue(other).(*ssa.Extract); isEx {
						if call, isCall := ex.Tuple.(*ssa.Call); isCall && methodName(call) == "findCoefficient" {
							rebased = true
						}
					}
				}
			}
		}
		back(pos, 0)
		r.Check(rebased && !modulo, rule, n.next(fn.Name+" position handed to the table scan"), site(r, instrPos(c)),
			"when the cursor's table is gone the cursor is re-based to the next table's first position",
			"the position inside the table is not re-based when the scan moves on to another table (the old in-table position is carried over, e.g. cursor % tableSize): entries of the next table stored below that position are never visited")
	}
	r.Floor(rule, cnt, 2)
}

// c12ScanAnswersForItsCopy: DM.SCAN asks a member for the keys of ITS copy of a partition
// (primary fragment, or backup fragment with the replica flag). The iterators ask every
// member the routing table lists for the partition — current owner and previous owners
// that have not yet handed their fragment over — and merge the pages. A member must
// therefore answer from the fragment it holds whatever its position in the owners list;
// answering "nothing" unless it is the current owner makes every key that still waits for
// its hand-over disappear from full scans.
func c12ScanAnswersForItsCopy(r *core.Run) {
	const rule = "scan-answers-for-its-copy"
	fn := r.Need(rule, dmapPkg+".(*DMap).Scan")
	if fn == nil {
		return
	}
	f := fn.SSA
	pt := passThrough(r.P)
	cnt := 0
	n := counter{}
	loads := findInstrs(f, false, callTo(dmapPkg+".(*DMap).loadFragment"))
	for _, ret := range core.Returns(f) {
		if !core.SuccessCapable(ret, pt) {
			continue
		}
		cnt++
		// a successful answer is either computed from the fragment (after loadFragment) or is the
		// empty answer for "this member holds no fragment" (errFragmentNotFound)
		after := false
		for _, l := range loads {
			if core.Dominates(l, ret) {
				after = true
			}
		}
		ownerTest := false
		for _, cd := range core.Conditions(ret.Block()) {
			if c, isC := cd.Val.(*ssa.Call); isC && isSelfTest(c) {
				ownerTest = true
			}
		}
		r.Check(after && !ownerTest, rule, n.next(fn.Name+" successful answer"), site(r, instrPos(ret)),
			"answers from the fragment this member holds, whatever its place in the owners list",
			"a successful (possibly empty) answer is given without looking at this member's fragment, or depends on whether this member is the partition's current owner: keys on a previous owner that wait for their hand-over vanish from every full scan")
	}
	r.Floor(rule, cnt, 2)
}
