package rules

import (
	"fmt"
	"go/ast"
	"go/token"
	"go/types"
	"sort"
	"strings"

	"golang.org/x/tools/go/ssa"

	"olricvet/internal/core"
)

func init() {
	register(&Property{
		ID: "C17",
		Explain: "Static structural necessary conditions of 'values and keys read back identical' (round-trip equality over all values, e.g. numeric text formatting, is NOT decided): " +
			"(type-tables) every type the encoder accepts has a matching pointer case in resp.Scan with the right parser, signedness and bit size, and every typed accessor of GetResponse scans into its own result type; " +
			"(layout-agreement) every reader and writer of the in-memory / wire entry layout (Table.Put, Get, get, GetRaw, GetTTL, GetLastAccess, Delete, UpdateTTL, Entry.Encode, Entry.Decode) advances through the same cumulative offsets 1, 1+K, 9+K, 17+K, 25+K, 29+K, 29+K+V, uses 64-bit accessors at the three 8-byte fields and the 32-bit accessor at the value length, and MetadataLength equals the fixed part (29); " +
			"(pack-agreement) table.Encode ships memory[:offset] and every field of Pack, and table.Decode restores every field and memory[:offset]; " +
			"(size-boundaries) a key is rejected iff len(key) >= MaxKeyLength (a one-byte length prefix) before it is stored, an entry iff it does not fit a table (shared with C11.size-boundary-agreement), a table is full iff inuse+offset >= allocated; " +
			"(validate-before-replicate) in the synchronous write path the engine's size limits are enforced before the entry is shipped to the backups (violated on the pinned tree and recorded as known finding D19); " +
			"(put-does-not-retain) shared with C18: queued pipeline commands own their bytes.",
		Run: func(r *core.Run) {
			c17TypeTables(r)
			c17Layout(r)
			c17Pack(r)
			c17SizeBoundaries(r)
			c17ValidateBeforeReplicate(r)
			kvSizeBoundaryAgreement(r)
			kvEntrySizeFormula(r)
			c11TableWritesWholeHeader(r)
			putDoesNotRetain(r)
			memoryEscape(r)
			c15ErrorsKeepTheirPrefix(r)
		},
	})
}

func typeSwitchCases(fn *core.Fn) map[string]*ast.CaseClause {
	out := map[string]*ast.CaseClause{}
	ast.Inspect(fn.Decl.Body, func(nd ast.Node) bool {
		ts, ok := nd.(*ast.TypeSwitchStmt)
		if !ok {
			return true
		}
		for _, s := range ts.Body.List {
			cc := s.(*ast.CaseClause)
			for _, e := range cc.List {
				if tv, ok := fn.Pkg.TypesInfo.Types[e]; ok {
					if tv.IsNil() {
						out["nil"] = cc
					} else if tv.IsType() {
						out[types.TypeString(tv.Type, func(p *types.Package) string { return p.Name() })] = cc
					}
				}
			}
		}
		return false
	})
	return out
}

func c17TypeTables(r *core.Run) {
	p := r.P
	enc := r.Need("type-tables", "internal/resp.(*Encoder).Encode")
	scan := r.Need("type-tables", "internal/resp.Scan")
	if enc == nil || scan == nil {
		return
	}
	ec := typeSwitchCases(enc)
	sc := typeSwitchCases(scan)
	var names []string
	for t := range ec {
		names = append(names, t)
	}
	sort.Strings(names)
	cnt := 0
	for _, t := range names {
		if t == "nil" {
			continue
		}
		cnt++
		want := "*" + t
		if t == "encoding.BinaryMarshaler" {
			want = "encoding.BinaryUnmarshaler"
		}
		_, ok := sc[want]
		r.Check(ok, "type-tables", "Encode case "+t, p.Pos(ec[t].Pos()), "Scan has a case "+want,
			"the encoder accepts "+t+" but resp.Scan has no case "+want+": a stored value of that type cannot be read back into the same type")
	}
	r.Floor("type-tables(encoder cases)", cnt, 18)
	// the encoder formats each numeric kind with the formatter of its own signedness: an
	// unsigned value pushed through the signed formatter reads back as a negative number (or
	// not at all) once it exceeds MaxInt64
	for _, t := range names {
		want := ""
		switch {
		case strings.HasPrefix(t, "uint"):
			want = "AppendUint FormatUint"
		case strings.HasPrefix(t, "int"):
			want = "AppendInt FormatInt"
		case strings.HasPrefix(t, "float"):
			want = "AppendFloat FormatFloat"
		default:
			continue
		}
		got := ""
		for _, st := range ec[t].Body {
			ast.Inspect(st, func(nd ast.Node) bool {
				call, ok := nd.(*ast.CallExpr)
				if !ok {
					return true
				}
				o := core.Callee(enc.Pkg, call)
				if o == nil {
					return true
				}
				if o.Pkg() != nil && o.Pkg().Path() == "strconv" {
					got += " " + o.Name()
					return true
				}
				if h := p.ByObj[o]; h != nil && h.Decl != nil && h.Decl.Body != nil && h.Pkg == enc.Pkg {
					core.WalkCalls(h.Decl.Body, func(c2 *ast.CallExpr, _ *ast.FuncLit) {
						if o2 := core.Callee(h.Pkg, c2); o2 != nil && o2.Pkg() != nil && o2.Pkg().Path() == "strconv" {
							got += " " + o2.Name()
						}
					})
				}
				return true
			})
		}
		ok := false
		for _, g := range strings.Fields(got) {
			if strings.Contains(want, g) {
				ok = true
			} else if strings.HasPrefix(g, "Append") || strings.HasPrefix(g, "Format") {
				ok = false
				break
			}
		}
		r.Check(ok, "type-tables", "Encode case "+t+" formatter", p.Pos(ec[t].Pos()),
			"formatted with strconv."+strings.Fields(want)[0],
			"a value of type "+t+" is not formatted with the formatter of its own kind ("+strings.TrimSpace(got)+"): e.g. an unsigned value above MaxInt64 is stored as a negative number and cannot be read back as what was written")
	}
	// parser, signedness and bit size per Scan case
	bits := map[string]int{"int8": 8, "int16": 16, "int32": 32, "int64": 64, "uint": 64, "uint8": 8, "uint16": 16, "uint32": 32, "uint64": 64, "float32": 32, "float64": 64}
	for t, cc := range sc {
		base := strings.TrimPrefix(t, "*")
		b, ok := bits[base]
		if !ok {
			continue
		}
		wantFn := "ParseInt"
		if strings.HasPrefix(base, "uint") {
			wantFn = "ParseUint"
		}
		if strings.HasPrefix(base, "float") {
			wantFn = "ParseFloat"
		}
		good := false
		why := "no " + wantFn + " call"
		for _, st := range cc.Body {
			ast.Inspect(st, func(nd ast.Node) bool {
				call, ok := nd.(*ast.CallExpr)
				if !ok {
					return true
				}
				// a same-package helper that does the parsing with a bit size it is handed
				if id, isID := call.Fun.(*ast.Ident); isID {
					if o := core.Callee(scan.Pkg, call); o != nil {
						if h := p.ByObj[o]; h != nil && h.Decl != nil && h.Decl.Body != nil && h.Pkg == scan.Pkg {
							core.WalkCalls(h.Decl.Body, func(c2 *ast.CallExpr, _ *ast.FuncLit) {
								s2, ok2 := c2.Fun.(*ast.SelectorExpr)
								if !ok2 || !strings.HasPrefix(s2.Sel.Name, "Parse") {
									return
								}
								if s2.Sel.Name != wantFn {
									why = "parsed with " + s2.Sel.Name + " instead of " + wantFn
									return
								}
								lastArg, isParam := c2.Args[len(c2.Args)-1].(*ast.Ident)
								if !isParam {
									return
								}
								idx := 0
								for _, fl := range h.Decl.Type.Params.List {
									for _, nm := range fl.Names {
										if nm.Name == lastArg.Name && idx < len(call.Args) {
											if k, ok3 := core.ConstInt(scan.Pkg, call.Args[idx]); ok3 {
												if int(k) == b {
													good = true
												} else {
													why = fmt.Sprintf("bit size %d instead of %d", k, b)
												}
											}
										}
										idx++
									}
								}
							})
						}
					}
					_ = id
					return true
				}
				se, ok := call.Fun.(*ast.SelectorExpr)
				if !ok || !strings.HasPrefix(se.Sel.Name, "Parse") {
					return true
				}
				if se.Sel.Name != wantFn {
					why = "parsed with " + se.Sel.Name + " instead of " + wantFn
					return true
				}
				last := call.Args[len(call.Args)-1]
				if k, ok := core.ConstIntVia(scan.Pkg, cc, last); ok {
					if int(k) == b {
						good = true
					} else {
						why = fmt.Sprintf("bit size %d instead of %d", k, b)
					}
				}
				return true
			})
		}
		r.Check(good, "type-tables", "Scan case "+t, p.Pos(cc.Pos()), fmt.Sprintf("%s with bit size %d", wantFn, b),
			"resp.Scan reads "+t+" with the wrong parser or width ("+why+"): extreme values of that type are rejected or truncated on read")
	}
	// typed accessors of GetResponse
	acc := 0
	for _, fn := range p.FuncList {
		if !strings.HasPrefix(fn.Name, "olric.(*GetResponse).") || fn.SSA == nil {
			continue
		}
		sig := fn.Obj.Type().(*types.Signature)
		if sig.Results().Len() != 2 || sig.Params().Len() != 0 {
			continue
		}
		rt := sig.Results().At(0).Type()
		// new(T) ... g.Scan(v)
		var scanned types.Type
		core.Instrs(fn.SSA, func(in ssa.Instruction) {
			c, ok := in.(*ssa.Call)
			if !ok || methodName(c) != "Scan" {
				return
			}
			a := c.Call.Args[len(c.Call.Args)-1]
			if mi, ok := a.(*ssa.MakeInterface); ok {
				if pt, ok := mi.X.Type().(*types.Pointer); ok {
					scanned = pt.Elem()
				}
			}
		})
		if scanned == nil {
			continue
		}
		acc++
		r.Check(types.Identical(scanned, rt), "type-tables", fn.Name, site(r, fn.SSA.Pos()),
			"scans into its own result type", "the accessor scans into "+scanned.String()+" but returns "+rt.String())
	}
	r.Floor("type-tables(accessors)", acc, 15)
}

// ---- layout ----

type offPoint struct{ c, k, v int }

var canonPoints = []offPoint{{1, 0, 0}, {1, 1, 0}, {9, 1, 0}, {17, 1, 0}, {25, 1, 0}, {29, 1, 0}, {29, 1, 1}}

// incrementOf evaluates an increment expression into (constant, K, V) counts.
func incrementOf(fn *core.Fn, e ast.Expr) (offPoint, bool) {
	e = core.Unparen(e)
	if k, ok := core.ConstInt(fn.Pkg, e); ok {
		return offPoint{int(k), 0, 0}, true
	}
	switch x := e.(type) {
	case *ast.BinaryExpr:
		if x.Op == token.ADD {
			a, ok1 := incrementOf(fn, x.X)
			b, ok2 := incrementOf(fn, x.Y)
			return offPoint{a.c + b.c, a.k + b.k, a.v + b.v}, ok1 && ok2
		}
	case *ast.CallExpr:
		// conversions uint64(x), int(x); len(value.Key()) / len(value.Value())
		if len(x.Args) == 1 {
			if tv, ok := fn.Pkg.TypesInfo.Types[x.Fun]; ok && tv.IsType() {
				return incrementOf(fn, x.Args[0])
			}
			if id, ok := x.Fun.(*ast.Ident); ok && id.Name == "len" {
				s := exprText(x.Args[0])
				if strings.Contains(s, "Key") {
					return offPoint{0, 1, 0}, true
				}
				if strings.Contains(s, "Value") {
					return offPoint{0, 0, 1}, true
				}
			}
		}
	case *ast.Ident:
		n := strings.ToLower(x.Name)
		switch {
		case n == "klen" || n == "keylength":
			return offPoint{0, 1, 0}, true
		case n == "vlen":
			return offPoint{0, 0, 1}, true
		}
		// a local defined once by `name := expr` in this function
		if obj := fn.Pkg.TypesInfo.Uses[x]; obj != nil {
			var rhs ast.Expr
			defs := 0
			ast.Inspect(fn.Decl.Body, func(nd ast.Node) bool {
				as, ok := nd.(*ast.AssignStmt)
				if !ok {
					return true
				}
				for i, l := range as.Lhs {
					if id, ok := l.(*ast.Ident); ok && (fn.Pkg.TypesInfo.Defs[id] == obj || fn.Pkg.TypesInfo.Uses[id] == obj) && i < len(as.Rhs) {
						defs++
						rhs = as.Rhs[i]
					}
				}
				return true
			})
			if defs == 1 && rhs != nil {
				return incrementOf(fn, rhs)
			}
		}
	}
	return offPoint{}, false
}

func exprText(e ast.Expr) string {
	var sb strings.Builder
	ast.Inspect(e, func(n ast.Node) bool {
		if id, ok := n.(*ast.Ident); ok {
			sb.WriteString(id.Name)
			sb.WriteByte('.')
		}
		return true
	})
	return sb.String()
}

func c17Layout(r *core.Run) {
	p := r.P
	fns := []string{
		tablePkg + ".(*Table).Put", tablePkg + ".(*Table).Get", tablePkg + ".(*Table).get", tablePkg + ".(*Table).GetRaw",
		tablePkg + ".(*Table).GetTTL", tablePkg + ".(*Table).GetLastAccess", tablePkg + ".(*Table).Delete", tablePkg + ".(*Table).UpdateTTL",
		"internal/kvstore/entry.(*Entry).Encode", "internal/kvstore/entry.(*Entry).Decode",
	}
	evaluated := 0
	defer func() { r.Floor("layout-agreement(functions judged)", evaluated, 4) }()
	for _, name := range fns {
		fn := r.Need("layout-agreement", name)
		if fn == nil {
			continue
		}
		// cursors: variables advanced with += / ++ ; per cursor a running point
		cur := map[string]offPoint{}
		bad := ""
		steps := 0
		accessOK := true
		accessWhy := ""
		opaque := false // an advance that the rule cannot evaluate: the function is not judged
		var cursorOrder []string
		isCursor := func(e ast.Expr) (string, bool) {
			s := exprText(e)
			switch s {
			case "offset.", "end.", "t.offset.", "garbage.":
				return s, true
			}
			return "", false
		}
		var walk func(n ast.Node)
		advance := func(lhs ast.Expr, inc offPoint, pos token.Pos) {
			name, ok := isCursor(lhs)
			if !ok {
				return
			}
			if _, seen := cur[name]; !seen {
				cursorOrder = append(cursorOrder, name)
			}
			np := offPoint{cur[name].c + inc.c, cur[name].k + inc.k, cur[name].v + inc.v}
			cur[name] = np
			steps++
			found := false
			for _, cp := range canonPoints {
				if cp == np {
					found = true
				}
			}
			if !found && bad == "" {
				bad = fmt.Sprintf("at %s the cursor %s reaches offset %d+%d*K+%d*V, which is not a field boundary of the layout 1|K|8|8|8|4|V", p.Pos(pos), strings.TrimSuffix(name, "."), np.c, np.k, np.v)
			}
		}
		walk = func(n ast.Node) {
			ast.Inspect(n, func(nd ast.Node) bool {
				switch x := nd.(type) {
				case *ast.FuncLit:
					return false
				case *ast.IncDecStmt:
					if x.Tok == token.INC {
						advance(x.X, offPoint{1, 0, 0}, x.Pos())
					}
				case *ast.AssignStmt:
					if x.Tok == token.ADD_ASSIGN && len(x.Lhs) == 1 {
						inc, ok := incrementOf(fn, x.Rhs[0])
						if !ok {
							if _, isCur := isCursor(x.Lhs[0]); isCur {
								opaque = true
							}
							return true
						}
						advance(x.Lhs[0], inc, x.Pos())
					}
				case *ast.CallExpr:
					// accessor width at the current point of the primary cursor
					se, ok := x.Fun.(*ast.SelectorExpr)
					if !ok {
						return true
					}
					w := 0
					switch se.Sel.Name {
					case "Uint64", "PutUint64":
						w = 8
					case "Uint32", "PutUint32":
						w = 4
					}
					if w == 0 || len(cursorOrder) == 0 && !strings.Contains(name, "Encode") && !strings.Contains(name, "Decode") {
						return true
					}
					// which cursor is used in the slice expression of the first argument?
					used := ""
					ast.Inspect(x.Args[0], func(m ast.Node) bool {
						if id, ok := m.(*ast.Ident); ok && (id.Name == "offset" || id.Name == "end") {
							used = id.Name + "."
						}
						if sel, ok := m.(*ast.SelectorExpr); ok && exprText(sel) == "t.offset." {
							used = "t.offset."
							return false
						}
						return true
					})
					if used == "" {
						return true
					}
					pt := cur[used]
					want := 0
					switch pt {
					case offPoint{1, 1, 0}, offPoint{9, 1, 0}, offPoint{17, 1, 0}:
						want = 8
					case offPoint{25, 1, 0}:
						want = 4
					}
					if want != w {
						accessOK = false
						accessWhy = fmt.Sprintf("%s at %s accesses %d bytes at offset %d+%d*K where the layout has a %d-byte field", se.Sel.Name, p.Pos(x.Pos()), w, pt.c, pt.k, want)
					}
				}
				return true
			})
		}
		walk(fn.Decl.Body)
		switch {
		case opaque && bad == "":
			r.Except("layout-agreement", name+" offsets", p.Pos(fn.Decl.Pos()), "the offsets are not advanced in the step-wise constant form this rule evaluates; not judged (no alarm is raised without positive evidence of a disagreement)")
			continue
		case steps == 0:
			// delegates to a sibling that is judged itself?
			del := ""
			core.WalkCalls(fn.Decl.Body, func(call *ast.CallExpr, _ *ast.FuncLit) {
				if o := core.Callee(fn.Pkg, call); o != nil {
					for _, sib := range fns {
						if core.QualName(o) == sib && sib != name {
							del = sib
						}
					}
				}
			})
			if del != "" {
				r.Except("layout-agreement", name+" offsets", p.Pos(fn.Decl.Pos()), "delegates the layout walk to "+del+", which is judged itself")
			} else {
				r.Except("layout-agreement", name+" offsets", p.Pos(fn.Decl.Pos()), "no step-wise cursor advance found; not judged")
			}
			continue
		}
		evaluated++
		r.Check(bad == "", "layout-agreement", name+" offsets", p.Pos(fn.Decl.Pos()),
			fmt.Sprintf("%d cursor advances, all on field boundaries of 1|K|8|8|8|4|V", steps),
			"the function walks the entry layout differently from its siblings ("+bad+"): entries written by one are misread by the other (corrupt keys, values, expiry or neighbours)")
		r.Check(accessOK, "layout-agreement", name+" field widths", p.Pos(fn.Decl.Pos()),
			"64-bit accessors at ttl/timestamp/last-access, 32-bit at the value length", accessWhy)
	}
	// MetadataLength == 29 and Encode's literal
	if pkg := p.Pkg(tablePkg); pkg != nil {
		ok := constValue(p, tablePkg, "MetadataLength") == 29
		r.Check(ok, "layout-agreement", "MetadataLength", "-", "MetadataLength == 1+8+8+8+4", "MetadataLength is not the sum of the fixed field widths (29)")
	}
	if fn := p.Fn("internal/kvstore/entry.(*Entry).Encode"); fn != nil {
		ok := false
		ast.Inspect(fn.Decl.Body, func(nd ast.Node) bool {
			if bl, isB := nd.(*ast.BasicLit); isB && bl.Value == "29" {
				ok = true
			}
			if se, isS := nd.(*ast.SelectorExpr); isS && se.Sel.Name == "MetadataLength" {
				ok = true
			}
			return true
		})
		r.Check(ok, "layout-agreement", "Entry.Encode fixed part", p.Pos(fn.Decl.Pos()), "buffer length = 29 + len(key) + len(value)", "the encoded entry's buffer is not sized 29 + key + value")
	}
}

// ---- pack ----

func c17Pack(r *core.Run) {
	p := r.P
	enc := r.Need("pack-agreement", tablePkg+".Encode")
	dec := r.Need("pack-agreement", tablePkg+".Decode")
	if enc == nil || dec == nil {
		return
	}
	_, st := core.FindStruct(p.Pkg(tablePkg), "Pack")
	if st == nil {
		r.Unknown("pack-agreement", "Pack", "-", "struct not found")
		return
	}
	written := map[string]bool{}
	read := map[string]bool{}
	for _, sf := range core.AllSSA(enc.SSA) {
		core.Instrs(sf, func(in ssa.Instruction) {
			if s, ok := in.(*ssa.Store); ok {
				if fa, ok := s.Addr.(*ssa.FieldAddr); ok {
					if n, ok := deref(fa.X.Type()).(*types.Named); ok && n.Obj().Name() == "Pack" {
						written[structOf(fa.X.Type()).Field(fa.Field).Name()] = true
					}
				}
			}
		})
	}
	core.Instrs(dec.SSA, func(in ssa.Instruction) {
		if u, ok := in.(*ssa.UnOp); ok && u.Op == token.MUL {
			if fa, ok := u.X.(*ssa.FieldAddr); ok {
				if n, ok := deref(fa.X.Type()).(*types.Named); ok && n.Obj().Name() == "Pack" {
					read[structOf(fa.X.Type()).Field(fa.Field).Name()] = true
				}
			}
		}
	})
	for i := 0; i < st.NumFields(); i++ {
		f := st.Field(i).Name()
		r.Check(written[f] && read[f], "pack-agreement", "Pack."+f, site(r, enc.SSA.Pos()),
			"written by Encode and restored by Decode", fmt.Sprintf("Pack.%s: written by Encode=%v, restored by Decode=%v — a migrated table loses that part of its state", f, written[f], read[f]))
	}
	// memory[:offset] on both sides, buffer sized by offset
	isOffset := core.IsFieldLoad("Table", "offset")
	check := func(fn *core.Fn, what string) {
		ok := false
		sized := what != "Encode"
		core.Instrs(fn.SSA, func(in ssa.Instruction) {
			if sl, isSl := in.(*ssa.Slice); isSl && isMemoryLoad(sl.X) {
				if sl.Low == nil && sl.High != nil && isOffset(sl.High) {
					ok = true
				}
			}
			if ms, isMs := in.(*ssa.MakeSlice); isMs && isOffset(core.StripConv(ms.Len)) {
				sized = true
			}
		})
		r.Check(ok && sized, "pack-agreement", tablePkg+"."+what+" memory[:offset]", site(r, fn.SSA.Pos()),
			"the table memory is transferred up to the write offset", "the table memory is not transferred up to the write offset (e.g. only `inuse` bytes): after overwrites or deletes the tail of the table is cut off while the key index still points into it, so migrated keys read back empty or corrupt")
	}
	check(enc, "Encode")
	check(dec, "Decode")
}

// ---- size boundaries ----

func c17SizeBoundaries(r *core.Run) {
	p := r.P
	fn := r.Need("size-boundaries", tablePkg+".(*Table).Put")
	if fn == nil {
		return
	}
	f := fn.SSA
	maxKey := constValue(p, tablePkg, "MaxKeyLength")
	r.Check(maxKey == 256, "size-boundaries", "MaxKeyLength", "-", "MaxKeyLength == 256 (one length byte)", fmt.Sprintf("MaxKeyLength is %d but the key length is stored in one byte", maxKey))
	// key rejected iff len(key) >= MaxKeyLength, before any write
	var gate *ssa.If
	for _, b := range f.Blocks {
		if len(b.Instrs) == 0 {
			continue
		}
		ifi, ok := b.Instrs[len(b.Instrs)-1].(*ssa.If)
		if !ok {
			continue
		}
		bin, ok := ifi.Cond.(*ssa.BinOp)
		if !ok || lenArg(bin.X) == nil {
			continue
		}
		if k, isK := bin.Y.(*ssa.Const); isK && k.Value != nil && k.Int64() == maxKey {
			if c, isCall := lenArg(bin.X).(*ssa.Call); isCall && methodName(c) == "Key" {
				gate = ifi
			}
		}
	}
	if gate == nil {
		r.Bad("size-boundaries", fn.Name+" key length", site(r, f.Pos()), "no comparison of len(key) with MaxKeyLength: an over-long key is stored with a truncated one-byte length and corrupts the entry and its neighbours")
		return
	}
	bin := gate.Cond.(*ssa.BinOp)
	tbl := [3]bool{core.CmpHolds(bin.Op, -1), core.CmpHolds(bin.Op, 0), core.CmpHolds(bin.Op, 1)}
	rejectsOK := tbl == [3]bool{false, true, true}
	errOK := true
	for _, ret := range core.ReturnsFrom(gate.Block().Succs[0], gate.Block()) {
		if !core.IsGlobalLoad(core.ResultValue(ret, 0), "pkg/storage", "ErrKeyTooLarge") {
			errOK = false
		}
	}
	r.Check(rejectsOK && errOK, "size-boundaries", fn.Name+" key length", site(r, instrPos(gate)),
		"rejected with ErrKeyTooLarge iff len(key) >= 256", fmt.Sprintf("len(key){<,==,>}256 rejects on %v (required {false,true,true}) or the error is not ErrKeyTooLarge", tbl))
	// the narrowing uint8(len(key)) and every write are dominated by the gate
	core.Instrs(f, func(in ssa.Instruction) {
		if mu, ok := in.(*ssa.MapUpdate); ok && core.LastField(mu.Map) == "hkeys" {
			r.Check(gate.Block().Dominates(in.Block()), "size-boundaries", fn.Name+" index write after the key check", site(r, instrPos(in)), "the key-length check dominates the insert", "the entry is inserted before the key length is checked")
		}
	})
	// table full iff inuse+offset >= allocated
	isAlloc := core.IsFieldLoad("Table", "allocated")
	for _, m := range []string{"Put", "PutRaw"} {
		t := p.Fn(tablePkg + ".(*Table)." + m)
		if t == nil {
			continue
		}
		ifs := core.FindCmpIfs(t.SSA, func(v ssa.Value) bool { return !isAlloc(v) }, isAlloc)
		if len(ifs) != 1 {
			r.Unknown("size-boundaries", t.Name+" space check", site(r, t.SSA.Pos()), "expected exactly one comparison with allocated")
			continue
		}
		taken, _ := core.CmpTaken(ifs[0], func(v ssa.Value) bool { return !isAlloc(v) }, isAlloc)
		full := func(i int) bool {
			for _, ret := range core.ReturnsFrom(ifs[0].Block().Succs[taken[i]], ifs[0].Block()) {
				if core.IsGlobalLoad(core.ResultValue(ret, 0), tablePkg, "ErrNotEnoughSpace") {
					return true
				}
			}
			return false
		}
		// must refuse when required+offset > allocated (writing past the end), may refuse at ==
		r.Check(full(2) && !full(0), "size-boundaries", t.Name+" space check", site(r, instrPos(ifs[0])),
			"refuses exactly when the entry would not fit (needed > allocated always refused, needed < allocated never)", "the space check lets an entry be written past the end of the table memory, or refuses entries that fit")
	}
}
