package rules

import (
	"fmt"
	"go/token"
	"go/types"
	"sort"
	"strings"

	"golang.org/x/tools/go/ssa"

	"olricvet/internal/core"
)

// ErrFate describes what a function does with the error one of its calls returns.
type ErrFate struct {
	Fn     *core.Fn
	In     *ssa.Function
	Callee string
	Pos    token.Pos
	Fate   string // "dropped", "swallowed", "handled"
}

var errorType = types.Universe.Lookup("error").Type()

func isErrorType(t types.Type) bool { return types.Identical(t, errorType) }

// errResultIndex: index of the last result when it is of type error, else -1.
func errResultIndex(sig *types.Signature) int {
	n := sig.Results().Len()
	if n == 0 || !isErrorType(sig.Results().At(n-1).Type()) {
		return -1
	}
	return n - 1
}

// isLogCall: the call only reports (log/flog printers, fmt printers to a stream).
func isLogCall(c ssa.CallInstruction) bool {
	o := core.CalleeObj(c)
	if o == nil {
		return false
	}
	n := o.Name()
	if !(strings.HasPrefix(n, "Print") || strings.HasPrefix(n, "Fprint") || n == "Output") {
		return false
	}
	if o.Pkg() == nil {
		return false
	}
	switch o.Pkg().Path() {
	case "log", "fmt":
		return true
	}
	return strings.HasSuffix(o.Pkg().Path(), "/pkg/flog")
}

// errValueFate follows an error value to its uses.
func errValueFate(v ssa.Value) string {
	seen := map[ssa.Value]bool{}
	used, handled := false, false
	var walk func(v ssa.Value, depth int)
	walk = func(v ssa.Value, depth int) {
		if seen[v] || depth > 12 || handled {
			return
		}
		seen[v] = true
		refs := v.Referrers()
		if refs == nil {
			return
		}
		for _, ref := range *refs {
			switch x := ref.(type) {
			case *ssa.DebugRef:
			case *ssa.BinOp:
				// comparison (with nil or a sentinel): inspects, decides nothing by itself
				used = true
			case *ssa.Phi:
				used = true
				walk(x, depth+1)
			case *ssa.Extract:
				walk(x, depth+1)
			case *ssa.MakeInterface:
				used = true
				walk(x, depth+1)
			case *ssa.ChangeInterface:
				used = true
				walk(x, depth+1)
			case *ssa.TypeAssert:
				used = true
				handled = true // the error is taken apart: someone cares which error it is
			case *ssa.Return:
				handled = true
			case *ssa.Send, *ssa.MapUpdate, *ssa.Panic:
				handled = true
			case *ssa.Store:
				used = true
				if x.Val != v {
					continue
				}
				switch a := x.Addr.(type) {
				case *ssa.Alloc:
					// a local (or a captured cell): follow its loads; a captured cell is
					// handed to the closure, which counts as passing it on
					if ar := a.Referrers(); ar != nil {
						for _, r2 := range *ar {
							switch y := r2.(type) {
							case *ssa.UnOp:
								walk(y, depth+1)
							case *ssa.MakeClosure:
								handled = true
							}
						}
					}
				case *ssa.IndexAddr:
					// the argument array of a variadic call (log.Printf("...", err)):
					// follow the array into the call
					if al, ok := a.X.(*ssa.Alloc); ok {
						if ar := al.Referrers(); ar != nil {
							for _, r2 := range *ar {
								if sl, ok := r2.(*ssa.Slice); ok {
									walk(sl, depth+1)
								}
							}
						}
					} else {
						handled = true
					}
				default:
					handled = true // field, element, global, named result through pointer
				}
			case *ssa.MakeClosure:
				handled = true
			case ssa.CallInstruction:
				used = true
				c := x.Common()
				if isLogCall(x) {
					continue
				}
				if c.IsInvoke() && c.Value == v && c.Method.Name() == "Error" {
					// err.Error(): follow the string into printers only
					if cv, ok := x.(*ssa.Call); ok {
						walk(cv, depth+1)
					}
					continue
				}
				// a converter or wrapper (returns an error itself): the error lives on in
				// its result; anything else (errors.Is/As, collectors, helpers) takes it over
				if cv, ok := x.(*ssa.Call); ok && c.Value != v {
					if idx := errResultIndex(c.Signature()); idx >= 0 {
						if c.Signature().Results().Len() == 1 {
							walk(cv, depth+1)
						} else if refs := cv.Referrers(); refs != nil {
							for _, r2 := range *refs {
								if ex, ok := r2.(*ssa.Extract); ok && ex.Index == idx {
									walk(ex, depth+1)
								}
							}
						}
						continue
					}
				}
				handled = true
			case *ssa.Slice, *ssa.IndexAddr, *ssa.Index, *ssa.Lookup, *ssa.Field, *ssa.FieldAddr, *ssa.Convert, *ssa.ChangeType, *ssa.UnOp:
				used = true
				if val, ok := ref.(ssa.Value); ok {
					walk(val, depth+1)
				}
			default:
				used = true
				handled = true
			}
		}
	}
	walk(v, 0)
	switch {
	case handled:
		return "handled"
	case used:
		return "swallowed"
	}
	return "dropped"
}

var errFateCache = map[*core.Prog][]ErrFate{}

// ErrFates classifies, for every call in non-test repository code whose callee returns an
// error, what the calling function does with it.
func ErrFates(p *core.Prog) []ErrFate {
	if out, ok := errFateCache[p]; ok {
		return out
	}
	var out []ErrFate
	for _, fn := range p.FuncList {
		if fn.SSA == nil || skipPkg(fn) {
			continue
		}
		for _, f := range core.AllSSA(fn.SSA) {
			core.Instrs(f, func(in ssa.Instruction) {
				c, ok := in.(ssa.CallInstruction)
				if !ok {
					return
				}
				sig := c.Common().Signature()
				idx := errResultIndex(sig)
				if idx < 0 {
					return
				}
				name := "(dynamic)"
				if o := core.CalleeObj(c); o != nil {
					name = core.QualName(o)
				} else if c.Common().IsInvoke() {
					name = c.Common().Method.FullName()
				}
				call, isCall := in.(*ssa.Call)
				if !isCall {
					// go f() / defer f(): the result cannot be looked at
					fate := "dropped"
					out = append(out, ErrFate{Fn: fn, In: f, Callee: name, Pos: instrPos(in), Fate: fate + "(" + strings.ToLower(fmt.Sprintf("%T", in)[5:]) + ")"})
					return
				}
				var ev ssa.Value = call
				fate := ""
				if sig.Results().Len() > 1 {
					ev = nil
					if refs := call.Referrers(); refs != nil {
						for _, ref := range *refs {
							if ex, ok := ref.(*ssa.Extract); ok && ex.Index == idx {
								ev = ex
							}
						}
					}
					if ev == nil {
						fate = "dropped"
					}
				}
				if fate == "" {
					fate = errValueFate(ev)
					// a callee that can only fail with its package's sentinel errors ("not
					// found"): testing its error against nil is telling that case apart, and
					// acting on it (creating what was not found, say) is handling it
					if fate == "swallowed" && sentinelOnly(p, c) {
						fate = "handled"
					}
				}
				out = append(out, ErrFate{Fn: fn, In: f, Callee: name, Pos: instrPos(in), Fate: fate})
			})
		}
	}
	sort.SliceStable(out, func(i, j int) bool { return out[i].Pos < out[j].Pos })
	errFateCache[p] = out
	return out
}

// sentinelOnly: the callee is a repository function all of whose non-nil error results are
// package-level sentinel values.
func sentinelOnly(p *core.Prog, c ssa.CallInstruction) bool {
	h := p.ByObj[core.CalleeObj(c)]
	if h == nil || h.SSA == nil {
		return false
	}
	idx := errResultIndex(h.SSA.Signature)
	if idx < 0 {
		return false
	}
	sentinels := 0
	for _, ret := range core.Returns(h.SSA) {
		if idx >= len(ret.Results) {
			return false
		}
		v := ret.Results[idx]
		if k, ok := v.(*ssa.Const); ok && k.IsNil() {
			continue
		}
		u, ok := v.(*ssa.UnOp)
		if !ok {
			return false
		}
		if _, isGlobal := u.X.(*ssa.Global); !isGlobal {
			return false
		}
		sentinels++
	}
	return sentinels > 0
}
