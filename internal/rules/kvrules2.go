package rules

import (
	"go/constant"
	"fmt"
	"go/token"
	"go/types"

	"golang.org/x/tools/go/ssa"

	"olricvet/internal/core"
)

// kvLookupVisitsEveryTable: inside the table loops of the KVStore accessors the
// per-table call is executed in every iteration (no `continue` that skips a table
// before asking it).
func kvLookupVisitsEveryTable(r *core.Run) {
	names := []string{"Get", "GetRaw", "GetTTL", "GetLastAccess", "GetKey", "Delete", "UpdateTTL", "Check", "Stats", "Range", "RangeHKey"}
	cnt := 0
	for _, m := range names {
		name := kvPkg + ".(*KVStore)." + m
		fn := r.Need("lookup-visits-every-table", name)
		if fn == nil {
			continue
		}
		if (m == "Range" || m == "RangeHKey") && kvRangeThroughWalker(r, fn, m) {
			cnt++
			continue
		}
		for _, l := range core.IndexLoops(fn.SSA) {
			if l.LenOf == nil || !isTablesLoad(l.LenOf) {
				continue
			}
			// the per-table call: a method of *Table with the same name (Stats/Range... too)
			var call ssa.CallInstruction
			for _, c := range l.Calls() {
				if o := core.CalleeObj(c); o != nil && core.QualName(o) == tablePkg+".(*Table)."+m {
					call = c
				}
			}
			cnt++
			if call == nil {
				r.Bad("lookup-visits-every-table", name, site(r, l.Pos()), "the loop over the tables does not call Table."+m)
				break
			}
			ok := true
			for _, p := range l.Latches() {
				if !call.Block().Dominates(p) {
					ok = false
				}
			}
			r.Check(ok, "lookup-visits-every-table", name, site(r, instrPos(call)),
				"every iteration asks the table (the per-table call dominates the loop's back edge)",
				"some iterations skip the table without asking it (a continue before Table."+m+"): keys living in the skipped tables are invisible to this operation")
			// the operations that aggregate over the whole store (iteration, statistics) never
			// leave the loop early: an empty or uninteresting table must not end the walk
			if (m == "Range" || m == "RangeHKey" || m == "Stats") && l.Yield == nil && l.Header != nil {
				early := ""
				for b := range l.Region() {
					if b == l.Header {
						continue
					}
					for _, sb := range b.Succs {
						if !l.Region()[sb] && sb != l.Header {
							early = site(r, instrPos(b.Instrs[len(b.Instrs)-1]))
						}
					}
					if len(b.Instrs) > 0 {
						if _, isRet := b.Instrs[len(b.Instrs)-1].(*ssa.Return); isRet {
							early = site(r, instrPos(b.Instrs[len(b.Instrs)-1]))
						}
					}
				}
				r.Check(early == "", "lookup-visits-every-table", name+" walks to the end", site(r, l.Pos()),
					"the loop over the tables ends only when every table was visited",
					"the walk over the tables can end early (at "+early+"): the tables that were not reached are invisible to this operation — for the background expiry scan their expired and idle keys are never removed")
			}
			break
		}
	}
	r.Floor("lookup-visits-every-table", cnt, 9)
}

// kvScanIndexRegistration (D23 and related): the scan index tablesByCoefficient names
// exactly the live tables:
//   - a delete(tablesByCoefficient, t.Coefficient()) is never executed for a table known to
//     be recycled (Reset clears the coefficient to 0, so that would unregister table 0);
//   - every Table.Reset() is dominated by such a delete for the same table;
//   - every table appended to k.tables in makeTable / Fork is registered under its
//     coefficient, and a reused recycled table is put back into ReadWriteState.
func kvScanIndexRegistration(r *core.Run) {
	p := r.P
	recycled := constValue(p, tablePkg, "RecycledState")
	readWrite := constValue(p, tablePkg, "ReadWriteState")
	dels, resets := 0, 0
	for _, fn := range p.FuncList {
		if core.RelPkg(fn.Pkg.PkgPath) != kvPkg || fn.SSA == nil {
			continue
		}
		for _, f := range core.AllSSA(fn.SSA) {
			n := counter{}
			core.Instrs(f, func(in ssa.Instruction) {
				c, ok := in.(*ssa.Call)
				if !ok {
					return
				}
				// delete(k.tablesByCoefficient, X)
				if b, ok := c.Call.Value.(*ssa.Builtin); ok && b.Name() == "delete" && core.LastField(c.Call.Args[0]) == "tablesByCoefficient" {
					dels++
					key := n.next(fnName(p, f) + " delete(tablesByCoefficient, ...)")
					t := coefficientOf(c.Call.Args[1])
					if t == nil {
						r.Unknown("scan-index-registration", key, site(r, instrPos(in)), "the deleted key is not t.Coefficient() of a table value")
						return
					}
					bad := false
					for _, cd := range core.Conditions(in.Block()) {
						if st, k, isEq, ok := stateTest(cd, t); ok && st {
							if k == recycled && isEq {
								bad = true
							}
						}
					}
					r.Check(!bad, "scan-index-registration", key, site(r, instrPos(in)),
						"the unregistered coefficient belongs to a table that is not known to be recycled",
						"tablesByCoefficient is deleted under the coefficient of a table that is in RecycledState: Reset() cleared that coefficient to 0, so this unregisters the live table with coefficient 0 and a full scan no longer visits its keys")
				}
				// t.Reset()
				if o := core.CalleeObj(c); o != nil && core.QualName(o) == tablePkg+".(*Table).Reset" {
					resets++
					key := n.next(fnName(p, f) + " Table.Reset")
					t := canonVal(c.Call.Args[0])
					ok := false
					core.Instrs(f, func(d ssa.Instruction) {
						dc, isCall := d.(*ssa.Call)
						if !isCall {
							return
						}
						if b, isB := dc.Call.Value.(*ssa.Builtin); isB && b.Name() == "delete" && core.LastField(dc.Call.Args[0]) == "tablesByCoefficient" {
							if coefficientOf(dc.Call.Args[1]) == t && core.Dominates(d, in) {
								ok = true
							}
						}
					})
					r.Check(ok, "scan-index-registration", key, site(r, instrPos(in)),
						"the table is unregistered from tablesByCoefficient before it is reset",
						"a table is reset (recycled) while still registered in tablesByCoefficient: scans resume into a recycled table")
				}
			})
		}
	}
	r.Floor("scan-index-registration(deletes)", dels, 2)
	r.Floor("scan-index-registration(resets)", resets, 1)

	kvRegistrationOnAppend(r, readWrite)
}

func isTablePtr(t types.Type) bool {
	n, ok := deref(t).(*types.Named)
	return ok && n.Obj().Name() == "Table" && core.RelPkg(n.Obj().Pkg().Path()) == tablePkg
}

// appendedSingle: the variadic argument of append(x, e) is a one-element slice literal.
func appendedSingle(v ssa.Value) ssa.Value {
	sl, ok := v.(*ssa.Slice)
	if !ok {
		return nil
	}
	al, ok := sl.X.(*ssa.Alloc)
	if !ok {
		return nil
	}
	var elem ssa.Value
	n := 0
	for _, ref := range *al.Referrers() {
		if ia, ok := ref.(*ssa.IndexAddr); ok {
			for _, r2 := range *ia.Referrers() {
				if st, ok := r2.(*ssa.Store); ok && st.Addr == ssa.Value(ia) {
					elem = st.Val
					n++
				}
			}
		}
	}
	if n != 1 {
		return nil
	}
	return elem
}

func constValue(p *core.Prog, pkgRel, name string) int64 {
	pkg := p.Pkg(pkgRel)
	if pkg == nil {
		return -1
	}
	c, ok := pkg.Types.Scope().Lookup(name).(*types.Const)
	if !ok {
		return -1
	}
	v, ok := constantInt(c)
	if !ok {
		return -1
	}
	return v
}

// coefficientOf: v is t.Coefficient(); returns t.
func coefficientOf(v ssa.Value) ssa.Value {
	c, ok := v.(*ssa.Call)
	if !ok {
		return nil
	}
	o := core.CalleeObj(c)
	if o == nil || core.QualName(o) != tablePkg+".(*Table).Coefficient" || len(c.Call.Args) != 1 {
		return nil
	}
	return canonVal(c.Call.Args[0])
}

// stateTest decodes a condition "t.State() ==/!= K" for table t: returns whether it
// matches, K, and whether on this edge State()==K holds.
func stateTest(cd core.Cond, t ssa.Value) (match bool, k int64, isEq bool, ok bool) {
	bin, isBin := cd.Val.(*ssa.BinOp)
	if !isBin || (bin.Op != token.EQL && bin.Op != token.NEQ) {
		return false, 0, false, false
	}
	var call, kv ssa.Value = bin.X, bin.Y
	if _, isC := call.(*ssa.Const); isC {
		call, kv = kv, call
	}
	kc, isC := kv.(*ssa.Const)
	c, isCall := call.(*ssa.Call)
	if !isC || !isCall || kc.Value == nil {
		return false, 0, false, false
	}
	o := core.CalleeObj(c)
	if o == nil || core.QualName(o) != tablePkg+".(*Table).State" || len(c.Call.Args) != 1 || canonVal(c.Call.Args[0]) != canonVal(t) {
		return false, 0, false, false
	}
	return true, kc.Int64(), (bin.Op == token.EQL) == cd.Truth, true
}

// kvSizeBoundaryAgreement (D24): every entry the store accepts fits into an empty table.
// KVStore.Put/PutRaw reject on a comparison of the required size with tableSize; Table.Put/
// PutRaw report "not enough space" on a comparison of required+offset with allocated. With
// an empty table (offset 0) and allocated == tableSize the orderings accepted by the store
// must be a subset of those that fit, otherwise Put allocates tables forever.
func kvSizeBoundaryAgreement(r *core.Run) {
	pairs := [][2]string{
		{kvPkg + ".(*KVStore).Put", tablePkg + ".(*Table).Put"},
		{kvPkg + ".(*KVStore).PutRaw", tablePkg + ".(*Table).PutRaw"},
	}
	isTS := core.IsFieldLoad("KVStore", "tableSize")
	isAlloc := core.IsFieldLoad("Table", "allocated")
	for _, pr := range pairs {
		kf := r.Need("size-boundary-agreement", pr[0])
		tf := r.Need("size-boundary-agreement", pr[1])
		if kf == nil || tf == nil {
			continue
		}
		// store side: orderings of required vs tableSize on which ErrEntryTooLarge is returned
		kifs := core.FindCmpIfs(kf.SSA, func(v ssa.Value) bool { return !isTS(v) }, isTS)
		tifs := core.FindCmpIfs(tf.SSA, func(v ssa.Value) bool { return !isAlloc(v) }, isAlloc)
		if len(kifs) != 1 || len(tifs) != 1 {
			r.Unknown("size-boundary-agreement", pr[0], site(r, kf.SSA.Pos()), fmt.Sprintf("expected one size comparison in the store method and one in the table method, found %d and %d", len(kifs), len(tifs)))
			continue
		}
		kt, _ := core.CmpTaken(kifs[0], func(v ssa.Value) bool { return !isTS(v) }, isTS)
		tt, _ := core.CmpTaken(tifs[0], func(v ssa.Value) bool { return !isAlloc(v) }, isAlloc)
		rejects := func(ifi *ssa.If, taken [3]int, errName, pkgRel string) [3]bool {
			var out [3]bool
			for i := 0; i < 3; i++ {
				rets := core.ReturnsFrom(ifi.Block().Succs[taken[i]], ifi.Block())
				all := len(rets) > 0
				for _, ret := range rets {
					v := core.ResultValue(ret, core.ErrIndex(ifi.Parent()))
					if !core.IsGlobalLoad(v, pkgRel, errName) {
						all = false
					}
				}
				out[i] = all
			}
			return out
		}
		krej := rejects(kifs[0], kt, "ErrEntryTooLarge", "pkg/storage")
		trej := rejects(tifs[0], tt, "ErrNotEnoughSpace", tablePkg)
		bad := ""
		for i := 0; i < 3; i++ {
			if !krej[i] && trej[i] {
				bad = fmt.Sprintf("required size %s table size: the store accepts the entry but an empty table reports not-enough-space", ord(i))
			}
		}
		r.Check(bad == "", "size-boundary-agreement", pr[0]+" vs "+pr[1], site(r, instrPos(kifs[0])),
			fmt.Sprintf("store rejects on %v, empty table refuses on %v over the orderings {<,==,>}: every accepted entry fits", krej, trej),
			bad+": the retry loop allocates a new table forever (the request never returns and memory grows without bound)")
	}
}

// kvRangeThroughWalker recognises the iteration written with a table walker: Range hands a
// closure to a helper of the store that calls it for k.tables[(start+i) % len(k.tables)],
// i = 0 .. len-1 (a rotation visits every table once), and stops only when the closure
// answers false; the closure asks the table (Table.Range / RangeHKey) on every call. It
// emits the two obligations of the plain loop form and reports whether the form was found.
func kvRangeThroughWalker(r *core.Run, fn *core.Fn, m string) bool {
	p := r.P
	name := fn.Name
	type cand struct {
		h  *ssa.Function // the function holding the walk
		cb *ssa.Function // the visiting closure, when known from the call site
	}
	// the walk written in place (or a new helper inlined by the normaliser) ...
	cands := []cand{{fn.SSA, nil}}
	// ... or in a helper of the store that is handed the closure
	for _, in := range findInstrs(fn.SSA, false, func(in ssa.Instruction) bool { _, ok := in.(ssa.CallInstruction); return ok }) {
		c := in.(ssa.CallInstruction)
		h := p.ByObj[core.CalleeObj(c)]
		if h == nil || h.SSA == nil || core.RelPkg(h.Pkg.PkgPath) != kvPkg {
			continue
		}
		for _, a := range c.Common().Args {
			switch x := a.(type) {
			case *ssa.MakeClosure:
				if g, ok := x.Fn.(*ssa.Function); ok {
					cands = append(cands, cand{h.SSA, g})
				}
			case *ssa.Function:
				cands = append(cands, cand{h.SSA, x})
			}
		}
	}
	for _, cd0 := range cands {
		h, cb := cd0.h, cd0.cb
		// the walker
		for _, l := range core.IndexLoops(h) {
			if l.LenOf == nil || !isTablesLoad(l.LenOf) || l.Lo != 0 || l.HiOff != 1 {
				continue
			}
			var visit *ssa.Call
			for _, lc := range l.Calls() {
				call, ok := lc.(*ssa.Call)
				if !ok {
					continue
				}
				if len(call.Call.Args) != 1 {
					continue
				}
				thisCb := cb
				if _, isPar := call.Call.Value.(*ssa.Parameter); isPar {
					if cb == nil {
						continue
					}
				} else if g := call.Call.StaticCallee(); g != nil && g.Parent() == fn.SSA && cb == nil {
					thisCb = g
				} else {
					continue
				}
				u, ok := call.Call.Args[0].(*ssa.UnOp)
				if !ok {
					continue
				}
				ia, ok := u.X.(*ssa.IndexAddr)
				if !ok || !isTablesLoad(ia.X) {
					continue
				}
				idx := ia.Index
				if rem, ok := idx.(*ssa.BinOp); ok && rem.Op == token.REM {
					if add, ok := rem.X.(*ssa.BinOp); ok && add.Op == token.ADD && (add.X == l.Index || add.Y == l.Index) && lenArg(rem.Y) != nil {
						idx = l.Index
					} else if add, ok := rem.X.(*ssa.BinOp); ok && add.Op == token.ADD && (add.X == l.Index || add.Y == l.Index) {
						// n := len(k.tables) kept in a local
						if lc2, ok := rem.Y.(*ssa.Call); ok && lenArg(lc2) != nil {
							idx = l.Index
						}
					}
				}
				if idx == l.Index {
					visit = call
					cb = thisCb
				}
			}
			if visit == nil {
				continue
			}
			every := true
			for _, lt := range l.Latches() {
				if !visit.Block().Dominates(lt) {
					every = false
				}
			}
			// the closure asks the table on every call
			asks := false
			for _, tc := range findInstrs(cb, false, callTo(tablePkg+".(*Table)."+m)) {
				all := true
				for _, ret := range core.Returns(cb) {
					if !tc.Block().Dominates(ret.Block()) {
						all = false
					}
				}
				if all {
					asks = true
				}
			}
			r.Check(every && asks, "lookup-visits-every-table", name, site(r, instrPos(visit)),
				"every table is handed to the visiting closure (a rotation over all indices), which asks the table on every call",
				"some tables are skipped: the walker does not call the visiting closure in every iteration, or the closure does not always call Table."+m)
			// the closure's answer for a table in which the visitor was never called (a table
			// without live entries): it must be "go on", or the walk ends at the first emptied or
			// recycled table and the tables behind it are invisible
			if idle, known := answerWithoutVisit(cb); known {
				r.Check(idle, "lookup-visits-every-table", name+" goes past a table without entries", site(r, cb.Pos()),
					"the visiting closure answers true when the table had no entry to show",
					"the visiting closure answers false when the table had no entry to show (its result is only ever set by the visitor): the walk ends at the first emptied or recycled table and the tables behind it are invisible to eviction, expiry and iteration")
			}
			// early exits only on the closure's answer
			early := ""
			for b := range l.Region() {
				if b == l.Header {
					continue
				}
				leaves := false
				for _, sb := range b.Succs {
					if !l.Region()[sb] {
						leaves = true
					}
				}
				if len(b.Instrs) > 0 {
					if _, isRet := b.Instrs[len(b.Instrs)-1].(*ssa.Return); isRet {
						leaves = true
					}
				}
				if !leaves {
					continue
				}
				guarded := false
				for _, cd := range core.Conditions(b) {
					if cd.Val == ssa.Value(visit) && !cd.Truth {
						guarded = true
					}
				}
				if ifi, ok := b.Instrs[len(b.Instrs)-1].(*ssa.If); ok {
					if v, _ := core.StripNot(ifi.Cond); v == ssa.Value(visit) {
						guarded = true
					}
				}
				if !guarded {
					early = site(r, instrPos(b.Instrs[len(b.Instrs)-1]))
				}
			}
			r.Check(early == "", "lookup-visits-every-table", name+" walks to the end", site(r, l.Pos()),
				"the walk over the tables ends early only when the visitor asks for it",
				"the walk over the tables can end early (at "+early+") without the visitor asking for it: the tables that were not reached are invisible to this operation")
			return true
		}
	}
	return false
}

// answerWithoutVisit evaluates what a table-visiting closure returns when the per-entry
// callback it hands to the table is never invoked: stores made by nested closures are
// ignored, a variable without a store in the closure itself has its zero value. known is
// false when the result is not a constant under that assumption.
func answerWithoutVisit(cb *ssa.Function) (val, known bool) {
	var eval func(v ssa.Value, depth int) (bool, bool)
	eval = func(v ssa.Value, depth int) (bool, bool) {
		if depth > 6 {
			return false, false
		}
		switch x := v.(type) {
		case *ssa.Const:
			if x.Value != nil && x.Value.Kind() == constant.Bool {
				return constant.BoolVal(x.Value), true
			}
		case *ssa.UnOp:
			if x.Op == token.NOT {
				b, ok := eval(x.X, depth+1)
				return !b, ok
			}
			if x.Op == token.MUL {
				cell, ok := x.X.(*ssa.Alloc)
				if !ok || cell.Parent() != cb {
					return false, false
				}
				var vals []ssa.Value
				for _, ref := range *cell.Referrers() {
					if st, ok := ref.(*ssa.Store); ok && st.Addr == ssa.Value(cell) && st.Parent() == cb {
						if ld, ok := st.Val.(*ssa.UnOp); ok && ld.Op == token.MUL && ld.X == ssa.Value(cell) {
							continue // "return next" with a named result stores the variable into itself
						}
						vals = append(vals, st.Val)
					}
				}
				if len(vals) == 0 {
					return false, true // zero value
				}
				first, ok := eval(vals[0], depth+1)
				if !ok {
					return false, false
				}
				for _, o := range vals[1:] {
					if b, ok := eval(o, depth+1); !ok || b != first {
						return false, false
					}
				}
				return first, true
			}
		}
		return false, false
	}
	rets := core.Returns(cb)
	if len(rets) == 0 {
		return false, false
	}
	for i, ret := range rets {
		if len(ret.Results) != 1 {
			return false, false
		}
		b, ok := eval(ret.Results[0], 0)
		if !ok {
			return false, false
		}
		if i == 0 {
			val = b
		} else if b != val {
			return false, false
		}
	}
	return val, true
}
