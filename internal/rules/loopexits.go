package rules

import (
	"fmt"
	"go/token"
	"go/types"
	"sort"

	"golang.org/x/tools/go/ssa"

	"olricvet/internal/core"
)

// LoopExit is one way out of a loop other than its own condition failing, or one way a
// Range-style callback asks its driver to stop.
type LoopExit struct {
	Fn    *core.Fn
	In    *ssa.Function
	Kind  string // "break", "return-success", "return-failure", "return", "stop-callback"
	Over  string // what the loop ranges over (type of the collection, or the driver of the callback)
	Pos   token.Pos
	Loop  token.Pos
	Guard string
}

// loopHeaders lists the natural loop headers of f.
func loopHeaders(f *ssa.Function) []*ssa.BasicBlock {
	var out []*ssa.BasicBlock
	for _, b := range f.Blocks {
		for _, p := range b.Preds {
			if b.Dominates(p) {
				out = append(out, b)
				break
			}
		}
	}
	return out
}

func returnKind(p *core.Prog, ret *ssa.Return) string {
	sig := ret.Parent().Signature
	idx := errResultIndex(sig)
	if idx < 0 || idx >= len(ret.Results) {
		return "return"
	}
	switch core.ErrState(ret.Results[idx], ret.Block(), nil) {
	case core.IsNil:
		return "return-success"
	case core.NonNil:
		return "return-failure"
	}
	if k, ok := ret.Results[idx].(*ssa.Const); ok && k.IsNil() {
		return "return-success"
	}
	return "return"
}

// loopOver describes the collection a loop walks: the element type of the slice indexed
// with the loop, or the map/channel ranged over.
func loopOver(h *ssa.BasicBlock, body map[*ssa.BasicBlock]bool) string {
	best := ""
	for b := range body {
		for _, in := range b.Instrs {
			switch x := in.(type) {
			case *ssa.Next:
				if r, ok := x.Iter.(*ssa.Range); ok {
					return "range " + types.TypeString(r.X.Type(), shortQual)
				}
			case *ssa.IndexAddr:
				best = "index " + types.TypeString(x.X.Type(), shortQual)
			case *ssa.UnOp:
				if x.Op == token.ARROW {
					return "receive " + types.TypeString(x.X.Type(), shortQual)
				}
			case *ssa.Select:
				return "select"
			}
		}
	}
	if best == "" {
		return "loop"
	}
	return best
}

func shortQual(p *types.Package) string { return p.Name() }

// LoopExits lists the early exits of every loop and the stop requests of every
// Range-style callback in non-test repository code.
func LoopExits(p *core.Prog) []LoopExit {
	var out []LoopExit
	for _, fn := range p.FuncList {
		if fn.SSA == nil || skipPkg(fn) {
			continue
		}
		for _, f := range core.AllSSA(fn.SSA) {
			for _, h := range loopHeaders(f) {
				body := core.NaturalLoop(h)
				over := loopOver(h, body)
				for b := range body {
					for _, s := range b.Succs {
						if body[s] {
							continue
						}
						if b == h {
							continue // the loop's own condition
						}
						// where does this exit lead: a return, or the code after the loop
						kind := "break"
						var pos token.Pos
						if len(s.Instrs) > 0 {
							if ret, ok := s.Instrs[len(s.Instrs)-1].(*ssa.Return); ok && len(s.Instrs) <= 3 {
								kind = returnKind(p, ret)
							}
						}
						if len(b.Instrs) > 0 {
							pos = instrPos(b.Instrs[len(b.Instrs)-1])
						}
						out = append(out, LoopExit{Fn: fn, In: f, Kind: kind, Over: over, Pos: pos, Loop: instrPos(h.Instrs[0])})
					}
					// returns inside the loop body
					if len(b.Instrs) > 0 {
						if ret, ok := b.Instrs[len(b.Instrs)-1].(*ssa.Return); ok {
							out = append(out, LoopExit{Fn: fn, In: f, Kind: returnKind(p, ret), Over: over, Pos: instrPos(ret), Loop: instrPos(h.Instrs[0])})
						}
					}
				}
			}
			// a callback with a single bool result handed to a Range-style driver
			if f.Parent() != nil && f.Signature.Results().Len() == 1 {
				if bt, ok := f.Signature.Results().At(0).Type().Underlying().(*types.Basic); ok && bt.Kind() == types.Bool {
					driver := callbackDriver(f)
					if driver != "" {
						core.Instrs(f, func(in ssa.Instruction) {
							ret, ok := in.(*ssa.Return)
							if !ok || in.Parent() != f {
								return
							}
							if k, ok := ret.Results[0].(*ssa.Const); ok && k.Value != nil && !boolConst(k) {
								kind := "stop-callback"
								if stopsOnError(ret.Block()) {
									kind = "stop-callback-on-error"
								}
								out = append(out, LoopExit{Fn: fn, In: f, Kind: kind, Over: driver, Pos: instrPos(ret), Loop: f.Pos()})
							}
						})
					}
				}
			}
		}
	}
	sort.SliceStable(out, func(i, j int) bool { return out[i].Pos < out[j].Pos })
	return out
}

func boolConst(k *ssa.Const) bool { return k.Value.String() == "true" }

// callbackDriver: the function the closure is passed to, when it is named Range*.
func callbackDriver(f *ssa.Function) string {
	par := f.Parent()
	if par == nil {
		return ""
	}
	driver := ""
	core.Instrs(par, func(in ssa.Instruction) {
		mc, ok := in.(*ssa.MakeClosure)
		if !ok || mc.Fn != ssa.Value(f) {
			return
		}
		for _, ref := range *mc.Referrers() {
			if c, ok := ref.(ssa.CallInstruction); ok {
				if o := core.CalleeObj(c); o != nil {
					driver = core.QualName(o)
				} else if c.Common().IsInvoke() {
					driver = c.Common().Method.FullName()
				}
			}
		}
	})
	if driver == "" {
		// function literals without captured variables are plain functions
		core.Instrs(par, func(in ssa.Instruction) {
			c, ok := in.(ssa.CallInstruction)
			if !ok {
				return
			}
			for _, a := range c.Common().Args {
				if a == ssa.Value(f) {
					if o := core.CalleeObj(c); o != nil {
						driver = core.QualName(o)
					} else if c.Common().IsInvoke() {
						driver = c.Common().Method.FullName()
					}
				}
			}
		})
	}
	return driver
}

func (e LoopExit) String(p *core.Prog) string {
	return fmt.Sprintf("%s\t%s\t%s\t%s", e.Kind, e.Fn.Name, e.Over, p.Pos(e.Pos))
}

// stopsOnError: the block is reached only after an error was found (an error value tested
// non-nil, or matched with errors.Is): the walk is abandoned because it failed, which the
// enclosing function reports, not because the callback lost interest.
func stopsOnError(b *ssa.BasicBlock) bool {
	for _, cd := range core.Conditions(b) {
		if v, nonNil, ok := isErrNilTest(cd); ok && nonNil && isErrorType(v.Type()) {
			return true
		}
		if c, ok := cd.Val.(*ssa.Call); ok && cd.Truth {
			if o := core.CalleeObj(c); o != nil && core.QualName(o) == "errors.Is" {
				return true
			}
		}
	}
	return false
}
