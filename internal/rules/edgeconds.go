package rules

import (
	"golang.org/x/tools/go/ssa"

	"olricvet/internal/core"
)

// edgeConds returns the conditions that hold when control passes from block `from` to
// its successor `to`: the conditions of `from` plus, if `from` ends in an If and `to` is
// exactly one of its two (distinct) successors, that If's condition.
func edgeConds(from, to *ssa.BasicBlock) []core.Cond {
	conds := append([]core.Cond(nil), core.Conditions(from)...)
	if len(from.Instrs) == 0 {
		return conds
	}
	ifi, ok := from.Instrs[len(from.Instrs)-1].(*ssa.If)
	if !ok || len(from.Succs) != 2 || from.Succs[0] == from.Succs[1] {
		return conds
	}
	for i, s := range from.Succs {
		if s == to {
			cv, neg := core.StripNot(ifi.Cond)
			truth := i == 0
			if neg {
				truth = !truth
			}
			conds = append(conds, core.Cond{If: ifi, Val: cv, Truth: truth})
		}
	}
	return conds
}
