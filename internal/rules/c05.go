package rules

import (
	"fmt"
	"go/ast"
	"go/token"
	"go/types"
	"strings"

	"golang.org/x/tools/go/ssa"

	"olricvet/internal/core"
)

func init() {
	register(&Property{
		ID: "C05",
		Explain: "Static structural necessary conditions of 'quorums are enforced exactly'. Decided for every input and configuration: " +
			"(wq) in the synchronous write path every return passes the comparison of the stored-copies counter with WriteQuorum, the loop over backup owners has no exit other than continue, the counter is incremented exactly on edges where a copy's error was tested nil (remote: Process/Err, local: putEntryOnFragment), and the comparison's truth table over the orderings {<,=,>} is {ErrWriteQuorum, ack, ack}; " +
			"(rq) the entry returned by the quorum read is an element of a slice whose length was compared with ReadQuorum with truth table {ErrReadQuorum, ok, ok}; " +
			"(mcq) CheckMemberCountQuorum returns ErrClusterQuorum exactly when MemberCountQuorum > NumMembers; " +
			"(wiring) every registered handler is wrapped with the precondition, the wrapper invokes the handler only on the precondition's true edge (allowed bypasses: no precondition configured, empty argv, the routing-table push), the precondition is installed before any handler registration, isOperable/preconditionFunc/NewDMap pass the member-count check on their success edges, and the three quorum errors are registered with the protocol error table. " +
			"(copy-addressed-by-flag) the entry read, the entry delete and the scan choose the backup fragment exactly on the true edge of the request's replica flag and the primary fragment exactly on its false edge (no fallback to the other copy: one physical copy would answer twice and count twice towards ReadQuorum); " +
			"NOT decided: which backups are reachable at run time, staleness of the member count, behaviour of go-redis and memberlist.",
		Assume: []string{
			"(*redis.Client).Process returns the command's error (network and error reply) — go-redis v9.7.3 redis.go",
			"the ServeMuxWrapper captures precond at registration time (read in handler.go HandleFunc)",
		},
		Run: checkC05,
	})
}

func checkC05(r *core.Run) {
	c05WriteQuorum(r)
	c05ReadQuorum(r)
	c05MemberCount(r)
	c05Wiring(r)
	c05ErrorRegistry(r)
	copyAddressedByFlag(r)
	memberCountFollowsMembership(r)
	c05QuorumErrorKeepsIdentity(r)
}

const syncPut = "internal/dmap.(*DMap).syncPutOnCluster"

func isWQ(v ssa.Value) bool { return core.IsFieldLoad("Config", "WriteQuorum")(v) }
func isRQ(v ssa.Value) bool { return core.IsFieldLoad("Config", "ReadQuorum")(v) }

func c05WriteQuorum(r *core.Run) {
	fn := r.Need("wq-mustpass", syncPut)
	if fn == nil {
		return
	}
	f := fn.SSA
	pt := passThrough(r.P)
	ifs := core.FindCmpIfs(f, func(v ssa.Value) bool { return !isWQ(v) }, isWQ)
	r.Floor("wq-compare", len(ifs), 1)
	if len(ifs) == 0 {
		return
	}
	if len(ifs) > 1 {
		// keep the comparison that decides the acknowledgement: the one from which a nil return is reachable
		var ack []*ssa.If
		for _, ifi := range ifs {
			for _, ret := range core.ReturnsFrom(ifi.Block(), nil) {
				if core.ErrState(core.ResultValue(ret, 0), ret.Block(), pt) == core.IsNil {
					ack = append(ack, ifi)
					break
				}
			}
		}
		// prefer the last one in dominance order (the final decision)
		var last *ssa.If
		for _, a := range ack {
			dominatedByAll := true
			for _, b := range ack {
				if a != b && !b.Block().Dominates(a.Block()) {
					dominatedByAll = false
				}
			}
			if dominatedByAll {
				last = a
			}
		}
		if last == nil {
			r.Unknown("wq-compare", syncPut, site(r, f.Pos()), "several comparisons with WriteQuorum and none is the final acknowledging decision")
			return
		}
		ifs = []*ssa.If{last}
	}
	ifi := ifs[0]
	taken, _ := core.CmpTaken(ifi, func(v ssa.Value) bool { return !isWQ(v) }, isWQ)
	ib := ifi.Block()
	where := site(r, instrPos(ifi))

	// boundary: counter < W  => every reachable return is ErrWriteQuorum; counter >= W => nil.
	ok := taken[0] != taken[1] && taken[1] == taken[2]
	if !ok {
		r.Bad("wq-boundary", syncPut+" compare(counter,WriteQuorum)", where,
			fmt.Sprintf("orderings counter{<,==,>}WriteQuorum take edges %v; required: '<' separated from '==' and '>' (acknowledge iff counter >= WriteQuorum)", taken))
	} else {
		failS, okS := ib.Succs[taken[0]], ib.Succs[taken[1]]
		good := true
		for _, ret := range core.ReturnsFrom(failS, ib) {
			v := core.ResultValue(ret, 0)
			if !core.IsGlobalLoad(v, "internal/dmap", "ErrWriteQuorum") {
				good = false
				r.Bad("wq-boundary", syncPut+" return on counter<WriteQuorum", site(r, instrPos(ret)), "a return reachable with fewer than WriteQuorum stored copies does not yield ErrWriteQuorum")
			}
		}
		for _, ret := range core.ReturnsFrom(okS, ib) {
			v := core.ResultValue(ret, 0)
			if core.ErrState(v, ret.Block(), pt) != core.IsNil {
				good = false
				r.Bad("wq-boundary", syncPut+" return on counter>=WriteQuorum", site(r, instrPos(ret)), "with at least WriteQuorum stored copies the write must be acknowledged (nil), but this return may yield an error")
			}
		}
		if good {
			r.OK("wq-boundary", syncPut+" compare(counter,WriteQuorum)", where, "truth table over {<,==,>}: {ErrWriteQuorum, nil, nil}")
		}
	}

	// must-pass: every return is dominated by the comparison.
	n := counter{}
	for _, ret := range core.Returns(f) {
		key := n.next(syncPut + " return")
		if ib.Dominates(ret.Block()) {
			r.OK("wq-mustpass", key, site(r, instrPos(ret)), "dominated by compare(counter, WriteQuorum) at "+where)
		} else {
			r.Bad("wq-mustpass", key, site(r, instrPos(ret)), "this return leaves the synchronous write path without passing the WriteQuorum comparison (an unreachable or failing backup must not decide the outcome while the quorum can still be met)")
		}
	}

	// counter increments
	var cnt ssa.Value
	if b, ok := mustBin(ifi); ok {
		if isWQ(b.Y) {
			cnt = b.X
		} else {
			cnt = b.Y
		}
	}
	web := core.PhiWeb(cnt)
	remote, local := 0, 0
	inc := counter{}
	for v := range web {
		b, ok := v.(*ssa.BinOp)
		if !ok {
			continue
		}
		key := inc.next(syncPut + " counter-increment")
		k, _ := b.Y.(*ssa.Const)
		if b.Op != token.ADD || k == nil || k.Int64() != 1 {
			r.Bad("wq-counter", key, site(r, instrPos(b)), "the stored-copies counter changes by something other than +1")
			continue
		}
		// the increment must sit under "err == nil" of an error produced by a store attempt
		var srcs []string
		guarded := false
		for _, c := range core.Conditions(b.Block()) {
			v, nonNil, ok := isErrNilTest(c)
			if !ok || nonNil {
				continue
			}
			for _, call := range errSources(r.P, v) {
				q := calleeName(call)
				srcs = append(srcs, q)
				switch q {
				case "internal/dmap.(*DMap).putEntryOnFragment":
					guarded = true
					local++
				case "github.com/redis/go-redis/v9.(*Client).Process", "github.com/redis/go-redis/v9.(baseCmd).Err", "github.com/redis/go-redis/v9.(*baseCmd).Err":
					guarded = true
					remote++
				default:
					// a same-package helper that sends the entry and hands back both the
					// transport error and the backup's reply
					if h := r.P.ByObj[core.CalleeObj(call)]; h != nil && h.SSA != nil && h.Pkg.PkgPath == f.Pkg.Pkg.Path() &&
						propagatesFailure(r.P, h.SSA, callTo(fnRedisProcess)) && propagatesFailure(r.P, h.SSA, callNamed("Err")) {
						guarded = true
						remote++
					}
				}
			}
		}
		if guarded {
			r.OK("wq-counter", key, site(r, instrPos(b)), fmt.Sprintf("incremented only where the store attempt's error is nil (sources %v)", srcs))
		} else {
			r.Bad("wq-counter", key, site(r, instrPos(b)), fmt.Sprintf("the counter is incremented on an edge where no store attempt is known to have succeeded (error sources on this edge: %v)", srcs))
		}
	}
	if remote == 0 {
		r.Bad("wq-counter", syncPut+" remote-copy-counted", where, "no increment is tied to a successful remote PutEntry (Process/Err nil)")
	} else {
		r.OK("wq-counter", syncPut+" remote-copy-counted", where, "a successful remote copy increments the counter")
	}
	if local == 0 {
		r.Bad("wq-counter", syncPut+" local-copy-counted", where, "no increment is tied to a successful local putEntryOnFragment")
	} else {
		r.OK("wq-counter", syncPut+" local-copy-counted", where, "the successful local copy increments the counter")
	}
}

func mustBin(ifi *ssa.If) (*ssa.BinOp, bool) {
	v, _ := core.StripNot(ifi.Cond)
	b, ok := v.(*ssa.BinOp)
	return b, ok
}

const getOnCluster = "internal/dmap.(*DMap).getOnCluster"

func c05ReadQuorum(r *core.Run) {
	fn := r.Need("rq-boundary", getOnCluster)
	if fn == nil {
		return
	}
	f := fn.SSA
	pt := passThrough(r.P)
	n := counter{}
	found := 0
	for _, ret := range core.Returns(f) {
		ev := core.ResultValue(ret, 1)
		if ev == nil || core.ErrState(ev, ret.Block(), pt) == core.NonNil {
			continue
		}
		found++
		key := n.next(getOnCluster + " success-return")
		// which slice does the returned entry come from?
		sl := sliceOfReturnedEntry(core.ResultValue(ret, 0))
		if sl == nil {
			r.Unknown("rq-boundary", key, site(r, instrPos(ret)), "cannot trace the returned entry to an element of a version slice")
			continue
		}
		isLen := core.IsLenOf(func(v ssa.Value) bool { return v == sl })
		good := false
		var why string
		for _, ifi := range core.FindCmpIfs(f, isLen, isRQ) {
			taken, _ := core.CmpTaken(ifi, isLen, isRQ)
			if taken[0] == taken[1] || taken[1] != taken[2] {
				why = fmt.Sprintf("comparison at %s takes edges %v for len{<,==,>}ReadQuorum; required: '<' separated from '==' and '>'", site(r, instrPos(ifi)), taken)
				continue
			}
			ib := ifi.Block()
			if !core.EdgeDominates(ib, taken[1], ret.Block()) {
				why = fmt.Sprintf("comparison at %s does not guard this return", site(r, instrPos(ifi)))
				continue
			}
			// the failing edge yields ErrReadQuorum
			bad := false
			for _, fr := range core.ReturnsFrom(ib.Succs[taken[0]], ib) {
				if !core.IsGlobalLoad(core.ResultValue(fr, 1), "internal/dmap", "ErrReadQuorum") {
					bad = true
					why = fmt.Sprintf("the return at %s, reachable with fewer than ReadQuorum copies, does not yield ErrReadQuorum", site(r, instrPos(fr)))
				}
			}
			if !bad {
				good = true
				why = fmt.Sprintf("guarded by len(copies) vs ReadQuorum at %s with truth table {ErrReadQuorum, ok, ok}", site(r, instrPos(ifi)))
				break
			}
		}
		if why == "" {
			why = "no comparison between the number of obtained copies (the slice the winner is taken from) and ReadQuorum"
		}
		r.Check(good, "rq-boundary", key, site(r, instrPos(ret)), why, why)
	}
	r.Floor("rq-boundary", found, 1)
}

// sliceOfReturnedEntry traces winner.entry back to the slice the winner was indexed from.
func sliceOfReturnedEntry(v ssa.Value) ssa.Value {
	for i := 0; i < 8 && v != nil; i++ {
		switch x := v.(type) {
		case *ssa.UnOp:
			if x.Op != token.MUL {
				return nil
			}
			v = x.X
		case *ssa.FieldAddr:
			v = x.X
		case *ssa.IndexAddr:
			return x.X
		default:
			return nil
		}
	}
	return nil
}

func c05MemberCount(r *core.Run) {
	const name = "internal/cluster/routingtable.(*RoutingTable).CheckMemberCountQuorum"
	fn := r.Need("mcq-boundary", name)
	if fn == nil {
		return
	}
	f := fn.SSA
	pt := passThrough(r.P)
	isQ := core.IsFieldLoad("Config", "MemberCountQuorum")
	isN := core.IsCallTo("internal/cluster/routingtable.(*RoutingTable).NumMembers")
	ifs := core.FindCmpIfs(f, isN, isQ)
	r.Floor("mcq-boundary", len(ifs), 1)
	if len(ifs) != 1 {
		if len(ifs) > 1 {
			r.Unknown("mcq-boundary", name, site(r, f.Pos()), "several comparisons of NumMembers with MemberCountQuorum")
		}
		return
	}
	ifi := ifs[0]
	taken, _ := core.CmpTaken(ifi, isN, isQ) // ordering of NumMembers relative to the quorum
	ib := ifi.Block()
	where := site(r, instrPos(ifi))
	if taken[0] == taken[1] || taken[1] != taken[2] {
		r.Bad("mcq-boundary", name, where, fmt.Sprintf("orderings NumMembers{<,==,>}MemberCountQuorum take edges %v; required: error exactly for '<'", taken))
		return
	}
	good := true
	for _, ret := range core.ReturnsFrom(ib.Succs[taken[0]], ib) {
		if !core.IsGlobalLoad(core.ResultValue(ret, 0), "internal/cluster/routingtable", "ErrClusterQuorum") {
			good = false
			r.Bad("mcq-boundary", name+" return on members<quorum", site(r, instrPos(ret)), "does not yield ErrClusterQuorum")
		}
	}
	for _, ret := range core.ReturnsFrom(ib.Succs[taken[1]], ib) {
		if core.ErrState(core.ResultValue(ret, 0), ret.Block(), pt) != core.IsNil {
			good = false
			r.Bad("mcq-boundary", name+" return on members>=quorum", site(r, instrPos(ret)), "may yield an error although the quorum is met")
		}
	}
	for _, ret := range core.Returns(f) {
		if !ib.Dominates(ret.Block()) {
			good = false
			r.Bad("mcq-boundary", name+" return bypassing the comparison", site(r, instrPos(ret)), "a return is not dominated by the member-count comparison")
		}
	}
	if good {
		r.OK("mcq-boundary", name, where, "truth table over NumMembers{<,==,>}MemberCountQuorum: {ErrClusterQuorum, nil, nil}")
	}
}

// underNilErrOf reports whether block b is only reached with a nil error from a call
// to one of the named functions.
func underNilErrOf(p *core.Prog, b *ssa.BasicBlock, names ...string) bool {
	return underNilErrOfDepth(p, b, 0, names...)
}

// underNilErrOfDepth: block b is reached only when a call of one of the named functions
// returned a nil error - tested in b's own function or (one level) inside a same-package
// helper whose nil error dominates b and whose own success-capable returns all lie
// under the nil error of the named call ("validating helper").
func underNilErrOfDepth(p *core.Prog, b *ssa.BasicBlock, depth int, names ...string) bool {
	pred := core.Named(names...)
	pt := passThrough(p)
	for _, c := range core.Conditions(b) {
		v, nonNil, ok := isErrNilTest(c)
		if !ok || nonNil {
			continue
		}
		for _, call := range errSources(p, v) {
			o := core.CalleeObj(call)
			if o == nil {
				continue
			}
			if pred(o) {
				return true
			}
			if depth > 0 {
				continue
			}
			h := p.ByObj[o]
			if h == nil || h.SSA == nil || h.SSA == b.Parent() || b.Parent().Pkg == nil || h.Pkg.PkgPath != b.Parent().Pkg.Pkg.Path() || core.ErrIndex(h.SSA) < 0 {
				continue
			}
			all, any := true, false
			for _, ret := range core.Returns(h.SSA) {
				if !core.SuccessCapable(ret, pt) {
					continue
				}
				any = true
				if !underNilErrOfDepth(p, ret.Block(), 1, names...) {
					all = false
				}
			}
			if any && all {
				return true
			}
		}
	}
	return false
}

func c05Wiring(r *core.Run) {
	p := r.P
	const (
		muxHandle   = "internal/server.(*ServeMux).Handle"
		muxHF       = "internal/server.(*ServeMux).HandleFunc"
		wrapHF      = "internal/server.(*ServeMuxWrapper).HandleFunc"
		serveRESP   = "internal/server.(Handler).ServeRESP"
		checkMCQ    = "internal/cluster/routingtable.(*RoutingTable).CheckMemberCountQuorum"
		isOperable  = "olric.(*Olric).isOperable"
		precondFunc = "olric.(*Olric).preconditionFunc"
		newDMap     = "internal/dmap.(*Service).NewDMap"
		olricNew    = "olric.New"
		setPrecond  = "internal/server.(*Server).SetPreConditionFunc"
	)
	// (a) who may register a raw handler
	if h := r.Need("precondition-wiring", muxHandle); h != nil {
		n := counter{}
		for _, cs := range p.CallersOf(h.Obj) {
			r.CallSites++
			key := n.next("caller of ServeMux.Handle: " + cs.Caller.Name)
			switch cs.Caller.Name {
			case wrapHF:
				// the wrapper must pass a Handler literal carrying precond
				okLit := false
				if len(cs.Call.Args) == 2 {
					arg := core.Unparen(cs.Call.Args[1])
					// the literal may be bound to a local first: wrapped := Handler{...}
					if id, isID := arg.(*ast.Ident); isID && cs.Caller.Decl != nil {
						obj := cs.Caller.Pkg.TypesInfo.Uses[id]
						ast.Inspect(cs.Caller.Decl.Body, func(nd ast.Node) bool {
							as, ok := nd.(*ast.AssignStmt)
							if !ok || len(as.Lhs) != 1 || len(as.Rhs) != 1 {
								return true
							}
							if l, ok := as.Lhs[0].(*ast.Ident); ok && obj != nil && (cs.Caller.Pkg.TypesInfo.Defs[l] == obj) {
								arg = core.Unparen(as.Rhs[0])
							}
							return true
						})
					}
					if cl, ok := arg.(*ast.CompositeLit); ok {
						for _, el := range cl.Elts {
							if kv, ok := el.(*ast.KeyValueExpr); ok {
								if id, ok := kv.Key.(*ast.Ident); ok && id.Name == "precond" {
									if fld := core.SelectorField(cs.Caller.Pkg, kv.Value); fld != nil && fld.Name() == "precond" {
										okLit = true
									}
								}
							}
						}
					}
				}
				r.Check(okLit, "precondition-wiring", key, p.Pos(cs.Call.Pos()),
					"the wrapper registers Handler{handler, precond: m.precond}", "the wrapper registers a handler without the wrapper's precondition")
			case muxHF:
				// raw registration helper: must itself have no non-test callers
				hf := p.Fn(muxHF)
				cnt := 0
				if hf != nil {
					cnt = len(p.CallersOf(hf.Obj))
				}
				r.Check(cnt == 0, "precondition-wiring", key, p.Pos(cs.Call.Pos()),
					"(*ServeMux).HandleFunc has no callers in non-test code", fmt.Sprintf("(*ServeMux).HandleFunc registers handlers without the precondition and has %d callers", cnt))
			default:
				r.Bad("precondition-wiring", key, p.Pos(cs.Call.Pos()), "a handler is registered on the raw mux, bypassing the member-count precondition")
			}
		}
	}
	if hf := r.Need("precondition-wiring", muxHF); hf != nil {
		cnt := len(p.CallersOf(hf.Obj))
		r.Check(cnt == 0, "precondition-wiring", "callers of ServeMux.HandleFunc", site(r, hf.SSA.Pos()),
			"(*ServeMux).HandleFunc has no callers in non-test code", fmt.Sprintf("(*ServeMux).HandleFunc registers handlers without the precondition and has %d callers", cnt))
	}
	// direct writes to the handler table
	for _, fn := range p.FuncList {
		if core.RelPkg(fn.Pkg.PkgPath) != "internal/server" || fn.SSA == nil {
			continue
		}
		for _, sf := range core.AllSSA(fn.SSA) {
			core.Instrs(sf, func(in ssa.Instruction) {
				if mu, ok := in.(*ssa.MapUpdate); ok {
					if core.LastField(mu.Map) == "handlers" {
						// Handle and HandleFunc are the mux's two raw registration entry points (who
						// may call them is judged above and below)
						r.Check(fn.Name == muxHandle || fn.Name == muxHF, "precondition-wiring", "write to ServeMux.handlers in "+fn.Name, site(r, instrPos(mu)),
							"only (*ServeMux).Handle / HandleFunc write the handler table", "the handler table is written outside (*ServeMux).Handle and HandleFunc")
					}
				}
			})
		}
	}

	// (b) the wrapper calls the handler only on allowed edges
	if h := r.Need("precondition-wiring", serveRESP); h != nil {
		n := counter{}
		calls := 0
		precondGuarded := 0
		core.Instrs(h.SSA, func(in ssa.Instruction) {
			c, ok := in.(ssa.CallInstruction)
			if !ok || c.Common().IsInvoke() || c.Common().StaticCallee() != nil {
				return
			}
			if core.LastField(c.Common().Value) != "handler" {
				return
			}
			calls++
			key := n.next(serveRESP + " call of h.handler")
			classify := func(conds []core.Cond) (string, bool) {
				for _, cd := range conds {
					switch v := cd.Val.(type) {
					case *ssa.Call:
						if cd.Truth && v.Call.StaticCallee() == nil && !v.Call.IsInvoke() && core.LastField(v.Call.Value) == "precond" {
							return "on the true edge of h.precond(conn, cmd)", true
						}
					case *ssa.BinOp:
						if v.Op == token.EQL && cd.Truth || v.Op == token.NEQ && !cd.Truth {
							x, y := v.X, v.Y
							if k, ok := y.(*ssa.Const); ok {
								if k.IsNil() && core.LastField(x) == "precond" {
									return "no precondition configured (h.precond == nil)", false
								} else if k.Value != nil && k.Value.String() == "0" && core.IsLenOf(func(ssa.Value) bool { return true })(x) {
									return "empty argument vector (handler only reports the malformed request)", false
								}
							}
							if isUpdateRoutingName(x) || isUpdateRoutingName(y) {
								return "the routing-table push (command == Internal.UpdateRouting) is the documented bypass", false
							}
						}
					}
				}
				return "", false
			}
			why, isPre := classify(core.Conditions(in.Block()))
			if isPre {
				precondGuarded++
			}
			if why == "" && len(in.Block().Preds) > 1 {
				// a || b || c: every way into the block must carry an allowed condition
				all := true
				var whys []string
				for _, pb := range in.Block().Preds {
					w, pre := classify(edgeConds(pb, in.Block()))
					if w == "" {
						all = false
					}
					if pre {
						precondGuarded++
					}
					whys = append(whys, w)
				}
				if all {
					why = "every edge into the call is allowed: " + strings.Join(whys, " | ")
				}
			}
			r.Check(why != "", "precondition-wiring", key, site(r, instrPos(in)), why,
				"the handler is invoked on an edge that is neither the precondition's true edge nor one of the three documented bypasses")
		})
		r.Floor("precondition-wiring(handler calls)", calls, 1)
		r.Check(precondGuarded >= 1, "precondition-wiring", serveRESP+" precond-edge", site(r, h.SSA.Pos()),
			"a handler call sits on the true edge of the precondition", "no handler call is guarded by the precondition at all")
	}

	// (c) installation order in olric.New
	if h := r.Need("precondition-wiring", olricNew); h != nil {
		sets := core.CallsTo(h.SSA, false, core.Named(setPrecond))
		if len(sets) != 1 {
			r.Bad("precondition-wiring", olricNew+" SetPreConditionFunc", site(r, h.SSA.Pos()), fmt.Sprintf("expected exactly one call of SetPreConditionFunc in olric.New, found %d", len(sets)))
		} else {
			// the argument is the bound method preconditionFunc
			o, _ := core.FuncValueObj(sets[0].Common().Args[len(sets[0].Common().Args)-1])
			r.Check(o != nil && core.QualName(o) == precondFunc, "precondition-wiring", olricNew+" precondition function", site(r, instrPos(sets[0])),
				"SetPreConditionFunc(db.preconditionFunc)", "the installed precondition is not (*Olric).preconditionFunc")
			// every call that (transitively) registers handlers comes after it
			regs := registrars(p)
			n := counter{}
			cnt := 0
			core.Instrs(h.SSA, func(in ssa.Instruction) {
				c, ok := in.(ssa.CallInstruction)
				if !ok {
					return
				}
				o := core.CalleeObj(c)
				if o == nil || !regs[o] {
					return
				}
				cnt++
				key := n.next(olricNew + " -> " + core.QualName(o))
				r.Check(core.Dominates(sets[0], in), "precondition-wiring", key, site(r, instrPos(in)),
					"handler registration happens after SetPreConditionFunc", "handlers are registered before the precondition is installed; the wrapper captures precond at registration time, so these handlers would never check the member-count quorum")
			})
			r.Floor("precondition-wiring(registrations in New)", cnt, 2)
		}
	}
	// SetPreConditionFunc actually stores its argument
	if h := r.Need("precondition-wiring", setPrecond); h != nil {
		stored := false
		core.Instrs(h.SSA, func(in ssa.Instruction) {
			if st, ok := in.(*ssa.Store); ok && core.LastField(st.Addr) == "precond" {
				if _, ok := st.Val.(*ssa.Parameter); ok {
					stored = true
				}
			}
		})
		r.Check(stored, "precondition-wiring", setPrecond+" stores f", site(r, h.SSA.Pos()), "wmux.precond = f", "SetPreConditionFunc does not store the function into the wrapper")
	}

	// (c') precondition -> isOperable -> CheckMemberCountQuorum
	if h := r.Need("precondition-wiring", isOperable); h != nil {
		pt := passThrough(p)
		n := counter{}
		for _, ret := range core.Returns(h.SSA) {
			if !core.SuccessCapable(ret, pt) {
				continue
			}
			key := n.next(isOperable + " success-capable return")
			r.Check(underNilErrOf(p, ret.Block(), checkMCQ), "precondition-wiring", key, site(r, instrPos(ret)),
				"reached only with a nil CheckMemberCountQuorum", "isOperable can succeed without a passed member-count check")
		}
		// and the error it returns for a failed check is the cluster-quorum error (converted)
	}
	if h := r.Need("precondition-wiring", precondFunc); h != nil {
		n := counter{}
		for _, ret := range core.Returns(h.SSA) {
			v := core.ResultValue(ret, 0)
			k, isConst := v.(*ssa.Const)
			if isConst && k.Value != nil && k.Value.String() == "false" {
				continue
			}
			key := n.next(precondFunc + " may-return-true")
			r.Check(underNilErrOf(p, ret.Block(), isOperable), "precondition-wiring", key, site(r, instrPos(ret)),
				"true only after isOperable() == nil", "the precondition can return true without a nil isOperable()")
		}
	}
	// (d) NewDMap
	if h := r.Need("precondition-wiring", newDMap); h != nil {
		pt := passThrough(p)
		n := counter{}
		cnt := 0
		for _, ret := range core.Returns(h.SSA) {
			if !core.SuccessCapable(ret, pt) {
				continue
			}
			cnt++
			key := n.next(newDMap + " success-capable return")
			r.Check(underNilErrOf(p, ret.Block(), checkMCQ), "precondition-wiring", key, site(r, instrPos(ret)),
				"reached only with a nil CheckMemberCountQuorum", "a DMap can be opened without a passed member-count check")
		}
		core.Instrs(h.SSA, func(in ssa.Instruction) {
			if mu, ok := in.(*ssa.MapUpdate); ok && core.LastField(mu.Map) == "dmaps" {
				cnt++
				r.Check(underNilErrOf(p, in.Block(), checkMCQ), "precondition-wiring", newDMap+" dmaps insert", site(r, instrPos(in)),
					"the DMap is recorded only after the member-count check passed", "the DMap table is modified although the member-count check may have failed (must apply nothing)")
			}
		})
		r.Floor("precondition-wiring(NewDMap)", cnt, 2)
	}
}

func isUpdateRoutingName(v ssa.Value) bool {
	// protocol.Internal.UpdateRouting: a load of field UpdateRouting of the Internal struct
	return core.LastField(v) == "UpdateRouting"
}

// registrars returns the set of repository functions that (transitively, over static
// calls) reach (*ServeMuxWrapper).HandleFunc.
func registrars(p *core.Prog) map[*types.Func]bool {
	target := p.Fn("internal/server.(*ServeMuxWrapper).HandleFunc")
	out := map[*types.Func]bool{}
	if target == nil {
		return out
	}
	work := []*types.Func{target.Obj}
	for len(work) > 0 {
		f := work[0]
		work = work[1:]
		for _, cs := range p.CallersOf(f) {
			o := cs.Caller.Obj
			if !out[o] {
				out[o] = true
				work = append(work, o)
			}
		}
	}
	return out
}

func c05ErrorRegistry(r *core.Run) {
	p := r.P
	want := map[string]string{
		"ErrWriteQuorum":   "internal/dmap",
		"ErrReadQuorum":    "internal/dmap",
		"ErrClusterQuorum": "internal/cluster/routingtable",
	}
	found := map[string]bool{}
	setErr := p.Fn("internal/protocol.SetError")
	if setErr == nil {
		r.Unknown("error-identity", "internal/protocol.SetError", "-", "anchor not found")
		return
	}
	for _, cs := range p.CallersOf(setErr.Obj) {
		if len(cs.Call.Args) != 2 {
			continue
		}
		if id, ok := core.Unparen(cs.Call.Args[1]).(*ast.Ident); ok {
			if v, ok := cs.Caller.Pkg.TypesInfo.Uses[id].(*types.Var); ok && v.Pkg() != nil {
				if want[v.Name()] == core.RelPkg(v.Pkg().Path()) {
					found[v.Name()] = true
				}
			}
		}
	}
	for name, pkg := range want {
		r.Check(found[name], "error-identity", pkg+"."+name+" registered", "-",
			"registered with protocol.SetError, so it crosses the wire with its own prefix", "not registered with protocol.SetError: remote callers would receive a generic error instead of the quorum error")
	}
}
