package rules

import (
	"fmt"
	"go/types"

	"golang.org/x/tools/go/ssa"

	"olricvet/internal/core"
)

// c16RoutingPayload (D26): a routing table pushed over the wire is applied only after
// every route was checked to have at least one primary owner — Partition.Owner() panics
// on an empty owners list, in the handler itself (setOwnedPartitionCount) and in every
// later key operation.
func c16RoutingPayload(r *core.Run) {
	name := "internal/cluster/routingtable.(*RoutingTable).verifyRoutingTable"
	fn := r.Need("routing-payload-validated", name)
	if fn == nil {
		return
	}
	f := fn.SSA
	ok := false
	core.Instrs(f, func(in ssa.Instruction) {
		bin, isBin := in.(*ssa.BinOp)
		if !isBin || !core.IsCompare(bin.Op) {
			return
		}
		l := lenArg(bin.X)
		k, isK := bin.Y.(*ssa.Const)
		if l == nil || !isK || k.Value == nil || k.Int64() != 0 || core.LastField(l) != "Owners" {
			return
		}
		// the comparison's outcome when the list is empty (len == 0)
		if valueOnlyFails(r.P, bin, core.CmpHolds(bin.Op, 0)) {
			ok = true
		}
	})
	r.Check(ok, "routing-payload-validated", name+" routes have an owner", site(r, f.Pos()),
		"a pushed table with an owner-less route is rejected with an error",
		"a pushed routing table whose route has an empty Owners list passes validation: applying it makes Partition.Owner() panic inside the handler goroutine (redcon has no recover), i.e. one crafted internal.node.updaterouting request terminates the member")
	// and the handler applies the table only after verification (C13.verify-before-apply is the same fact)
	if h := r.Need("routing-payload-validated", "internal/cluster/routingtable.(*RoutingTable).updateRoutingCommandHandler"); h != nil {
		for _, c := range findInstrs(h.SSA, false, callTo("internal/cluster/partitions.(*Partition).SetOwners")) {
			r.Check(underNilErrOf(r.P, c.Block(), name), "routing-payload-validated", h.Name+" SetOwners after verification", site(r, instrPos(c)),
				"owners are replaced only after verifyRoutingTable returned nil", "owners are replaced without a successful verification of the pushed table")
		}
	}
}

// c16AllocSizes (seed C16/m1): a slice allocation whose length or capacity is taken from
// a request value must be bounded; lengths of existing data (len(...), Len()) and
// constants are fine.
func c16AllocSizes(r *core.Run) {
	p := r.P
	var roots []*core.Fn
	for _, h := range handlers(p) {
		roots = append(roots, h.Handler)
	}
	reach := reachable(p, roots)
	cnt := 0
	for _, fn := range p.FuncList {
		if fn.SSA == nil || skipPkg(fn) || !reach[fn] {
			continue
		}
		rel := core.RelPkg(fn.Pkg.PkgPath)
		if rel == kvPkg || rel == tablePkg {
			continue // sizes there are entry sizes already bounded by the table-size checks (C17)
		}
		n := counter{}
		for _, sf := range core.AllSSA(fn.SSA) {
			core.Instrs(sf, func(in ssa.Instruction) {
				ms, ok := in.(*ssa.MakeSlice)
				if !ok {
					return
				}
				for _, sz := range []ssa.Value{ms.Len, ms.Cap} {
					if sz == nil {
						continue
					}
					if _, isK := sz.(*ssa.Const); isK {
						continue
					}
					cnt++
					why, ok := sizeIsDataDerived(sz, 0)
					key := n.next(fn.Name + " make([]T, n)")
					if !ok {
						// bounded by a dominating comparison with a constant upper bound?
						if boundedAbove(sz, in.Block()) {
							ok, why = true, "dominated by an upper-bound comparison"
						}
					}
					r.Check(ok, "alloc-size-bounded", key, site(r, instrPos(in)), why,
						"a slice is allocated with a length/capacity taken from "+why+" without an upper bound: a negative or huge request value (e.g. DM.SCAN COUNT) makes make() panic with 'cap out of range' in the connection goroutine and terminates the member")
				}
			})
		}
	}
	r.Floor("alloc-size-bounded", cnt, 3)
}

func sizeIsDataDerived(v ssa.Value, depth int) (string, bool) {
	if depth > 6 {
		return "a deep expression", false
	}
	v = core.StripConv(v)
	switch x := v.(type) {
	case *ssa.Const:
		return "a constant", true
	case *ssa.Call:
		if b, ok := x.Call.Value.(*ssa.Builtin); ok && (b.Name() == "len" || b.Name() == "cap" || b.Name() == "copy") {
			return "the length of existing data", true
		}
		switch methodName(x) {
		case "Len", "Length", "NumMembers", "Size":
			return "the length of existing data", true
		}
		return "the result of " + calleeName(x), false
	case *ssa.BinOp:
		w1, ok1 := sizeIsDataDerived(x.X, depth+1)
		w2, ok2 := sizeIsDataDerived(x.Y, depth+1)
		if ok1 && ok2 {
			return "lengths of existing data", true
		}
		if !ok1 {
			return w1, false
		}
		return w2, false
	case *ssa.Phi:
		for _, e := range x.Edges {
			if w, ok := sizeIsDataDerived(e, depth+1); !ok {
				return w, false
			}
		}
		return "lengths of existing data", true
	case *ssa.UnOp:
		if f := core.LastField(x); f != "" {
			return "the field " + f, false
		}
	case *ssa.Parameter:
		return "the parameter " + x.Name(), false
	case *ssa.Extract:
		return sizeIsDataDerived(x.Tuple, depth+1)
	}
	return fmt.Sprintf("a %T value", v), false
}

func boundedAbove(v ssa.Value, b *ssa.BasicBlock) bool {
	key := idKey(v)
	lower, upper := false, false
	for _, c := range core.Conditions(b) {
		bin, ok := c.Val.(*ssa.BinOp)
		if !ok || !core.IsCompare(bin.Op) {
			continue
		}
		op := bin.Op
		var other ssa.Value
		if idKey(bin.X) == key {
			other = bin.Y
		} else if idKey(bin.Y) == key {
			other = bin.X
			op = flip(op)
		} else {
			continue
		}
		if _, isK := other.(*ssa.Const); !isK {
			continue
		}
		// v op K with truth
		for _, o := range []int{1} {
			if core.CmpHolds(op, o) != c.Truth {
				upper = true // "v > K" excluded on this edge
			}
		}
		for _, o := range []int{-1} {
			if core.CmpHolds(op, o) != c.Truth {
				lower = true
			}
		}
	}
	return upper && lower
}

// c16SubscriberLoop (seed C16/m2): the detached subscriber loop leaves when reading a
// command fails — redcon does not consume the offending bytes, so retrying spins forever.
func c16SubscriberLoop(r *core.Run) {
	name := "internal/pubsub.(*pubSubConn).bgrunner"
	fn := r.Need("subscriber-loop-exits-on-read-error", name)
	if fn == nil {
		return
	}
	f := fn.SSA
	reads := findInstrs(f, false, callNamed("ReadCommand"))
	r.Floor("subscriber-loop-exits-on-read-error", len(reads), 1)
	for _, rd := range reads {
		call := rd.(*ssa.Call)
		var errv ssa.Value
		for _, ref := range *call.Referrers() {
			if ex, ok := ref.(*ssa.Extract); ok && types.Identical(ex.Type(), errType) {
				errv = ex
			}
		}
		ok := false
		if errv != nil {
			for _, b := range f.Blocks {
				if len(b.Instrs) == 0 {
					continue
				}
				ifi, isIf := b.Instrs[len(b.Instrs)-1].(*ssa.If)
				if !isIf {
					continue
				}
				cv, neg := core.StripNot(ifi.Cond)
				v, nonNilTrue, isTest := isErrNilTest(core.Cond{If: ifi, Val: cv, Truth: true})
				if !isTest || v != errv {
					continue
				}
				if neg {
					nonNilTrue = !nonNilTrue
				}
				idx := 0
				if !nonNilTrue {
					idx = 1
				}
				// the failure edge must not lead back to the read
				ok = !reachesInstr(b.Succs[idx], func(in ssa.Instruction) bool { return in == rd }, nil)
			}
		}
		r.Check(ok, "subscriber-loop-exits-on-read-error", name+" ReadCommand error", site(r, instrPos(rd)),
			"a failed ReadCommand ends the subscriber loop", "after a failed ReadCommand the loop can read again: redcon leaves the malformed bytes in its buffer, so the handler of that connection spins forever (and floods the client with error replies) and the subscriptions are never cleaned up")
	}
}
