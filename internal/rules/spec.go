package rules

import (
	"go/types"

	"golang.org/x/tools/go/ssa"

	"olricvet/internal/core"
)

// Small vocabulary for path rules; each helper records obligations on the run.

type instrPred func(ssa.Instruction) bool

// callTo matches call instructions whose resolved callee has one of the qualified names.
func callTo(names ...string) instrPred {
	pred := core.Named(names...)
	return func(in ssa.Instruction) bool {
		c, ok := in.(ssa.CallInstruction)
		if !ok {
			return false
		}
		o := core.CalleeObj(c)
		return o != nil && pred(o)
	}
}

// callNamed matches calls by bare method/function name (for interface methods of
// third-party types, e.g. redis Cmder.Err).
func callNamed(name string) instrPred {
	return func(in ssa.Instruction) bool {
		c, ok := in.(ssa.CallInstruction)
		if !ok {
			return false
		}
		return methodName(c) == name
	}
}

func engineCall(method string) instrPred {
	return func(in ssa.Instruction) bool {
		c, ok := in.(ssa.CallInstruction)
		if !ok {
			return false
		}
		m, _, _, ok := storageAccess(c)
		return ok && m == "storage."+method
	}
}

func findInstrs(f *ssa.Function, deep bool, pred instrPred) []ssa.Instruction {
	var out []ssa.Instruction
	fns := []*ssa.Function{f}
	if deep {
		fns = core.AllSSA(f)
	}
	for _, g := range fns {
		core.Instrs(g, func(in ssa.Instruction) {
			if pred(in) {
				out = append(out, in)
			}
		})
	}
	return out
}

// successBefore checks that every success-capable return of fn is preceded on every path
// by an instruction matching ev. One obligation per success-capable return.
func successBefore(r *core.Run, rule string, fn *core.Fn, ev instrPred, evName, whyBad string) {
	f := fn.SSA
	pt := passThrough(r.P)
	n := counter{}
	cnt := 0
	for _, ret := range core.Returns(f) {
		if !core.SuccessCapable(ret, pt) {
			continue
		}
		cnt++
		key := n.next(fn.Name + " success-capable return after " + evName)
		reached := core.ReachesReturnAvoiding(f, ev, func(x *ssa.Return) bool { return x == ret })
		r.Check(reached == nil, rule, key, site(r, instrPos(ret)), "every path to this return passes "+evName, whyBad)
	}
	if cnt == 0 {
		r.Unknown(rule, fn.Name, site(r, f.Pos()), "no success-capable return found")
	}
}

// dominatedBy checks that every instruction matching target is dominated by one matching ev.
func dominatedBy(r *core.Run, rule string, fn *core.Fn, target instrPred, targetName string, ev instrPred, evName, whyBad string, floor int) {
	f := fn.SSA
	ts := findInstrs(f, false, target)
	es := findInstrs(f, false, ev)
	n := counter{}
	for _, t := range ts {
		key := n.next(fn.Name + " " + targetName)
		ok := false
		for _, e := range es {
			if core.Dominates(e, t) {
				ok = true
			}
		}
		r.Check(ok, rule, key, site(r, instrPos(t)), "dominated by "+evName, whyBad)
	}
	if len(ts) < floor {
		r.Unknown(rule, fn.Name+" "+targetName, site(r, f.Pos()), "expected construct not found")
	}
}

// errorEdgesLeaveBefore: for every call matching attempt in fn, the edge on which its
// error (possibly merged/converted) is non-nil cannot reach an instruction matching
// commit — the function leaves first. Used for "drop only after every target
// acknowledged", "local delete only after the backups were deleted".
func errorEdgesLeaveBefore(r *core.Run, rule string, fn *core.Fn, attempt instrPred, attemptName string, commit instrPred, commitName, whyBad string) int {
	f := fn.SSA
	p := r.P
	atts := findInstrs(f, true, attempt)
	// a same-package helper that performs the attempt and hands its failure back counts as
	// the attempt at its call site ("extract method" tolerance, one level)
	for _, g := range core.AllSSA(f) {
		core.Instrs(g, func(in ssa.Instruction) {
			c, ok := in.(*ssa.Call)
			if !ok || attempt(in) {
				return
			}
			h := p.ByObj[core.CalleeObj(c)]
			if h == nil || h.SSA == nil || h.SSA == f || f.Pkg == nil || h.Pkg.PkgPath != f.Pkg.Pkg.Path() || core.ErrIndex(h.SSA) < 0 {
				return
			}
			if propagatesFailure(p, h.SSA, attempt) {
				atts = append(atts, in)
			}
		})
	}
	n := counter{}
	cnt := 0
	for _, a := range atts {
		af := a.Parent()
		call, ok := a.(*ssa.Call)
		if !ok {
			continue
		}
		cnt++
		key := n.next(fn.Name + " error of " + attemptName)
		// the error value of the attempt: the call itself (error result) or its extract
		var errVals []ssa.Value
		if types.Identical(call.Type(), errType) {
			errVals = append(errVals, call)
		}
		for _, ref := range *call.Referrers() {
			if ex, ok := ref.(*ssa.Extract); ok && types.Identical(ex.Type(), errType) {
				errVals = append(errVals, ex)
			}
		}
		if len(errVals) == 0 {
			r.Bad(rule, key, site(r, instrPos(a)), "the error of "+attemptName+" is discarded, so a failure cannot stop "+commitName+": "+whyBad)
			continue
		}
		// Find Ifs testing (a value derived from) the error; the non-nil edge must not reach commit.
		tested := false
		bad := false
		for _, b := range af.Blocks {
			if len(b.Instrs) == 0 {
				continue
			}
			ifi, ok := b.Instrs[len(b.Instrs)-1].(*ssa.If)
			if !ok {
				continue
			}
			cv, neg := core.StripNot(ifi.Cond)
			v, nonNilWhenTrue, ok := isErrNilTest(core.Cond{If: ifi, Val: cv, Truth: true})
			if !ok {
				continue
			}
			if neg {
				nonNilWhenTrue = !nonNilWhenTrue
			}
			derives := false
			for _, src := range errSources(p, v) {
				if src == call {
					derives = true
				}
			}
			for _, ev := range errVals {
				if v == ev || phiContains(v, ev, map[ssa.Value]bool{}) {
					derives = true
				}
			}
			if !derives {
				continue
			}
			tested = true
			failIdx := 0
			if !nonNilWhenTrue {
				failIdx = 1
			}
			if reachesInstr(b.Succs[failIdx], commit, b) {
				bad = true
			}
		}
		switch {
		case !tested:
			// the error may be returned directly: then the commit must not follow the call on any path
			if followedBy(a, commit) {
				r.Bad(rule, key, site(r, instrPos(a)), "the error of "+attemptName+" is never tested before "+commitName+": "+whyBad)
			} else {
				r.OK(rule, key, site(r, instrPos(a)), commitName+" cannot follow this call")
			}
		case bad:
			r.Bad(rule, key, site(r, instrPos(a)), "the failure edge of "+attemptName+" can still reach "+commitName+": "+whyBad)
		default:
			r.OK(rule, key, site(r, instrPos(a)), "the failure edge of "+attemptName+" leaves before "+commitName)
		}
	}
	return cnt
}

// reachesInstr: an instruction matching pred is reachable from block start (not passing barrier).
func reachesInstr(start *ssa.BasicBlock, pred instrPred, barrier *ssa.BasicBlock) bool {
	seen := map[*ssa.BasicBlock]bool{}
	var visit func(b *ssa.BasicBlock) bool
	visit = func(b *ssa.BasicBlock) bool {
		if seen[b] || b == barrier {
			return false
		}
		seen[b] = true
		for _, in := range b.Instrs {
			if pred(in) {
				return true
			}
		}
		for _, s := range b.Succs {
			if visit(s) {
				return true
			}
		}
		return false
	}
	return visit(start)
}

// followedBy: an instruction matching pred can execute after a in the same function.
func followedBy(a ssa.Instruction, pred instrPred) bool {
	b := a.Block()
	idx := core.InstrIndex(a)
	for _, in := range b.Instrs[idx+1:] {
		if pred(in) {
			return true
		}
	}
	for _, s := range b.Succs {
		if reachesInstr(s, pred, nil) {
			return true
		}
	}
	return false
}

// sameValueFlow reports whether value b is value a or a pure projection of it through
// loads of single-store cells (see canonVal).
func sameValueFlow(a, b ssa.Value) bool { return canonVal(a) == canonVal(b) }

// propagatesFailure: h performs at least one attempt (directly) and every return of h
// that can follow a failed attempt hands back a non-nil error: the return's error result
// is the attempt's own error value (possibly through a nil-preserving converter or a phi),
// is known to be non-nil, or the return is only reached on the nil edge of a test of the
// attempt's error.
func propagatesFailure(p *core.Prog, h *ssa.Function, attempt instrPred) bool {
	atts := findInstrs(h, false, attempt)
	if len(atts) == 0 {
		return false
	}
	pt := passThrough(p)
	ei := core.ErrIndex(h)
	for _, a := range atts {
		call, ok := a.(*ssa.Call)
		if !ok {
			return false
		}
		var errVals []ssa.Value
		if types.Identical(call.Type(), errType) {
			errVals = append(errVals, call)
		}
		for _, ref := range *call.Referrers() {
			if ex, ok := ref.(*ssa.Extract); ok && types.Identical(ex.Type(), errType) {
				errVals = append(errVals, ex)
			}
		}
		if len(errVals) == 0 {
			return false
		}
		for _, ret := range core.Returns(h) {
			if !reachesBlock(call.Block(), ret.Block()) {
				continue
			}
			rv := core.ResultValue(ret, ei)
			fine := core.ErrState(rv, ret.Block(), pt) == core.NonNil
			for _, src := range errSources(p, rv) {
				if src == call {
					fine = true
				}
			}
			for _, ev := range errVals {
				if rv == ev || phiContains(rv, ev, map[ssa.Value]bool{}) || nilErrAt(ret.Block(), ev) {
					fine = true
				}
			}
			if !fine {
				return false
			}
		}
	}
	return true
}
