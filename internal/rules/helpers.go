package rules

import (
	"golang.org/x/tools/go/ssa"

	"olricvet/internal/core"
)

// withHelpers evaluates match on f and, if it does not hold there, on every repository
// function of the same package that f calls directly ("extract method" tolerance, one
// level). In a helper, resolve maps the helper's parameters to the arguments of the call
// in f, so that value-identity conditions can still be expressed in terms of f's values.
func withHelpers(p *core.Prog, f *ssa.Function, match func(g *ssa.Function, resolve func(ssa.Value) ssa.Value) bool) bool {
	id := func(v ssa.Value) ssa.Value { return v }
	if match(f, id) {
		return true
	}
	found := false
	core.Instrs(f, func(in ssa.Instruction) {
		if found {
			return
		}
		c, ok := in.(ssa.CallInstruction)
		if !ok {
			return
		}
		if _, isGo := in.(*ssa.Go); isGo {
			return
		}
		o := core.CalleeObj(c)
		h := p.ByObj[o]
		if h == nil || h.SSA == nil || h.SSA == f || h.Pkg.PkgPath != f.Pkg.Pkg.Path() {
			return
		}
		args := c.Common().Args
		subst := map[ssa.Value]ssa.Value{}
		for i, pa := range h.SSA.Params {
			if i < len(args) {
				subst[pa] = args[i]
			}
		}
		resolve := func(v ssa.Value) ssa.Value {
			if a, ok := subst[v]; ok {
				return a
			}
			return v
		}
		if match(h.SSA, resolve) {
			found = true
		}
	})
	return found
}
