package rules

import (
	"golang.org/x/tools/go/ssa"

	"olricvet/internal/core"
)

// withHelpers evaluates match on f and, if it does not hold there, on every repository
// function of the same package that f calls directly ("extract method" tolerance, one
// level). In a helper, resolve maps the helper's parameters to the arguments of the call
// in f, so that value-identity conditions can still be expressed in terms of f's values.
func withHelpers(p *core.Prog, f *ssa.Function, match func(g *ssa.Function, resolve func(ssa.Value) ssa.Value) bool) bool {
	id := func(v ssa.Value) ssa.Value { return v }
	if match(f, id) {
		return true
	}
	found := false
	core.Instrs(f, func(in ssa.Instruction) {
		if found {
			return
		}
		c, ok := in.(ssa.CallInstruction)
		if !ok {
			return
		}
		if _, isGo := in.(*ssa.Go); isGo {
			return
		}
		o := core.CalleeObj(c)
		h := p.ByObj[o]
		if h == nil || h.SSA == nil || h.SSA == f || h.Pkg.PkgPath != f.Pkg.Pkg.Path() {
			return
		}
		args := c.Common().Args
		subst := map[ssa.Value]ssa.Value{}
		for i, pa := range h.SSA.Params {
			if i < len(args) {
				subst[pa] = args[i]
			}
		}
		resolve := func(v ssa.Value) ssa.Value {
			if a, ok := subst[v]; ok {
				return a
			}
			return v
		}
		if match(h.SSA, resolve) {
			found = true
		}
	})
	return found
}

// helperCond is a branch condition that holds inside a validating helper on every path
// to a return that can report success, together with the mapping of the helper's
// parameters to the arguments of the call under consideration.
type helperCond struct {
	Cond    core.Cond
	Helper  *ssa.Function
	Resolve func(ssa.Value) ssa.Value
}

// condsAt returns the conditions known at block b: the branch conditions dominating b in
// its own function plus, for every same-repository helper whose error result is known to
// be nil at b (b lies on the err == nil side of a test of that result), the conditions
// dominating every success-capable return of the helper ("validating helper" tolerance,
// one level). For the function's own conditions Helper is nil and Resolve the identity.
func condsAt(p *core.Prog, b *ssa.BasicBlock) []helperCond {
	id := func(v ssa.Value) ssa.Value { return v }
	var out []helperCond
	pt := passThrough(p)
	for _, cd := range core.Conditions(b) {
		out = append(out, helperCond{Cond: cd, Resolve: id})
		v, nonNil, ok := isErrNilTest(cd)
		if !ok || nonNil {
			continue
		}
		for _, call := range errOriginCalls(v, map[ssa.Value]bool{}) {
			h := p.ByObj[core.CalleeObj(call)]
			if h == nil || h.SSA == nil || h.SSA == b.Parent() || len(h.SSA.Blocks) == 0 {
				continue
			}
			args := call.Call.Args
			subst := map[ssa.Value]ssa.Value{}
			for i, pa := range h.SSA.Params {
				if i < len(args) {
					subst[pa] = args[i]
				}
			}
			resolve := func(v ssa.Value) ssa.Value {
				if a, ok := subst[v]; ok {
					return a
				}
				return v
			}
			// conditions common to all success-capable returns of the helper
			var common []core.Cond
			first := true
			for _, ret := range core.Returns(h.SSA) {
				if !core.SuccessCapable(ret, pt) {
					continue
				}
				cs := core.Conditions(ret.Block())
				if first {
					common, first = cs, false
					continue
				}
				var keep []core.Cond
				for _, c := range common {
					for _, d := range cs {
						if c.If == d.If && c.Truth == d.Truth {
							keep = append(keep, c)
						}
					}
				}
				common = keep
			}
			for _, c := range common {
				out = append(out, helperCond{Cond: c, Helper: h.SSA, Resolve: resolve})
			}
		}
	}
	return out
}

// errOriginCalls: the calls whose error result v is (v itself, a tuple component, or every
// edge of a phi — a phi with another origin yields nothing, the nil test then says nothing
// about the helper).
func errOriginCalls(v ssa.Value, seen map[ssa.Value]bool) []*ssa.Call {
	if seen[v] {
		return nil
	}
	seen[v] = true
	switch x := v.(type) {
	case *ssa.Call:
		return []*ssa.Call{x}
	case *ssa.Extract:
		if c, ok := x.Tuple.(*ssa.Call); ok {
			return []*ssa.Call{c}
		}
	}
	return nil
}

// findEventsVia lists the instructions of f matching pred plus the calls in f of
// same-package repository functions whose own body contains a match (the event then
// happens at the call site, "extract method" tolerance, one level).
func findEventsVia(p *core.Prog, f *ssa.Function, pred instrPred) []ssa.Instruction {
	out := findInstrs(f, false, pred)
	core.Instrs(f, func(in ssa.Instruction) {
		c, ok := in.(ssa.CallInstruction)
		if !ok || pred(in) {
			return
		}
		if _, isGo := in.(*ssa.Go); isGo {
			return
		}
		if _, isDefer := in.(*ssa.Defer); isDefer {
			return
		}
		h := p.ByObj[core.CalleeObj(c)]
		if h == nil || h.SSA == nil || h.SSA == f || f.Pkg == nil || h.Pkg.PkgPath != f.Pkg.Pkg.Path() {
			return
		}
		if len(findInstrs(h.SSA, false, pred)) > 0 {
			out = append(out, in)
		}
	})
	return out
}

// viaHelpers lifts an instruction predicate to call sites: the result matches what pred
// matches and, in addition, the (non-go, non-defer) calls in caller of same-package
// repository functions whose own body contains a match.
func viaHelpers(p *core.Prog, caller *ssa.Function, pred instrPred) instrPred {
	memo := map[*ssa.Function]bool{}
	return func(in ssa.Instruction) bool {
		if pred(in) {
			return true
		}
		c, ok := in.(*ssa.Call)
		if !ok {
			return false
		}
		h := p.ByObj[core.CalleeObj(c)]
		if h == nil || h.SSA == nil || h.SSA == caller || caller.Pkg == nil || h.Pkg.PkgPath != caller.Pkg.Pkg.Path() {
			return false
		}
		v, known := memo[h.SSA]
		if !known {
			v = len(findInstrs(h.SSA, false, pred)) > 0
			memo[h.SSA] = v
		}
		return v
	}
}

// deferredBodies returns the functions whose bodies run when f returns: the closures f
// defers and the same-repository functions it defers by name (`defer x.cleanup(...)`).
func deferredBodies(p *core.Prog, f *ssa.Function) []*ssa.Function {
	var out []*ssa.Function
	for _, an := range f.AnonFuncs {
		if _, mode := closureUse(an); mode == "defer" {
			out = append(out, an)
		}
	}
	core.Instrs(f, func(in ssa.Instruction) {
		d, ok := in.(*ssa.Defer)
		if !ok {
			return
		}
		if h := p.ByObj[core.CalleeObj(d)]; h != nil && h.SSA != nil {
			out = append(out, h.SSA)
		}
	})
	return out
}
