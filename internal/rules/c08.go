package rules

import (
	"go/token"

	"golang.org/x/tools/go/ssa"

	"olricvet/internal/core"
)

const (
	fnDMapLock  = dmapPkg + ".(*DMap).Lock"
	fnTryLock   = dmapPkg + ".(*DMap).tryLock"
	fnUnlockKey = dmapPkg + ".(*DMap).unlockKey"
	fnLeaseKey  = dmapPkg + ".(*DMap).leaseKey"
)

func init() {
	register(&Property{
		ID: "C08",
		Explain: "Static structural necessary conditions of the distributed lock (timing — 'no earlier than', 'shortly after' — is NOT decided; mutual exclusion itself rests on C01.check-then-act, which is re-checked here): " +
			"(acquire-is-nx) DMap.Lock builds a put-if-absent request (HasNX) that carries the timeout as an expiry option (HasPX and PX = timeout exactly when timeout != 0) before tryLock; " +
			"(options-survive-forwarding) every stage that translates put options keeps the expiry options and the NX/XX conditions in separate decisions, and a request's timeout field is only used with the ttl-only mode (the only one forwarded with it); " +
			"(token-guards-release) unlockKey deletes and leaseKey re-arms the expiry only on the equal edge of bytes.Equal(stored value, token), leaseKey additionally only when the stored expiry has not passed (expired iff now >= ttl), both inside the per-key lock section and only on the partition owner; " +
			"(deadline) ErrLockNotAcquired is returned only from the Done() case of a context created by WithTimeout(ctx, deadline); " +
			"(check-then-act, lock-pairing) shared with C01: the NX condition and the write happen in one fragment write-lock region.",
		Run: func(r *core.Run) {
			c08AcquireIsNX(r)
			optionGroups(r)
			optionsCompose(r)
			unitAgreement(r)
			timeoutNeedsTTLMode(r)
			c08TokenGuards(r)
			c08Deadline(r)
			customConfigOverrides(r)
			c09SubMillisecondKept(r)
			c13TimerRearmed(r)
			singleLockRegion(r)
			lockPairing(r)
			c07LockSections(r)
			c09RelativeExpiryFromNow(r)
			kvLookupCoversAllTables(r)
			kvLookupVisitsEveryTable(r)
		},
	})
}

func c08AcquireIsNX(r *core.Run) {
	fn := r.Need("acquire-is-nx", fnDMapLock)
	if fn == nil {
		return
	}
	f := fn.SSA
	tries := findInstrs(f, false, callTo(fnTryLock))
	r.Floor("acquire-is-nx(tryLock)", len(tries), 1)
	if len(tries) == 0 {
		return
	}
	try := tries[0]
	var timeout ssa.Value
	for _, pa := range f.Params {
		if pa.Name() == "timeout" {
			timeout = pa
		}
	}
	nx, haspx, px := false, false, false
	var pxStore ssa.Instruction
	core.Instrs(f, func(in ssa.Instruction) {
		st, ok := in.(*ssa.Store)
		if !ok {
			return
		}
		switch core.LastField(st.Addr) {
		case "HasNX":
			if k, isK := st.Val.(*ssa.Const); isK && k.Value != nil && k.Value.String() == "true" && core.Dominates(in, try) {
				nx = true
			}
		case "HasPX":
			if k, isK := st.Val.(*ssa.Const); isK && k.Value != nil && k.Value.String() == "true" {
				haspx = true
			}
		case "PX":
			// the timeout itself, or the timeout clamped from below by a positive constant
			v := st.Val
			if phi, isPhi := v.(*ssa.Phi); isPhi {
				fromParam := false
				for _, e := range phi.Edges {
					if e == timeout {
						fromParam = true
					} else if k, isK := e.(*ssa.Const); !isK || k.Value == nil || k.Int64() <= 0 {
						fromParam = false
						break
					}
				}
				if fromParam {
					v = timeout
				}
			}
			if v == timeout {
				px = true
				pxStore = in
			}
		}
	})
	r.Check(nx, "acquire-is-nx", fnDMapLock+" HasNX", site(r, f.Pos()), "HasNX = true dominates tryLock", "the lock request is not a put-if-absent: a second locker overwrites the holder's token")
	r.Check(haspx && px, "acquire-is-nx", fnDMapLock+" expiry option", site(r, f.Pos()),
		"the timeout travels as the PX option (HasPX, PX = timeout)", "the lock's timeout is not carried as an expiry option of the put (options are what forwarding transmits): a lock taken through a non-owner member never expires")
	if pxStore != nil {
		// set exactly when timeout != 0
		cond, truncated := false, false
		for _, cd := range core.Conditions(pxStore.Block()) {
			if bin, ok := cd.Val.(*ssa.BinOp); ok && cd.Truth && (bin.Op == token.NEQ || bin.Op == token.GTR) {
				if k, isK := bin.Y.(*ssa.Const); isK && k.Value != nil && k.Int64() == 0 {
					if core.StripConv(bin.X) == timeout {
						cond = true
					} else if c, isCall := bin.X.(*ssa.Call); isCall && len(c.Call.Args) > 0 && c.Call.Args[0] == timeout {
						truncated = true
					}
				}
			}
		}
		r.Check(cond || truncated, "acquire-is-nx", fnDMapLock+" expiry iff timeout", site(r, instrPos(pxStore)), "the expiry is set exactly when timeout != 0", "the expiry option is not conditional on timeout != 0 (a lock without timeout must be held until unlocked)")
		r.Check(!truncated, "acquire-is-nx", fnDMapLock+" positive timeout keeps its expiry", site(r, instrPos(pxStore)),
			"the decision is taken on the duration itself", "whether the lock gets an expiry is decided on a truncated reading of the timeout (whole milliseconds or seconds): a positive timeout below one unit counts as 'no timeout' and the lock never expires")
	}
	// the request's value is the token that is returned
	tokOK := false
	for _, ret := range core.Returns(f) {
		v := core.ResultValue(ret, 0)
		core.Instrs(f, func(in ssa.Instruction) {
			if st, ok := in.(*ssa.Store); ok && core.LastField(st.Addr) == "value" && st.Val == v {
				tokOK = true
			}
		})
	}
	r.Check(tokOK, "acquire-is-nx", fnDMapLock+" token is the stored value", site(r, f.Pos()), "the returned token is the value stored under the key", "the returned token is not the value stored under the key: Unlock with the returned token fails, or a forged token works")
	// tryLock: succeeds only on a nil put
	if t := r.Need("acquire-is-nx", fnTryLock); t != nil {
		pt := passThrough(r.P)
		n := counter{}
		for _, ret := range core.Returns(t.SSA) {
			if core.ErrState(core.ResultValue(ret, 0), ret.Block(), pt) == core.NonNil {
				continue
			}
			ok := underNilErrOf(r.P, ret.Block(), fnDMapPut)
			if !ok {
				// `return err` where err is put's own result: success exactly when put succeeded
				srcs := errSources(r.P, core.ResultValue(ret, 0))
				if len(srcs) > 0 {
					ok = true
					for _, c := range srcs {
						if o := core.CalleeObj(c); o == nil || core.QualName(o) != fnDMapPut {
							ok = false
						}
					}
				}
			}
			if !ok {
				// the success return after the retry loop: every path to it passes a nil put
				ok = true
				for _, pr := range ret.Block().Preds {
					if !underNilErrOf(r.P, pr, fnDMapPut) && !nilOnEdge(r.P, pr, ret.Block()) {
						ok = false
					}
				}
			}
			r.Check(ok, "acquire-is-nx", n.next(fnTryLock+" success return"), site(r, instrPos(ret)),
				"the lock is reported acquired only after put returned nil", "tryLock can report success without a successful put-if-absent")
		}
	}
}

// nilOnEdge: the edge from -> to is taken only when a put error tested in `from` is nil.
func nilOnEdge(p *core.Prog, from, to *ssa.BasicBlock) bool {
	if len(from.Instrs) == 0 {
		return false
	}
	ifi, ok := from.Instrs[len(from.Instrs)-1].(*ssa.If)
	if !ok {
		return false
	}
	cv, neg := core.StripNot(ifi.Cond)
	v, nonNilTrue, ok := isErrNilTest(core.Cond{If: ifi, Val: cv, Truth: true})
	if !ok {
		return false
	}
	if neg {
		nonNilTrue = !nonNilTrue
	}
	idx := 1
	if !nonNilTrue {
		idx = 0
	}
	if from.Succs[idx] != to {
		return false
	}
	for _, c := range errSources(p, v) {
		if o := core.CalleeObj(c); o != nil && core.QualName(o) == fnDMapPut {
			return true
		}
	}
	return false
}

func c08TokenGuards(r *core.Run) {
	p := r.P
	check := func(name string, action instrPred, actionName string, needNotExpired bool) {
		fn := r.Need("token-guards-release", name)
		if fn == nil {
			return
		}
		acts := findInstrs(fn.SSA, false, action)
		if len(acts) == 0 {
			r.Unknown("token-guards-release", name+" "+actionName, site(r, fn.SSA.Pos()), "action not found")
			return
		}
		for _, a := range acts {
			eq := false
			notExp := false
			for _, hc := range condsAt(p, a.Block()) {
				cd := hc.Cond
				if call, ok := cd.Val.(*ssa.Call); ok && cd.Truth {
					if o := core.CalleeObj(call); o != nil && core.QualName(o) == "bytes.Equal" {
						// one operand is the token parameter, the other the stored value
						hasTok, hasVal := false, false
						for _, arg := range call.Call.Args {
							if pa, isP := hc.Resolve(arg).(*ssa.Parameter); isP && pa.Name() == "token" && pa.Parent() == fn.SSA {
								hasTok = true
							}
							if c2, isC := arg.(*ssa.Call); isC && methodName(c2) == "Value" {
								hasVal = true
							}
						}
						if hasTok && hasVal {
							eq = true
						}
					}
				}
			}
			if needNotExpired {
				// not (ttl > 0 && now >= ttl): reached through the false edges
				notExp = expiryRejected(fn.SSA, a.Block())
			}
			r.Check(eq, "token-guards-release", name+" "+actionName+" behind the token", site(r, instrPos(a)),
				"reached only on the equal edge of bytes.Equal(stored value, token)", "the "+actionName+" is reachable without the stored value being equal to the presented token: a stale or forged token releases or extends someone else's lock")
			if needNotExpired {
				r.Check(notExp, "token-guards-release", name+" "+actionName+" only on a live lock", site(r, instrPos(a)),
					"an already expired lock is rejected (expired iff now >= ttl) before the expiry is re-armed", "a lock whose timeout has already elapsed can still be leased")
			}
		}
		_ = p
	}
	check(fnUnlockKey, callTo(dmapPkg+".(*DMap).deleteKeys", fnDeleteKey), "delete", false)
	check(fnLeaseKey, callTo(dmapPkg+".(*DMap).Expire"), "expiry update", true)
}

// expiryRejected: on every path to block b a comparison now >= ttl (with ttl > 0) led to
// the false side, i.e. the function returned on the expired edge.
func expiryRejected(f *ssa.Function, b *ssa.BasicBlock) bool {
	// find the If comparing a now-derived value with entry.TTL()
	for _, blk := range f.Blocks {
		if len(blk.Instrs) == 0 {
			continue
		}
		ifi, ok := blk.Instrs[len(blk.Instrs)-1].(*ssa.If)
		if !ok {
			continue
		}
		bin, ok := ifi.Cond.(*ssa.BinOp)
		if !ok || !core.IsCompare(bin.Op) {
			continue
		}
		op := bin.Op
		now, ttl := bin.X, bin.Y
		if !derivesFromNow(now) {
			now, ttl = ttl, now
			op = flip(op)
		}
		if !derivesFromNow(now) {
			continue
		}
		if c, isCall := ttl.(*ssa.Call); !isCall || methodName(c) != "TTL" {
			continue
		}
		tbl := [3]bool{core.CmpHolds(op, -1), core.CmpHolds(op, 0), core.CmpHolds(op, 1)}
		if tbl != [3]bool{false, true, true} {
			return false
		}
		// true edge must not reach b; b reachable from the false edge
		if reachesBlock(blk.Succs[0], b) && !blk.Succs[0].Dominates(b) {
			// the true edge may rejoin only if it returns first; conservative: require it not to reach b
			return false
		}
		if reachesBlock(blk.Succs[0], b) {
			return false
		}
		return true
	}
	return false
}

func c08Deadline(r *core.Run) {
	fn := r.Need("deadline", fnTryLock)
	if fn == nil {
		return
	}
	f := fn.SSA
	cnt := 0
	for _, ret := range core.Returns(f) {
		if !core.IsGlobalLoad(core.ResultValue(ret, 0), dmapPkg, "ErrLockNotAcquired") {
			continue
		}
		cnt++
		// the return is reached only through the select case of ctx.Done(), where ctx comes
		// from context.WithTimeout(_, deadline)
		ok := false
		var deadline ssa.Value
		for _, pa := range f.Params {
			if pa.Name() == "deadline" {
				deadline = pa
			}
		}
		core.Instrs(f, func(in ssa.Instruction) {
			sel, isSel := in.(*ssa.Select)
			if !isSel {
				return
			}
			for k, st := range sel.States {
				c, isCall := st.Chan.(*ssa.Call)
				if !isCall || methodName(c) != "Done" {
					continue
				}
				// receiver is the ctx from WithTimeout(e.ctx, deadline)
				recv := c.Call.Value
				ex, isEx := recv.(*ssa.Extract)
				if !isEx {
					continue
				}
				wt, isWT := ex.Tuple.(*ssa.Call)
				if !isWT || methodName(wt) != "WithTimeout" || len(wt.Call.Args) != 2 || wt.Call.Args[1] != deadline {
					continue
				}
				// the return's block lies on the "index == k" edge of this select
				for _, cd := range core.Conditions(ret.Block()) {
					bin, isBin := cd.Val.(*ssa.BinOp)
					if !isBin || bin.Op != token.EQL || !cd.Truth {
						continue
					}
					idx, isIdx := bin.X.(*ssa.Extract)
					kc, isK := bin.Y.(*ssa.Const)
					if isIdx && isK && idx.Tuple == ssa.Value(sel) && idx.Index == 0 && kc.Value != nil && int(kc.Int64()) == k {
						ok = true
					}
				}
			}
		})
		r.Check(ok, "deadline", fnTryLock+" ErrLockNotAcquired", site(r, instrPos(ret)),
			"returned only from the select case of the Done() channel of context.WithTimeout(ctx, deadline)", "lock-not-acquired is returned on a path other than the expiry of the caller's deadline (the Done() case of context.WithTimeout(ctx, deadline)): a waiting Lock gives up before its deadline")
	}
	r.Floor("deadline", cnt, 1)
}
