package rules

import (
	"golang.org/x/tools/go/ssa"

	"olricvet/internal/core"
)

const (
	fnPutOnReplica   = dmapPkg + ".(*DMap).putOnReplicaFragment"
	fnPutEntryHandle = dmapPkg + ".(*Service).putEntryCommandHandler"
	fnPrepareEntry   = dmapPkg + ".(*DMap).prepareEntry"
)

func init() {
	register(&Property{
		ID: "C04",
		Explain: "(entry-size-formula) the admission size of the primary path is len(key)+len(value)+table.MetadataLength, the quantity the tables and the backup path work with; (check-then-act) shared with C01; " +
			"Static structural necessary conditions of 'every backup copy mirrors the primary' (asynchronous mode, equality of last-access stamps and behaviour after membership changes are NOT decided): " +
			"(shipped-is-stored) in the synchronous and asynchronous write paths the entry whose Encode() is shipped to the backups is the very entry handed to putEntryOnFragment; " +
			"(partial-update-shipping) when the primary applies a partial mutator (UpdateTTL, the Expire path) the entry shipped to the backups is rebuilt from the stored value: on the OnlyUpdateTTL edge every path to prepareEntry stores storage.Get(hkey).Value() into the request; " +
			"(lookup-visits-every-table, shared with C09/C11/C12) the engine's in-place mutators (UpdateTTL, the Expire path of the primary) ask every table, so a partial update reaches the primary copy wherever it lives; " +
			"(fragment-create-atomic) the lookup and the Store that create a DMap's fragment in a partition sit in one section of the partition's mutex released by defer, so two first writers cannot each create a fragment and leave an acknowledged Put in the orphan; " +
			"(replica-stores-verbatim) the backup-side apply (DM.PUTENTRY) stores the parsed value through PutRaw on every success path, unchanged and unconditionally; " +
			"(every-mutation-via-put-or-delete) storage mutators are called only by putEntryOnFragment (Put, UpdateTTL), putOnReplicaFragment (PutRaw), deleteOnCluster / deleteFromFragment (Delete) and fragmentMergeFunction (Put); putEntryOnFragment is called only by the replicating write paths and read repair; " +
			"(replication-under-lock, lock-pairing) shared with C01: replication sends are ordered by the fragment write lock; " +
			"(delete-propagates-first) shared with C02: backups are deleted before the primary copy; " +
			"(single-live-version) shared with C11: the raw (replica) insert retires older versions after the insert.",
		Run: func(r *core.Run) {
			c04ShippedIsStored(r)
			c04PartialUpdate(r)
			c04ReplicaVerbatim(r)
			c04MutationSites(r)
			la := newLockAnalysis(r)
			la.run()
			lockPairing(r)
			replicationUnderLock(r, la)
			c02DeletePropagates(r)
			kvSingleLiveVersion(r)
			kvLookupVisitsEveryTable(r)
			fragmentCreateAtomic(r)
			compactionShape(r)
			kvPutGrowsStore(r)
			tableUpdateWritesVersion(r, "update-writes-version")
			c02ReplicateBeforeAck(r)
			singleLockRegion(r)
			kvEntrySizeFormula(r)
		},
	})
}

func c04ShippedIsStored(r *core.Run) {
	for _, name := range []string{fnSyncPut, fnAsyncPut} {
		fn := r.Need("shipped-is-stored", name)
		if fn == nil {
			continue
		}
		f := fn.SSA
		var nt ssa.Value
		for _, pa := range f.Params {
			if pa.Name() == "nt" || (pa.Type().String() == "github.com/olric-data/olric/pkg/storage.Entry") {
				nt = pa
			}
		}
		encs := findInstrs(f, false, callNamed("Encode"))
		puts := findInstrs(f, false, callTo(fnPutEntryFrag))
		ok := len(encs) >= 1 && len(puts) >= 1 && nt != nil
		for _, e := range encs {
			if e.(ssa.CallInstruction).Common().Value != nt {
				ok = false
			}
		}
		for _, pc := range puts {
			args := pc.(ssa.CallInstruction).Common().Args
			if args[len(args)-1] != nt {
				ok = false
			}
		}
		r.Check(ok, "shipped-is-stored", name, site(r, f.Pos()),
			"the entry encoded for the backups and the entry stored locally are the same value (same key, value, ttl, timestamp)",
			"the entry shipped to the backups is not the entry stored on the primary (re-prepared or different value): backup copies differ from the primary in value, expiry or timestamp")
		// what is sent is that encoding
		sent := false
		for _, e := range encs {
			ev := e.(ssa.Value)
			for _, g := range core.AllSSA(f) {
				isShip := callTo("internal/protocol.NewPutEntry", dmapPkg+".(*DMap).asyncPutOnBackup")
				core.Instrs(g, func(in ssa.Instruction) {
					c, ok := in.(ssa.CallInstruction)
					if !ok {
						return
					}
					if isShip(in) {
						for _, a := range c.Common().Args {
							if a == ev {
								sent = true
							}
						}
						return
					}
					// handed to a same-package helper that ships its parameter
					h := r.P.ByObj[core.CalleeObj(c)]
					if h == nil || h.SSA == nil || h.SSA == f || h.Pkg.PkgPath != f.Pkg.Pkg.Path() {
						return
					}
					for ai, a := range c.Common().Args {
						if a != ev || ai >= len(h.SSA.Params) {
							continue
						}
						par := h.SSA.Params[ai]
						for _, sc := range findInstrs(h.SSA, true, isShip) {
							for _, sa := range sc.(ssa.CallInstruction).Common().Args {
								if sa == ssa.Value(par) {
									sent = true
								}
							}
						}
					}
				})
			}
		}
		r.Check(sent, "shipped-is-stored", name+" sends the encoding", site(r, f.Pos()), "nt.Encode() is the payload of DM.PUTENTRY", "the payload sent to the backups is not nt.Encode()")
	}
	// putOnCluster prepares the entry once and hands that value to the write path
	if fn := r.Need("shipped-is-stored", fnPutOnCluster); fn != nil {
		preps := findInstrs(fn.SSA, false, callTo(fnPrepareEntry))
		ok := len(preps) == 1
		if ok {
			nt := preps[0].(ssa.Value)
			for _, c := range findInstrs(fn.SSA, false, callTo(fnSyncPut, fnAsyncPut, fnPutEntryFrag)) {
				args := c.(ssa.CallInstruction).Common().Args
				if args[len(args)-1] != nt {
					ok = false
				}
			}
		}
		r.Check(ok, "shipped-is-stored", fnPutOnCluster+" prepares once", site(r, fn.SSA.Pos()), "one prepareEntry result feeds every write path", "the write paths do not all receive the single prepared entry")
	}
}

func c04PartialUpdate(r *core.Run) {
	fn := r.Need("partial-update-shipping", fnPutOnCluster)
	if fn == nil {
		return
	}
	f := fn.SSA
	isOUT := core.IsFieldLoad("PutConfig", "OnlyUpdateTTL")
	var gates []*ssa.If
	for _, b := range f.Blocks {
		if len(b.Instrs) == 0 {
			continue
		}
		if ifi, ok := b.Instrs[len(b.Instrs)-1].(*ssa.If); ok {
			if v, neg := core.StripNot(ifi.Cond); isOUT(v) && !neg {
				gates = append(gates, ifi)
			}
		}
	}
	if len(gates) == 0 {
		r.Bad("partial-update-shipping", fnPutOnCluster+" OnlyUpdateTTL edge", site(r, f.Pos()),
			"putOnCluster does not distinguish the ttl-only update: the entry shipped to the backups carries the request's (empty) value, so every backup copy loses its value on Expire")
		return
	}
	// on the true edge, before prepareEntry, e.value = storage.Get(hkey).Value()
	isLoadStore := func(in ssa.Instruction) bool {
		st, ok := in.(*ssa.Store)
		if !ok || core.LastField(st.Addr) != "value" {
			return false
		}
		call, ok := st.Val.(*ssa.Call)
		if !ok || methodName(call) != "Value" {
			return false
		}
		ex, ok := call.Call.Value.(*ssa.Extract)
		if !ok {
			return false
		}
		g, ok := ex.Tuple.(*ssa.Call)
		return ok && engineCall("Get")(g)
	}
	prep := callTo(fnPrepareEntry)
	// the test may occur more than once (it also keeps Expire away from the LRU eviction);
	// one of the tests must be the decision that loads the stored value
	gate := gates[len(gates)-1]
	bad, dom := true, false
	for _, g := range gates {
		b := reachesInstrAvoidingInstr(g.Block().Succs[0], prep, isLoadStore)
		d := g.Block().Dominates(findFirst(f, prep))
		if !b && d {
			gate, bad, dom = g, false, true
			break
		}
		if !b || d {
			gate, bad, dom = g, b, d
		}
	}
	r.Check(!bad, "partial-update-shipping", fnPutOnCluster+" OnlyUpdateTTL edge", site(r, instrPos(gate)),
		"on the ttl-only edge every path to prepareEntry first loads the stored value into the request",
		"on the ttl-only (Expire) edge prepareEntry is reachable without loading the stored value: the entry shipped to the backups has an empty value, so every backup copy loses its value while the primary keeps it")
	r.Check(dom, "partial-update-shipping", fnPutOnCluster+" decision precedes prepareEntry", site(r, instrPos(gate)),
		"the ttl-only decision dominates prepareEntry", "prepareEntry can run before the ttl-only decision")
}

func findFirst(f *ssa.Function, pred instrPred) *ssa.BasicBlock {
	for _, b := range f.Blocks {
		for _, in := range b.Instrs {
			if pred(in) {
				return b
			}
		}
	}
	return f.Blocks[0]
}

// reachesInstrAvoidingInstr: target reachable from start without executing an
// instruction matching stop first.
func reachesInstrAvoidingInstr(start *ssa.BasicBlock, target, stop instrPred) bool {
	seen := map[*ssa.BasicBlock]bool{}
	var visit func(b *ssa.BasicBlock) bool
	visit = func(b *ssa.BasicBlock) bool {
		if seen[b] {
			return false
		}
		seen[b] = true
		for _, in := range b.Instrs {
			if stop(in) {
				return false
			}
			if target(in) {
				return true
			}
		}
		for _, s := range b.Succs {
			if visit(s) {
				return true
			}
		}
		return false
	}
	return visit(start)
}

func c04ReplicaVerbatim(r *core.Run) {
	fn := r.Need("replica-stores-verbatim", fnPutOnReplica)
	if fn == nil {
		return
	}
	successBefore(r, "replica-stores-verbatim", fn, engineCall("PutRaw"), "storage.PutRaw",
		"the backup acknowledges DM.PUTENTRY without storing the entry (a conditional or skipped PutRaw): the backup keeps an older copy than the primary after an acknowledged write")
	for _, c := range findInstrs(fn.SSA, false, engineCall("PutRaw")) {
		args := c.(ssa.CallInstruction).Common().Args
		ok := len(args) == 2 && core.LastField(args[0]) == "hkey" && core.LastField(args[1]) == "value"
		r.Check(ok, "replica-stores-verbatim", fnPutOnReplica+" PutRaw(e.hkey, e.value)", site(r, instrPos(c)),
			"the request's hkey and value are stored unchanged", "PutRaw does not receive the request's hkey and value unchanged")
	}
	if h := r.Need("replica-stores-verbatim", fnPutEntryHandle); h != nil {
		// e.value = putEntryCmd.Value ; e.hkey = HKey(cmd.DMap, cmd.Key)
		okV, okH := false, false
		core.Instrs(h.SSA, func(in ssa.Instruction) {
			st, ok := in.(*ssa.Store)
			if !ok {
				return
			}
			switch core.LastField(st.Addr) {
			case "value":
				if core.LastField(st.Val) == "Value" {
					okV = true
				}
			case "hkey":
				if call, ok := st.Val.(*ssa.Call); ok && callTo("internal/cluster/partitions.HKey")(call) {
					a := call.Call.Args
					okH = len(a) == 2 && core.LastField(a[0]) == "DMap" && core.LastField(a[1]) == "Key"
				}
			}
		})
		r.Check(okV && okH, "replica-stores-verbatim", fnPutEntryHandle, site(r, h.SSA.Pos()),
			"the handler passes the parsed Value and HKey(DMap, Key) on", "the handler does not pass the parsed value / the key's hash on unchanged")
		successBeforeCall(r, "replica-stores-verbatim", h, callTo(fnPutOnReplica), "putOnReplicaFragment")
	}
}

// successBeforeCall: a handler writes OK only after ev returned nil.
func successBeforeCall(r *core.Run, rule string, fn *core.Fn, ev instrPred, evName string) {
	oks := findInstrs(fn.SSA, false, callNamed("WriteString"))
	n := counter{}
	for _, o := range oks {
		names := map[string]bool{}
		for _, e := range findInstrs(fn.SSA, false, ev) {
			if obj := core.CalleeObj(e.(ssa.CallInstruction)); obj != nil {
				names[core.QualName(obj)] = true
			}
		}
		good := false
		for nme := range names {
			if underNilErrOf(r.P, o.Block(), nme) {
				good = true
			}
		}
		r.Check(good, rule, n.next(fn.Name+" acknowledges after "+evName), site(r, instrPos(o)),
			"OK is written only on the nil-error edge of "+evName, "the handler can acknowledge although "+evName+" failed or was not called")
	}
}

func c04MutationSites(r *core.Run) {
	la := newLockAnalysis(r)
	la.run()
	allowed := map[string]map[string]bool{
		"storage.Put":       {fnPutEntryFrag: true, fnMergeFunc: true},
		"storage.UpdateTTL": {fnPutEntryFrag: true},
		"storage.PutRaw":    {fnPutOnReplica: true},
		"storage.Delete":    {fnDeleteOnClu: true, dmapPkg + ".(*DMap).deleteFromFragment": true},
	}
	n := counter{}
	cnt := 0
	for _, s := range la.sites {
		al, ok := allowed[s.what]
		if !ok {
			continue
		}
		cnt++
		name := fnName(r.P, s.fn)
		r.Check(al[name], "every-mutation-via-put-or-delete", n.next(name+" "+s.what), site(r, instrPos(s.in)),
			"mutator called from its designated function", "a storage mutator is called outside the replicating put/delete paths: the primary copy changes without the backups being told")
	}
	r.Floor("every-mutation-via-put-or-delete", cnt, 6)
	if fn := r.P.Fn(fnPutEntryFrag); fn != nil {
		okCallers := map[string]bool{fnPutOnCluster: true, fnSyncPut: true, fnAsyncPut: true, fnReadRepair: true}
		for _, cs := range r.P.CallersOf(fn.Obj) {
			r.Check(okCallers[cs.Caller.Name], "every-mutation-via-put-or-delete", "caller of putEntryOnFragment: "+cs.Caller.Name, r.P.Pos(cs.Call.Pos()),
				"a replicating write path or read repair", "putEntryOnFragment is called from a function that does not replicate the write")
		}
	}
}
