// Package rules holds the per-property rule tables. Each CheckCxx function evaluates
// the structural rules of one property against the loaded program and records one
// obligation per (rule, construct).
package rules

import "olricvet/internal/core"

// Property describes one registered check.
type Property struct {
	ID      string
	Explain string
	Assume  []string
	Run     func(r *core.Run)
}

var registry = map[string]*Property{}

func register(p *Property) {
	run := p.Run
	p.Run = func(r *core.Run) {
		run(r)
		errorsReachTheCaller(r)
		rangeCallbacksRunToTheEnd(r)
	}
	p.Explain += " (errors-reach-the-caller) error discipline on the code reached from this property's entry points: the error returned by a call is handed on (returned, wrapped, stored, sent, inspected), never dropped or merely compared and logged, except at the enumerated places where a failure needs no reporting; (range-callbacks-run-to-the-end) on the same code, a callback handed to a Range-style driver returns false only at the enumerated places."
	registry[p.ID] = p
}

// Lookup returns the check registered for a property id.
func Lookup(id string) *Property { return registry[id] }

// IDs lists the registered property ids.
func IDs() []string {
	var out []string
	for k := range registry {
		out = append(out, k)
	}
	return out
}
