package rules

import (
	"fmt"
	"go/constant"
	"go/token"
	"go/types"

	"golang.org/x/tools/go/ssa"

	"olricvet/internal/core"
)

var errType = types.Universe.Lookup("error").Type()

type convCache struct {
	p    *core.Prog
	memo map[*types.Func]bool
}

var convs = map[*core.Prog]*convCache{}

// passThrough returns the predicate "f is a nil-preserving error converter": a
// repository function with one error parameter and one error result whose every return
// yields nil only where the parameter is known to be nil, and otherwise a provably
// non-nil error or the parameter itself. Verified structurally, not by name.
func passThrough(p *core.Prog) func(*types.Func) bool {
	c := convs[p]
	if c == nil {
		c = &convCache{p: p, memo: map[*types.Func]bool{}}
		convs[p] = c
	}
	var pred func(f *types.Func) bool
	pred = func(f *types.Func) bool {
		if v, ok := c.memo[f]; ok {
			return v
		}
		c.memo[f] = false
		fn := p.ByObj[f]
		if fn == nil || fn.SSA == nil {
			return false
		}
		sig := fn.SSA.Signature
		if sig.Results().Len() != 1 || !types.Identical(sig.Results().At(0).Type(), errType) {
			return false
		}
		var param *ssa.Parameter
		for _, pa := range fn.SSA.Params {
			if types.Identical(pa.Type(), errType) {
				if param != nil {
					return false
				}
				param = pa
			}
		}
		if param == nil {
			return false
		}
		for _, r := range core.Returns(fn.SSA) {
			v := core.ResultValue(r, 0)
			if v == ssa.Value(param) {
				continue
			}
			switch core.ErrState(v, r.Block(), pred) {
			case core.NonNil:
				continue
			case core.IsNil:
				if core.ErrState(param, r.Block(), pred) == core.IsNil {
					continue
				}
				return false
			default:
				return false
			}
		}
		c.memo[f] = true
		return true
	}
	return pred
}

func site(r *core.Run, pos token.Pos) string { return r.P.Pos(pos) }

// instrPos returns a usable position for an instruction (falling back to the enclosing
// function for instructions without one).
func instrPos(in ssa.Instruction) token.Pos {
	if in.Pos().IsValid() {
		return in.Pos()
	}
	// look for a neighbour in the block with a position
	b := in.Block()
	for _, x := range b.Instrs {
		if x.Pos().IsValid() {
			return x.Pos()
		}
	}
	return in.Parent().Pos()
}

func ord(i int) string { return [...]string{"<", "==", ">"}[i] }

// ordinal renders "name#k" construct keys for the k-th occurrence of the same callee.
type counter map[string]int

func (c counter) next(key string) string {
	c[key]++
	return fmt.Sprintf("%s#%d", key, c[key])
}

// blockConds is core.Conditions with memoisation per run.
func hasCond(b *ssa.BasicBlock, pred func(core.Cond) bool) bool {
	for _, c := range core.Conditions(b) {
		if pred(c) {
			return true
		}
	}
	return false
}

// isErrNilTest matches a condition "e != nil"/"e == nil" and reports the tested value
// and whether the condition being true means e is non-nil.
func isErrNilTest(c core.Cond) (ssa.Value, bool, bool) {
	b, ok := c.Val.(*ssa.BinOp)
	if !ok || (b.Op != token.NEQ && b.Op != token.EQL) {
		return nil, false, false
	}
	var v ssa.Value
	if k, ok := b.Y.(*ssa.Const); ok && k.IsNil() {
		v = b.X
	} else if k, ok := b.X.(*ssa.Const); ok && k.IsNil() {
		v = b.Y
	} else {
		return nil, false, false
	}
	nonNil := (b.Op == token.NEQ) == c.Truth
	return v, nonNil, true
}

// errSources walks an error value backwards through phis and nil-preserving converters
// and returns the calls that produced it.
func errSources(p *core.Prog, v ssa.Value) []*ssa.Call {
	pt := passThrough(p)
	seen := map[ssa.Value]bool{}
	var out []*ssa.Call
	var visit func(ssa.Value)
	visit = func(x ssa.Value) {
		if seen[x] {
			return
		}
		seen[x] = true
		switch y := x.(type) {
		case *ssa.Phi:
			for _, e := range y.Edges {
				visit(e)
			}
		case *ssa.Extract:
			visit(y.Tuple)
		case *ssa.Call:
			if o := core.CalleeObj(y); o != nil && pt(o) {
				for _, a := range y.Call.Args {
					if types.Identical(a.Type(), errType) {
						visit(a)
					}
				}
				return
			}
			out = append(out, y)
		}
	}
	visit(v)
	return out
}

func calleeName(c ssa.CallInstruction) string {
	if o := core.CalleeObj(c); o != nil {
		return core.QualName(o)
	}
	return "<dynamic>"
}

func constantInt(c *types.Const) (int64, bool) {
	if c == nil || c.Val().Kind() != constant.Int {
		return 0, false
	}
	return constant.Int64Val(c.Val())
}
