package rules

import (
	"go/token"
	"go/types"

	"golang.org/x/tools/go/ssa"

	"olricvet/internal/core"
)

// c10DefaultsAppliedLast: the per-DMap configuration is assembled from the global DMaps
// settings, then overridden by DMaps.Custom[name], and only then are defaults filled in
// for what is still unset (LRUSamples == 0 -> DefaultLRUSamples). If the default were
// applied before an override, an override that leaves the field at its zero value would
// wipe it: LRU eviction then samples nothing, finds nothing to evict, and every Put into
// a full partition fails. Rule: no store to the field is reachable after its default guard
// other than the guarded default itself.
func c10DefaultsAppliedLast(r *core.Run) {
	const rule = "defaults-applied-last"
	name := dmapPkg + ".(*dmapConfig).load"
	fn := r.Need(rule, name)
	if fn == nil {
		return
	}
	f := fn.SSA
	isField := func(v ssa.Value) bool { return core.LastField(v) == "lruSamples" }
	var guard *ssa.If
	for _, b := range f.Blocks {
		if len(b.Instrs) == 0 {
			continue
		}
		ifi, ok := b.Instrs[len(b.Instrs)-1].(*ssa.If)
		if !ok {
			continue
		}
		cv, _ := core.StripNot(ifi.Cond)
		bin, ok := cv.(*ssa.BinOp)
		if !ok || (bin.Op != token.EQL && bin.Op != token.NEQ && bin.Op != token.LEQ && bin.Op != token.LSS) {
			continue
		}
		k, isK := bin.Y.(*ssa.Const)
		if !isK || k.Value == nil || !isField(bin.X) {
			continue
		}
		// the guard's body stores a default: a store of a constant to the field in a successor
		for _, s := range b.Succs {
			for _, in := range s.Instrs {
				if st, ok := in.(*ssa.Store); ok && isField(st.Addr) {
					if _, isConst := st.Val.(*ssa.Const); isConst {
						guard = ifi
					}
				}
			}
		}
	}
	if guard == nil {
		r.Unknown(rule, name+" LRUSamples default", site(r, f.Pos()), "no `if lruSamples == 0 { lruSamples = <default> }` recognised")
		return
	}
	gb := guard.Block()
	n := counter{}
	cnt := 0
	core.Instrs(f, func(in ssa.Instruction) {
		st, ok := in.(*ssa.Store)
		if !ok || !isField(st.Addr) {
			return
		}
		if _, isConst := st.Val.(*ssa.Const); isConst {
			for _, s := range gb.Succs {
				if s == st.Block() {
					return // the guarded default itself
				}
			}
		}
		cnt++
		after := false
		for _, s := range gb.Succs {
			if reachesBlock(s, st.Block()) {
				after = true
			}
		}
		r.Check(!after, rule, n.next(name+" store to lruSamples"), site(r, instrPos(st)),
			"assigned before the default is filled in",
			"the field is assigned after its default was filled in: an override that leaves LRUSamples at zero wipes the default, LRU eviction samples nothing and every Put into a full partition fails")
	})
	r.Floor(rule, cnt, 1)
}

// c10EvictionScansEveryPartition: TTL and idle expiry are enforced by a background scan
// that draws one partition per round. Every partition id must be drawable: the draw
// ranges over the configured partition count (ids are 0..PartitionCount-1 whichever
// member owns them), not over a quantity such as the number of owned partitions.
func c10EvictionScansEveryPartition(r *core.Run) {
	const rule = "eviction-scans-every-partition"
	name := dmapPkg + ".(*Service).evictKeys"
	fn := r.Need(rule, name)
	if fn == nil {
		return
	}
	f := fn.SSA
	cnt := 0
	n := counter{}
	for _, c := range findInstrs(f, false, callTo(partByID)) {
		args := c.(ssa.CallInstruction).Common().Args
		id := core.StripConv(canonVal(core.StripConv(args[len(args)-1]))) // the id may live in a closure cell
		cnt++
		key := n.next(name + " partition draw")
		ok, why := false, "the partition id is not drawn from 0..PartitionCount-1"
		switch x := id.(type) {
		case *ssa.Call:
			if o := core.CalleeObj(x); o != nil && (core.QualName(o) == "math/rand.Intn" || core.QualName(o) == "math/rand.Int63n" || core.QualName(o) == "math/rand.Int31n") && len(x.Call.Args) == 1 {
				if isPC(x.Call.Args[0]) {
					ok, why = true, "drawn by rand.Intn(PartitionCount)"
				} else {
					why = "the draw ranges over something other than the partition count: partitions whose id is not below that quantity are never scanned, and their expired or idle keys stay for ever"
				}
			}
		case *ssa.BinOp:
			if x.Op == token.REM && isPC(x.Y) {
				ok, why = true, "x % PartitionCount"
			}
		case *ssa.Phi:
			for _, l := range core.IndexLoops(f) {
				if l.Phi == x {
					ok, why = true, "loop variable"
				}
			}
		}
		r.Check(ok, rule, key, site(r, instrPos(c)), why, why)
	}
	r.Floor(rule, cnt, 1)
}

// c10LRUSampleUnfiltered: to make room at the bound, evictKeyWithLRU samples entries of the
// fragment and evicts the least recently used one of the sample. Every ranged entry is a
// candidate until the sample is full; an entry that is skipped for a reason of its own
// (for instance "it is the key being written") leaves the sample empty when it is the only
// entry of the fragment, and the Put fails with "nothing found to expire" — although Puts
// must never fail because of a limit.
func c10LRUSampleUnfiltered(r *core.Run) {
	const rule = "lru-sample-unfiltered"
	fn := r.Need(rule, dmapPkg+".(*DMap).evictKeyWithLRU")
	if fn == nil {
		return
	}
	cnt := 0
	n := counter{}
	for _, an := range fn.SSA.AnonFuncs {
		core.Instrs(an, func(in ssa.Instruction) {
			c, ok := in.(*ssa.Call)
			if !ok {
				return
			}
			if b, isB := c.Call.Value.(*ssa.Builtin); !isB || b.Name() != "append" {
				return
			}
			cnt++
			foreign := false
			for _, cd := range core.Conditions(in.Block()) {
				bin, isBin := cd.Val.(*ssa.BinOp)
				if isBin && (core.LastField(bin.X) == "lruSamples" || core.LastField(bin.Y) == "lruSamples") {
					continue
				}
				if isBin && (lenArg(bin.X) != nil || lenArg(bin.Y) != nil) {
					continue // len(items) against the sample size
				}
				foreign = true
			}
			r.Check(!foreign, rule, n.next(fn.Name+" candidate collected"), site(r, instrPos(in)),
				"every ranged entry is a candidate until the sample is full",
				"an entry is left out of the LRU sample for a reason other than 'the sample is full': when it is the only entry of the fragment the sample is empty, nothing can be evicted and the Put fails at the bound")
		})
	}
	r.Floor(rule, cnt, 1)
}

// customConfigOverrides: a DMap listed in DMaps.Custom gets exactly the listed values,
// zero included ("no TTL", "no idle limit", "no key limit" are meaningful settings that
// switch a cluster-wide default off for this DMap). In dmapConfig.load every store of a
// custom value into the DMap's configuration is unconditional, or guarded only by "differs
// from the current value". A guard on the custom value itself (`if cs.TTLDuration != 0`)
// turns zero into "inherit": a lock taken without timeout in a DMap configured without TTL
// would silently get the cluster-wide TTL and expire while it is held.
func customConfigOverrides(r *core.Run) {
	const rule = "custom-config-overrides"
	name := dmapPkg + ".(*dmapConfig).load"
	fn := r.Need(rule, name)
	if fn == nil {
		return
	}
	f := fn.SSA
	want := map[string]string{"maxIdleDuration": "MaxIdleDuration", "ttlDuration": "TTLDuration", "evictionPolicy": "EvictionPolicy", "maxKeys": "MaxKeys", "maxInuse": "MaxInuse", "lruSamples": "LRUSamples"}
	// the custom entry: fields read off the value looked up in dc.Custom
	isCustomField := func(v ssa.Value, field string) bool {
		v = core.StripConv(v)
		switch x := v.(type) {
		case *ssa.Field:
			return structOf(x.X.Type()).Field(x.Field).Name() == field
		case *ssa.UnOp:
			if fa, ok := x.X.(*ssa.FieldAddr); ok {
				return core.LastField(fa) == field && !isRecvField(f, fa)
			}
		}
		return false
	}
	seen := map[string]bool{}
	core.Instrs(f, func(in ssa.Instruction) {
		st, ok := in.(*ssa.Store)
		if !ok {
			return
		}
		fa, ok := st.Addr.(*ssa.FieldAddr)
		if !ok || !isRecvField(f, fa) {
			return
		}
		field := core.LastField(fa)
		cf, isWanted := want[field]
		if !isWanted || !isCustomField(st.Val, cf) {
			return
		}
		seen[field] = true
		bad := ""
		for _, cd := range core.Conditions(st.Block()) {
			bin, isBin := cd.Val.(*ssa.BinOp)
			if !isBin {
				continue // the map lookup's ok, phis of it
			}
			mentionsCustom := isCustomField(bin.X, cf) || isCustomField(bin.Y, cf)
			mentionsOwn := (core.LastField(bin.X) == field && !isCustomField(bin.X, cf)) || (core.LastField(bin.Y) == field && !isCustomField(bin.Y, cf))
			if mentionsCustom && !mentionsOwn {
				bad = "the store is guarded by a test of the custom value itself"
			}
		}
		r.Check(bad == "", rule, name+" "+field, site(r, instrPos(st)),
			"the custom value is stored whatever it is (at most guarded by 'differs from the current value')",
			bad+": a zero in DMaps.Custom (no TTL, no idle limit, no key limit) no longer overrides the cluster-wide default — e.g. a lock without timeout in such a DMap gets the default TTL and expires while it is held")
	})
	for _, field := range []string{"maxIdleDuration", "ttlDuration", "maxKeys", "maxInuse"} {
		if !seen[field] {
			r.Bad(rule, name+" "+field, site(r, f.Pos()), "the custom "+want[field]+" is never stored into the DMap's configuration")
		}
	}
}

// isRecvField: fa addresses a field of the method's receiver.
func isRecvField(f *ssa.Function, fa *ssa.FieldAddr) bool {
	return len(f.Params) > 0 && fa.X == ssa.Value(f.Params[0])
}

// c10IdleJudgedOnOwnerRecord: whether a key is idle is decided from the access record of
// the partition owner's own storage (Engine.GetLastAccess under the fragment lock, in
// isKeyIdleOnFragment). The copies collected for a read carry other access times — backup
// copies are stored with lastAccess 0 and the comparator may put one of them first — so
// judging idleness from a collected version makes the first Get after a Put answer
// not-found. Rule: MaxIdleDuration is read nowhere but in the configuration loader and in
// isKeyIdleOnFragment.
func c10IdleJudgedOnOwnerRecord(r *core.Run) {
	const rule = "idle-judged-on-owner-record"
	p := r.P
	allowed := map[string]bool{dmapPkg + ".(*dmapConfig).load": true, fnIdleFrag: true}
	readers := 0
	n := counter{}
	for _, fn := range p.FuncList {
		if fn.SSA == nil || skipPkg(fn) || core.RelPkg(fn.Pkg.PkgPath) != dmapPkg {
			continue
		}
		for _, f := range core.AllSSA(fn.SSA) {
			core.Instrs(f, func(in ssa.Instruction) {
				fa, ok := in.(*ssa.FieldAddr)
				if !ok || core.LastField(fa) != "maxIdleDuration" {
					return
				}
				reads := false
				for _, ref := range *fa.Referrers() {
					if u, ok := ref.(*ssa.UnOp); ok && u.Op == token.MUL {
						reads = true
					}
				}
				if !reads {
					return
				}
				readers++
				if allowed[fn.Name] {
					return
				}
				if !p.IsRecorded(fn) {
					// a helper extracted from the idle check: all its callers are allowed readers
					ok := false
					for _, cs := range p.CallersOf(fn.Obj) {
						if !allowed[cs.Caller.Name] {
							ok = false
							break
						}
						ok = true
					}
					if ok {
						return
					}
				}
				r.Bad(rule, n.next(fn.Name+" reads MaxIdleDuration"), site(r, instrPos(fa)),
					fn.Name+" judges idleness itself instead of asking isKeyIdleOnFragment: only the partition owner's own access record (Engine.GetLastAccess under the fragment lock) says when a key was last used; a collected version may be a backup copy with no access time, so a key that was just written reads as idle since 1970")
			})
		}
	}
	r.OK(rule, "readers of dmapConfig.maxIdleDuration", "-", "MaxIdleDuration is read by the configuration loader and isKeyIdleOnFragment only")
	r.Floor(rule, readers, 2)
}

// c10OwnedCountByCurrentOwner: the per-partition share of MaxKeys/MaxInuse divides by the
// number of partitions this member owns NOW. A route lists its owners oldest first, the
// current owner is the last one (Partition.Owner()). Counting by the first owner makes a
// member that has just taken partitions over count none of them; with a count of zero the
// LRU limits are switched off for it entirely.
func c10OwnedCountByCurrentOwner(r *core.Run) {
	const rule = "owned-count-by-current-owner"
	p := r.P
	var stores []ssa.CallInstruction
	for _, fn := range p.FuncList {
		if fn.SSA == nil || skipPkg(fn) {
			continue
		}
		for _, f := range core.AllSSA(fn.SSA) {
			for _, in := range findInstrs(f, false, callTo("sync/atomic.StoreUint64")) {
				c := in.(ssa.CallInstruction)
				if len(c.Common().Args) == 2 && core.LastField(c.Common().Args[0]) == "ownedPartitionCount" {
					stores = append(stores, c)
				}
			}
		}
	}
	if len(stores) == 0 {
		r.Unknown(rule, "store of ownedPartitionCount", "-", "no atomic store of RoutingTable.ownedPartitionCount found")
		return
	}
	n := counter{}
	for _, st := range stores {
		// the stored value, followed through parameters to the callers' arguments
		vals := []ssa.Value{st.Common().Args[1]}
		if pa, ok := vals[0].(*ssa.Parameter); ok {
			vals = nil
			f := pa.Parent()
			idx := -1
			for i, q := range f.Params {
				if q == pa {
					idx = i
				}
			}
			if o, ok := f.Object().(*types.Func); ok && idx >= 0 {
				for _, cs := range p.CallersOf(o) {
					for _, g := range core.AllSSA(cs.Caller.SSA) {
						for _, in := range findInstrs(g, false, func(in ssa.Instruction) bool {
							c, ok := in.(ssa.CallInstruction)
							return ok && c.Common().StaticCallee() == f
						}) {
							args := in.(ssa.CallInstruction).Common().Args
							if idx < len(args) {
								vals = append(vals, args[idx])
							}
						}
					}
				}
			}
		}
		good, seen := false, false
		why := "no counter guarded by a comparison of the partition's owner with this member found"
		for _, v := range vals {
			// the increments feeding the counter (through the phis of the loop and of the if)
			var incs []*ssa.BinOp
			seenV := map[ssa.Value]bool{}
			var collect func(v ssa.Value)
			collect = func(v ssa.Value) {
				if seenV[v] {
					return
				}
				seenV[v] = true
				switch x := v.(type) {
				case *ssa.Phi:
					for _, e := range x.Edges {
						collect(e)
					}
				case *ssa.BinOp:
					if x.Op == token.ADD {
						incs = append(incs, x)
						collect(x.X)
					}
				}
			}
			collect(v)
			for _, inc := range incs {
				for _, cd := range core.Conditions(inc.Block()) {
					c, ok := cd.Val.(*ssa.Call)
					if !ok || !cd.Truth {
						continue
					}
					if nm := methodName(c); nm != "CompareByID" && nm != "CompareByName" {
						continue
					}
					seen = true
					recv := c.Call.Args[0]
					if oc, ok := recv.(*ssa.Call); ok && callTo("internal/cluster/partitions.(*Partition).Owner")(oc) {
						good = true
					} else {
						why = "the member compared with this one is not Partition.Owner() (the last, current owner of the route)"
					}
				}
			}
		}
		r.Check(good && seen, rule, n.next("ownedPartitionCount"), site(r, instrPos(st)),
			"counts the partitions whose current owner (Partition.Owner()) is this member",
			"the number of owned partitions is not counted by the partitions' current owner ("+why+"): a member that has just taken partitions over counts none of them, and with a count of zero the MaxKeys/MaxInuse limits are switched off for it")
	}
}
