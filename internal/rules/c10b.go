package rules

import (
	"go/token"

	"golang.org/x/tools/go/ssa"

	"olricvet/internal/core"
)

// c10DefaultsAppliedLast: the per-DMap configuration is assembled from the global DMaps
// settings, then overridden by DMaps.Custom[name], and only then are defaults filled in
// for what is still unset (LRUSamples == 0 -> DefaultLRUSamples). If the default were
// applied before an override, an override that leaves the field at its zero value would
// wipe it: LRU eviction then samples nothing, finds nothing to evict, and every Put into
// a full partition fails. Rule: no store to the field is reachable after its default guard
// other than the guarded default itself.
func c10DefaultsAppliedLast(r *core.Run) {
	const rule = "defaults-applied-last"
	name := dmapPkg + ".(*dmapConfig).load"
	fn := r.Need(rule, name)
	if fn == nil {
		return
	}
	f := fn.SSA
	isField := func(v ssa.Value) bool { return core.LastField(v) == "lruSamples" }
	var guard *ssa.If
	for _, b := range f.Blocks {
		if len(b.Instrs) == 0 {
			continue
		}
		ifi, ok := b.Instrs[len(b.Instrs)-1].(*ssa.If)
		if !ok {
			continue
		}
		cv, _ := core.StripNot(ifi.Cond)
		bin, ok := cv.(*ssa.BinOp)
		if !ok || (bin.Op != token.EQL && bin.Op != token.NEQ && bin.Op != token.LEQ && bin.Op != token.LSS) {
			continue
		}
		k, isK := bin.Y.(*ssa.Const)
		if !isK || k.Value == nil || !isField(bin.X) {
			continue
		}
		// the guard's body stores a default: a store of a constant to the field in a successor
		for _, s := range b.Succs {
			for _, in := range s.Instrs {
				if st, ok := in.(*ssa.Store); ok && isField(st.Addr) {
					if _, isConst := st.Val.(*ssa.Const); isConst {
						guard = ifi
					}
				}
			}
		}
	}
	if guard == nil {
		r.Unknown(rule, name+" LRUSamples default", site(r, f.Pos()), "no `if lruSamples == 0 { lruSamples = <default> }` recognised")
		return
	}
	gb := guard.Block()
	n := counter{}
	cnt := 0
	core.Instrs(f, func(in ssa.Instruction) {
		st, ok := in.(*ssa.Store)
		if !ok || !isField(st.Addr) {
			return
		}
		if _, isConst := st.Val.(*ssa.Const); isConst {
			for _, s := range gb.Succs {
				if s == st.Block() {
					return // the guarded default itself
				}
			}
		}
		cnt++
		after := false
		for _, s := range gb.Succs {
			if reachesBlock(s, st.Block()) {
				after = true
			}
		}
		r.Check(!after, rule, n.next(name+" store to lruSamples"), site(r, instrPos(st)),
			"assigned before the default is filled in",
			"the field is assigned after its default was filled in: an override that leaves LRUSamples at zero wipes the default, LRU eviction samples nothing and every Put into a full partition fails")
	})
	r.Floor(rule, cnt, 1)
}

// c10EvictionScansEveryPartition: TTL and idle expiry are enforced by a background scan
// that draws one partition per round. Every partition id must be drawable: the draw
// ranges over the configured partition count (ids are 0..PartitionCount-1 whichever
// member owns them), not over a quantity such as the number of owned partitions.
func c10EvictionScansEveryPartition(r *core.Run) {
	const rule = "eviction-scans-every-partition"
	name := dmapPkg + ".(*Service).evictKeys"
	fn := r.Need(rule, name)
	if fn == nil {
		return
	}
	f := fn.SSA
	cnt := 0
	n := counter{}
	for _, c := range findInstrs(f, false, callTo(partByID)) {
		args := c.(ssa.CallInstruction).Common().Args
		id := core.StripConv(canonVal(core.StripConv(args[len(args)-1]))) // the id may live in a closure cell
		cnt++
		key := n.next(name + " partition draw")
		ok, why := false, "the partition id is not drawn from 0..PartitionCount-1"
		switch x := id.(type) {
		case *ssa.Call:
			if o := core.CalleeObj(x); o != nil && (core.QualName(o) == "math/rand.Intn" || core.QualName(o) == "math/rand.Int63n" || core.QualName(o) == "math/rand.Int31n") && len(x.Call.Args) == 1 {
				if isPC(x.Call.Args[0]) {
					ok, why = true, "drawn by rand.Intn(PartitionCount)"
				} else {
					why = "the draw ranges over something other than the partition count: partitions whose id is not below that quantity are never scanned, and their expired or idle keys stay for ever"
				}
			}
		case *ssa.BinOp:
			if x.Op == token.REM && isPC(x.Y) {
				ok, why = true, "x % PartitionCount"
			}
		case *ssa.Phi:
			for _, l := range core.IndexLoops(f) {
				if l.Phi == x {
					ok, why = true, "loop variable"
				}
			}
		}
		r.Check(ok, rule, key, site(r, instrPos(c)), why, why)
	}
	r.Floor(rule, cnt, 1)
}

// c10LRUSampleUnfiltered: to make room at the bound, evictKeyWithLRU samples entries of the
// fragment and evicts the least recently used one of the sample. Every ranged entry is a
// candidate until the sample is full; an entry that is skipped for a reason of its own
// (for instance "it is the key being written") leaves the sample empty when it is the only
// entry of the fragment, and the Put fails with "nothing found to expire" — although Puts
// must never fail because of a limit.
func c10LRUSampleUnfiltered(r *core.Run) {
	const rule = "lru-sample-unfiltered"
	fn := r.Need(rule, dmapPkg+".(*DMap).evictKeyWithLRU")
	if fn == nil {
		return
	}
	cnt := 0
	n := counter{}
	for _, an := range fn.SSA.AnonFuncs {
		core.Instrs(an, func(in ssa.Instruction) {
			c, ok := in.(*ssa.Call)
			if !ok {
				return
			}
			if b, isB := c.Call.Value.(*ssa.Builtin); !isB || b.Name() != "append" {
				return
			}
			cnt++
			foreign := false
			for _, cd := range core.Conditions(in.Block()) {
				bin, isBin := cd.Val.(*ssa.BinOp)
				if isBin && (core.LastField(bin.X) == "lruSamples" || core.LastField(bin.Y) == "lruSamples") {
					continue
				}
				if isBin && (lenArg(bin.X) != nil || lenArg(bin.Y) != nil) {
					continue // len(items) against the sample size
				}
				foreign = true
			}
			r.Check(!foreign, rule, n.next(fn.Name+" candidate collected"), site(r, instrPos(in)),
				"every ranged entry is a candidate until the sample is full",
				"an entry is left out of the LRU sample for a reason other than 'the sample is full': when it is the only entry of the fragment the sample is empty, nothing can be evicted and the Put fails at the bound")
		})
	}
	r.Floor(rule, cnt, 1)
}
