package rules

import (
	"golang.org/x/tools/go/ssa"

	"olricvet/internal/core"
)

const (
	balPkg          = "internal/cluster/balancer"
	fnBackupCopies  = balPkg + ".(*Balancer).backupCopies"
	fnPrimaryCopies = balPkg + ".(*Balancer).primaryCopies"
	fnScanPartition = balPkg + ".(*Balancer).scanPartition"
)

func isSelfTest(in ssa.Instruction) bool {
	c, ok := in.(*ssa.Call)
	if !ok {
		return false
	}
	o := core.CalleeObj(c)
	if o == nil {
		return false
	}
	switch core.QualName(o) {
	case "internal/discovery.(Member).CompareByName", "internal/discovery.(Member).CompareByID":
		return ownerVsThis(c)
	}
	return false
}

// balancerKeepsOwnCopies: a member hands a fragment away only if it is not itself one
// of the partition's current owners:
//   - primaryCopies calls scanPartition only on the false edge of owner == this member;
//   - in backupCopies the "already belongs to me" test is evaluated for every candidate
//     owner in every iteration (no skip before it), and its true edge never reaches
//     scanPartition for that partition.
func balancerKeepsOwnCopies(r *core.Run) {
	p := r.P
	if fn := r.Need("balancer-keeps-own-copies", fnPrimaryCopies); fn != nil {
		calls := findInstrs(fn.SSA, false, callTo(fnScanPartition))
		r.Floor("balancer-keeps-own-copies(primary)", len(calls), 1)
		for _, c := range calls {
			ok := false
			for _, cd := range core.Conditions(c.Block()) {
				if !cd.Truth && isOwnerPredicate(p, cd.Val, 0) {
					ok = true
				}
			}
			r.Check(ok, "balancer-keeps-own-copies", fnPrimaryCopies+" -> scanPartition", site(r, instrPos(c)),
				"a primary fragment is moved only when this member is not the partition's owner", "a primary fragment can be moved away although this member may be the partition's owner: the owner drops the only primary copy")
		}
	}
	if fn := r.Need("balancer-keeps-own-copies", fnBackupCopies); fn != nil {
		f := fn.SSA
		isOwnersCall := func(v ssa.Value) bool {
			call, ok := v.(*ssa.Call)
			if !ok {
				return false
			}
			o := core.CalleeObj(call)
			return o != nil && core.QualName(o) == "internal/cluster/partitions.(*Partition).Owners"
		}
		var inner *core.IndexLoop
		var loopFn *ssa.Function // where the owner loop lives: f, or a helper f hands part.Owners() to
		var helperCall *ssa.Call
		for _, l := range core.IndexLoops(f) {
			if isOwnersCall(l.LenOf) {
				inner, loopFn = l, f
			}
		}
		if inner == nil {
			core.Instrs(f, func(in ssa.Instruction) {
				c, ok := in.(*ssa.Call)
				if !ok || inner != nil {
					return
				}
				h := p.ByObj[core.CalleeObj(c)]
				if h == nil || h.SSA == nil || h.SSA == f || h.Pkg.PkgPath != f.Pkg.Pkg.Path() {
					return
				}
				for _, l := range core.IndexLoops(h.SSA) {
					par, isPar := l.LenOf.(*ssa.Parameter)
					if !isPar {
						continue
					}
					for ai, hp := range h.SSA.Params {
						if hp == par && ai < len(c.Call.Args) && isOwnersCall(c.Call.Args[ai]) {
							inner, loopFn, helperCall = l, h.SSA, c
						}
					}
				}
			})
		}
		if inner == nil {
			r.Unknown("balancer-keeps-own-copies", fnBackupCopies+" owner loop", site(r, f.Pos()), "no counting loop over part.Owners() recognised")
			return
		}
		var self ssa.Instruction
		for b := range inner.Region() {
			for _, in := range b.Instrs {
				if isSelfTest(in) {
					self = in
				}
			}
		}
		if self == nil {
			r.Bad("balancer-keeps-own-copies", fnBackupCopies+" self test", site(r, inner.Pos()), "the loop over the backup owners never compares the owner with this member: a backup owner ships its fragment to the other owners and drops its own copy")
			return
		}
		// (1) evaluated for every candidate that can be appended or skipped: the test dominates
		// every back edge of the owner loop
		ok := true
		for _, pb := range inner.Latches() {
			if !self.Block().Dominates(pb) {
				ok = false
			}
		}
		r.Check(ok, "balancer-keeps-own-copies", fnBackupCopies+" self test in every iteration", site(r, instrPos(self)),
			"the 'already belongs to me' test dominates every back edge of the owner loop",
			"an owner can be skipped before the 'already belongs to me' test is reached: when that owner is this member (e.g. promoted to primary while still listed as backup owner) the member ships its replica away and drops its own copy, silently reducing the number of copies")
		// (2) on the true edge scanPartition is unreachable without starting the next partition
		ifb := self.Block()
		bad := true
		if ifi, isIf := ifb.Instrs[len(ifb.Instrs)-1].(*ssa.If); isIf {
			cv, neg := core.StripNot(ifi.Cond)
			if cv == self.(ssa.Value) {
				idx := 0
				if neg {
					idx = 1
				}
				if loopFn == f {
					var outer *ssa.BasicBlock
					for _, l := range core.IndexLoops(f) {
						if l != inner && l.Header != nil && inner.Header != nil && l.Region()[inner.Header] {
							outer = l.Header
						}
					}
					// leaving through the outer loop's post/header is fine
					bad = reachesInstrAvoidingFrom(ifb, ifb.Succs[idx], callTo(fnScanPartition), outerLatches(outer))
				} else {
					// the helper reports "mine" through a boolean result: constant true on every
					// return reachable from the self edge; the caller reaches scanPartition only on
					// the false edge of that result
					bad = reachesInstrAvoiding(ifb.Succs[idx], callTo(fnScanPartition), nil)
					flag := -1
					rets := core.ReturnsFrom(ifb.Succs[idx], ifb)
					if len(rets) > 0 {
						for k := range rets[0].Results {
							all := true
							for _, ret := range rets {
								c, isK := core.ResultValue(ret, k).(*ssa.Const)
								if !isK || c.Value == nil || c.Value.String() != "true" {
									all = false
								}
							}
							if all {
								flag = k
							}
						}
					}
					if flag < 0 {
						bad = true
					}
					for _, sc := range findInstrs(f, false, callTo(fnScanPartition)) {
						guarded := false
						for _, cd := range core.Conditions(sc.Block()) {
							if ex, isEx := cd.Val.(*ssa.Extract); isEx && !cd.Truth && ex.Tuple == ssa.Value(helperCall) && ex.Index == flag {
								guarded = true
							}
						}
						if !guarded {
							bad = true
						}
					}
				}
			}
		}
		r.Check(!bad, "balancer-keeps-own-copies", fnBackupCopies+" own partition is kept", site(r, instrPos(self)),
			"when this member is a current backup owner the partition is skipped", "scanPartition is reachable for a partition this member is a current backup owner of")
	}
}

// outerLatches: the blocks through which an iteration of the loop with header h ends.
func outerLatches(h *ssa.BasicBlock) map[*ssa.BasicBlock]bool {
	out := map[*ssa.BasicBlock]bool{}
	if h == nil {
		return out
	}
	out[h] = true
	for _, p := range h.Preds {
		if h.Dominates(p) {
			out[p] = true
		}
	}
	return out
}

func reachesInstrAvoiding(start *ssa.BasicBlock, pred instrPred, avoid map[*ssa.BasicBlock]bool) bool {
	return reachesInstrAvoidingFrom(nil, start, pred, avoid)
}

// reachesInstrAvoidingFrom: an instruction matching pred can be reached from start
// (entered over from -> start) without passing a block of avoid; path sensitive for nil
// tests and for flags that are constants on the way taken.
func reachesInstrAvoidingFrom(from, start *ssa.BasicBlock, pred instrPred, avoid map[*ssa.BasicBlock]bool) bool {
	hit := pathSearchFrom(from, start, nil, nil, func(b *ssa.BasicBlock) bool {
		if avoid[b] {
			return false
		}
		for _, in := range b.Instrs {
			if pred(in) {
				return true
			}
		}
		return false
	}, func(_, to *ssa.BasicBlock) bool { return !avoid[to] })
	return hit != nil
}

func reachesInstrAvoidingOld(start *ssa.BasicBlock, pred instrPred, avoid map[*ssa.BasicBlock]bool) bool {
	seen := map[*ssa.BasicBlock]bool{}
	var visit func(b *ssa.BasicBlock) bool
	visit = func(b *ssa.BasicBlock) bool {
		if seen[b] || avoid[b] {
			return false
		}
		seen[b] = true
		for _, in := range b.Instrs {
			if pred(in) {
				return true
			}
		}
		for _, s := range b.Succs {
			if visit(s) {
				return true
			}
		}
		return false
	}
	return visit(start)
}
