package rules

import (
	"go/token"

	"golang.org/x/tools/go/ssa"

	"olricvet/internal/core"
)

// canonVal maps a load of a variable that is written by exactly one store (a parameter
// or local captured by a closure, which go/ssa keeps in a heap cell and re-loads before
// every use) to the stored value, so that two uses of the same source variable compare
// equal. Free variables are resolved to the cell of the enclosing function.
func canonVal(v ssa.Value) ssa.Value {
	for i := 0; i < 4; i++ {
		v = core.SuccessValue(v)
		u, ok := v.(*ssa.UnOp)
		if !ok || u.Op != token.MUL {
			return v
		}
		var cell *ssa.Alloc
		switch x := u.X.(type) {
		case *ssa.Alloc:
			cell = x
		case *ssa.FreeVar:
			cell, _ = resolveFreeVar(x).(*ssa.Alloc)
		}
		if cell == nil {
			return v
		}
		st := singleStoreCell(cell)
		if st == nil {
			return v
		}
		v = st.Val
	}
	return v
}

// methodName returns the name of the called method or function (static or invoke).
func methodName(c ssa.CallInstruction) string {
	if o := core.CalleeObj(c); o != nil {
		return o.Name()
	}
	return ""
}
