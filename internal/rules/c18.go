package rules

import (
	"fmt"
	"go/types"

	"golang.org/x/tools/go/ssa"

	"olricvet/internal/core"
)

func init() {
	register(&Property{
		ID: "C18",
		Explain: "Static structural necessary conditions of 'returned values are private snapshots': " +
			"(no-table-memory-escape) taint analysis over internal/kvstore and internal/kvstore/table: a slice of Table.memory (and anything resliced from it, or returned by a helper that returns such a slice) may only be read in place (index, len, copy as source or destination, string conversion, encoding/binary readers, regexp match); it must not be stored into an entry (SetValue/SetKey...), stored into any heap object, converted to an interface, captured, or returned across the storage.Engine API by a KVStore method; " +
			"(put-does-not-retain) the caller's value handed to Put/GetPut on every client path (DMap, EmbeddedDMap, ClusterDMap, DMapPipeline) flows only into the RESP encoder, whose byte/string cases hand the bytes to Write (a copy), or into the next Put/GetPut layer; pooled encode buffers are released only by a deferred call and never back a queued pipeline command. " +
			"(returned-entry-not-shared) a function of the read path that returns a storage.Entry starts no goroutine that keeps the returned entry (or the record it is taken from): nothing inside olric reads the caller's result after the call returned. " +
			"NOT decided: aliasing inside third-party packages (go-redis reply buffers), the client-side unsafe string conversions of the response's own private buffer (advisory).",
		Run: checkC18,
	})
}

func checkC18(r *core.Run) {
	memoryEscape(r)
	putDoesNotRetain(r)
	c18ReturnedEntryNotShared(r)
	c18DecodedReplyNotPooled(r)
	c18EmbeddedGetOwnsItsEntry(r)
}

type taintState struct {
	r        *core.Run
	returns  map[*ssa.Function]bool // function may return a slice of table memory
	visiting map[*ssa.Function]bool
	viol     []taintViolation
	sources  int
}

type taintViolation struct {
	fn   *ssa.Function
	in   ssa.Instruction
	what string
}

func isMemoryLoad(v ssa.Value) bool { return core.IsFieldLoad("Table", "memory")(v) }

var readOnlyCallees = map[string]bool{
	"encoding/binary.(bigEndian).Uint64":    true,
	"encoding/binary.(bigEndian).Uint32":    true,
	"encoding/binary.(bigEndian).Uint16":    true,
	"encoding/binary.(bigEndian).PutUint64": true, // writes into table memory in place
	"encoding/binary.(bigEndian).PutUint32": true,
	"encoding/binary.(bigEndian).PutUint16": true,
	"regexp.(*Regexp).Match":                true,
	"bytes.Equal":                           true,
	"bytes.Compare":                         true,
}

// memoryEscape implements C18.no-table-memory-escape.
func memoryEscape(r *core.Run) {
	p := r.P
	ts := &taintState{r: r, returns: map[*ssa.Function]bool{}, visiting: map[*ssa.Function]bool{}}
	var fns []*core.Fn
	for _, fn := range p.FuncList {
		rel := core.RelPkg(fn.Pkg.PkgPath)
		if (rel == kvPkg || rel == tablePkg) && fn.SSA != nil {
			fns = append(fns, fn)
		}
	}
	// fixpoint on "returns tainted"
	for changed := true; changed; {
		changed = false
		for _, fn := range fns {
			for _, sf := range core.AllSSA(fn.SSA) {
				if ts.returns[sf] {
					continue
				}
				if ts.analyse(sf, false) {
					ts.returns[sf] = true
					changed = true
				}
			}
		}
	}
	ts.viol = nil
	ts.sources = 0
	analysed := 0
	for _, fn := range fns {
		for _, sf := range core.AllSSA(fn.SSA) {
			analysed++
			ts.analyse(sf, true)
		}
		r.FuncsSeen[fn.Name] = true
	}
	// report
	seen := map[string]bool{}
	n := counter{}
	for _, v := range ts.viol {
		key := n.next(fnName(p, v.fn) + " " + v.what)
		if seen[key] {
			continue
		}
		seen[key] = true
		r.Bad("no-table-memory-escape", key, site(r, instrPos(v.in)),
			"a slice of Table.memory "+v.what+": the caller's value changes when the key is overwritten in place, the table is recycled by compaction, or another holder writes into it")
	}
	// one discharged obligation per function that touches table memory
	for _, fn := range fns {
		touched := false
		bad := false
		for _, sf := range core.AllSSA(fn.SSA) {
			core.Instrs(sf, func(in ssa.Instruction) {
				if sl, ok := in.(*ssa.Slice); ok && isMemoryLoad(sl.X) {
					touched = true
				}
			})
			for _, v := range ts.viol {
				if v.fn == sf {
					bad = true
				}
			}
		}
		if touched && !bad {
			extra := ""
			if ts.returns[fn.SSA] {
				extra = " (returns such a slice to its callers inside the engine, which are checked in turn)"
			}
			r.OK("no-table-memory-escape", fn.Name, site(r, fn.SSA.Pos()), "every slice of Table.memory is only read or written in place, copied, or converted to a string"+extra)
		}
	}
	r.Floor("no-table-memory-escape(sources)", ts.sources, 15)
	r.Notes = append(r.Notes, fmt.Sprintf("taint: %d functions of kvstore/table analysed, %d memory-slice sources", analysed, ts.sources))
}

func fnName(p *core.Prog, f *ssa.Function) string {
	root := f
	for root.Parent() != nil {
		root = root.Parent()
	}
	if o, ok := root.Object().(*types.Func); ok {
		if f != root {
			return core.QualName(o) + "$lit"
		}
		return core.QualName(o)
	}
	return f.String()
}

// analyse propagates taint inside f; returns whether f may return a tainted slice.
func (ts *taintState) analyse(f *ssa.Function, report bool) bool {
	tainted := map[ssa.Value]bool{}
	var work []ssa.Value
	add := func(v ssa.Value) {
		if !tainted[v] {
			tainted[v] = true
			work = append(work, v)
		}
	}
	core.Instrs(f, func(in ssa.Instruction) {
		switch x := in.(type) {
		case *ssa.Slice:
			if isMemoryLoad(x.X) {
				if report {
					ts.sources++
				}
				add(x)
			}
		case *ssa.Call:
			if sc := x.Call.StaticCallee(); sc != nil && ts.returns[sc] {
				add(x)
			}
		case *ssa.Extract:
			if call, ok := x.Tuple.(*ssa.Call); ok {
				if sc := call.Call.StaticCallee(); sc != nil && ts.returns[sc] && isByteSlice(x.Type()) {
					add(x)
				}
			}
		}
	})
	retTainted := false
	for len(work) > 0 {
		v := work[len(work)-1]
		work = work[:len(work)-1]
		refs := v.Referrers()
		if refs == nil {
			continue
		}
		for _, ref := range *refs {
			switch x := ref.(type) {
			case *ssa.Slice:
				if x.X == v {
					add(x)
				}
			case *ssa.Phi:
				add(x)
			case *ssa.IndexAddr, *ssa.Index, *ssa.DebugRef, *ssa.Range:
			case *ssa.Convert:
				if b, ok := x.Type().Underlying().(*types.Basic); ok && b.Info()&types.IsString != 0 {
					continue // string(b) copies
				}
				add(x)
			case *ssa.ChangeType:
				add(x)
			case *ssa.Extract:
				// tuple of a tainted call already handled
			case *ssa.Return:
				retTainted = true
				if report && isEngineBoundary(f) {
					ts.viol = append(ts.viol, taintViolation{f, ref, "is returned across the storage.Engine API by " + f.Name()})
				}
			case *ssa.Store:
				if x.Val == v {
					if report {
						ts.viol = append(ts.viol, taintViolation{f, ref, "is stored into a variable or heap object"})
					}
				}
			case *ssa.MakeInterface:
				if report {
					ts.viol = append(ts.viol, taintViolation{f, ref, "is converted to an interface value"})
				}
			case *ssa.MakeClosure:
				if report {
					ts.viol = append(ts.viol, taintViolation{f, ref, "is captured by a closure"})
				}
			case *ssa.BinOp, *ssa.UnOp:
			case ssa.CallInstruction:
				c := x.Common()
				if b, ok := c.Value.(*ssa.Builtin); ok {
					switch b.Name() {
					case "copy", "len", "cap":
						continue
					case "append":
						// append(dst, tainted...) copies the bytes; append(tainted, ...) extends in place
						if len(c.Args) > 0 && c.Args[0] == v {
							if report {
								ts.viol = append(ts.viol, taintViolation{f, ref, "is used as the destination of append"})
							}
						}
						continue
					}
				}
				if o := core.CalleeObj(x); o != nil && readOnlyCallees[core.QualName(o)] {
					continue
				}
				if report {
					name := calleeName(x)
					ts.viol = append(ts.viol, taintViolation{f, ref, "is passed to " + name})
				}
			default:
				if report {
					ts.viol = append(ts.viol, taintViolation{f, ref, fmt.Sprintf("flows into %T", ref)})
				}
			}
		}
	}
	return retTainted
}

func isByteSlice(t types.Type) bool {
	s, ok := t.Underlying().(*types.Slice)
	if !ok {
		return false
	}
	b, ok := s.Elem().Underlying().(*types.Basic)
	return ok && b.Kind() == types.Uint8
}

// isEngineBoundary: f is a method of KVStore (the storage.Engine implementation) or of
// its transfer iterator, or an exported function of the kvstore package.
func isEngineBoundary(f *ssa.Function) bool {
	o, ok := f.Object().(*types.Func)
	if !ok {
		return false
	}
	if core.RelPkg(o.Pkg().Path()) != kvPkg {
		return false
	}
	return o.Exported()
}

// putDoesNotRetain: the caller's value handed to Put / GetPut flows only into the RESP
// encoder (whose []byte and string cases Write, i.e. copy, the bytes) or into another
// Put/GetPut of this list; a pooled encode buffer is released only by a deferred call
// and is never used by the pipeline, whose commands outlive the call.
func putDoesNotRetain(r *core.Run) {
	list := []string{
		"internal/dmap.(*DMap).Put", "internal/dmap.(*DMap).GetPut",
		"olric.(*EmbeddedDMap).Put", "olric.(*EmbeddedDMap).GetPut",
		"olric.(*ClusterDMap).Put", "olric.(*ClusterDMap).GetPut",
		"olric.(*DMapPipeline).Put", "olric.(*DMapPipeline).GetPut",
	}
	okCallee := map[string]bool{"internal/resp.(*Encoder).Encode": true}
	for _, n := range list {
		okCallee[n] = true
	}
	for _, name := range list {
		fn := r.Need("put-does-not-retain", name)
		if fn == nil {
			continue
		}
		f := fn.SSA
		var par *ssa.Parameter
		for _, pa := range f.Params {
			if pa.Name() == "value" {
				par = pa
			}
		}
		if par == nil {
			r.Unknown("put-does-not-retain", name+" value parameter", site(r, f.Pos()), "no parameter named value")
			continue
		}
		bad := valueOnlyEncoded(r.P, par, okCallee, 0)
		r.Check(bad == "", "put-does-not-retain", name+" value parameter", site(r, f.Pos()),
			"the caller's value is only handed to the RESP encoder (which copies the bytes) or to the next Put/GetPut layer",
			"the caller's value "+bad+": the caller's buffer may be retained after the call returns")
		// pooled buffers
		gets := core.CallsTo(f, true, core.Named("internal/bufpool.(*BufPool).Get"))
		puts := core.CallsTo(f, true, core.Named("internal/bufpool.(*BufPool).Put"))
		isPipeline := fn.Obj.Type().(*types.Signature).Recv() != nil && deref(fn.Obj.Type().(*types.Signature).Recv().Type()).(*types.Named).Obj().Name() == "DMapPipeline"
		if isPipeline {
			r.Check(len(gets) == 0, "put-does-not-retain", name+" no pooled buffer", site(r, f.Pos()),
				"the queued command owns a private buffer", "a pooled buffer backs a queued command that is sent later by Exec: the buffer is reused by other callers before the command is written")
		}
		for _, c := range puts {
			_, isDefer := c.(*ssa.Defer)
			r.Check(isDefer, "put-does-not-retain", name+" pool.Put deferred", site(r, instrPos(c)),
				"the pooled buffer is released when the function returns", "the pooled buffer is released before the request completed")
		}
	}
	// the encoder's byte and string cases go through Write
	if enc := r.Need("put-does-not-retain", "internal/resp.(*Encoder).bytes"); enc != nil {
		writes := false
		var par *ssa.Parameter
		if len(enc.SSA.Params) == 2 {
			par = enc.SSA.Params[1]
		}
		okAll := par != nil
		if par != nil {
			for _, ref := range *par.Referrers() {
				switch x := ref.(type) {
				case *ssa.DebugRef:
				case ssa.CallInstruction:
					if x.Common().IsInvoke() && x.Common().Method.Name() == "Write" {
						writes = true
					} else if o := core.CalleeObj(x); o != nil && o.Name() == "Write" {
						writes = true
					} else {
						okAll = false
					}
				default:
					okAll = false
				}
			}
		}
		r.Check(okAll && writes, "put-does-not-retain", "internal/resp.(*Encoder).bytes", site(r, enc.SSA.Pos()),
			"the bytes are handed to Write only", "the encoder keeps or forwards the caller's slice instead of writing it")
	}
}

func deref(t types.Type) types.Type {
	if p, ok := t.Underlying().(*types.Pointer); ok {
		return p.Elem()
	}
	return t
}
