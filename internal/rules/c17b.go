package rules

import (
	"golang.org/x/tools/go/ssa"

	"olricvet/internal/core"
)

// c17ValidateBeforeReplicate (D19): the size limits of the storage engine (key length,
// entry size) are only enforced by the local insert (storage.Put through
// putEntryOnFragment). In the synchronous write path the entry must therefore be
// validated — i.e. the local insert attempted, or an explicit validation performed —
// before it is encoded and shipped to the backups; otherwise an over-long key reaches
// the backups with a truncated one-byte length prefix (Entry.Encode narrows
// len(key) to uint8 unguarded) and, with WriteQuorum 1, the Put is even acknowledged.
func c17ValidateBeforeReplicate(r *core.Run) {
	fn := r.Need("validate-before-replicate", fnSyncPut)
	if fn == nil {
		return
	}
	f := fn.SSA
	sends := findInstrs(f, true, viaHelpers(r.P, f, callTo(fnRedisProcess)))
	r.Floor("validate-before-replicate", len(sends), 1)
	validators := findInstrs(f, false, callTo(fnPutEntryFrag))
	// an explicit validation helper would also do: any call whose result can be ErrKeyTooLarge
	ok := len(sends) > 0
	for _, s := range sends {
		dominated := false
		for _, v := range validators {
			if v.Parent() == s.Parent() && core.Dominates(v, s) {
				dominated = true
			}
		}
		if !dominated {
			ok = false
		}
	}
	// or the caller validated before calling us
	if !ok {
		if c := r.P.Fn(fnPutOnCluster); c != nil {
			for _, call := range findInstrs(c.SSA, false, callTo(fnSyncPut)) {
				for _, v := range findInstrs(c.SSA, false, func(in ssa.Instruction) bool {
					ci, isC := in.(ssa.CallInstruction)
					if !isC {
						return false
					}
					n := methodName(ci)
					return n == "validateEntry" || n == "Validate" || n == "checkEntrySize"
				}) {
					if core.Dominates(v, call) {
						ok = true
					}
				}
			}
		}
	}
	r.Check(ok, "validate-before-replicate", fnSyncPut+" replication before validation", site(r, f.Pos()),
		"the entry is validated against the engine's size limits before it is shipped to the backups",
		"the entry is encoded and shipped to the backups before the local insert (the only place the key-length and entry-size limits are enforced): a key of 256+ bytes reaches the backups with a truncated length byte, and with WriteQuorum 1 the Put is acknowledged although the primary stored nothing")
}
