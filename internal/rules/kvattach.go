package rules

import (
	"golang.org/x/tools/go/ssa"

	"olricvet/internal/core"
)

// attachSite is a place where a table becomes part of a store's table list: a direct
// `x.tables = append(x.tables, t)` or a call of a kvstore helper that does this with one
// of its parameters.
type attachSite struct {
	in         ssa.Instruction // the append call, or the call of the helper
	elem       ssa.Value       // the table that is attached (at this site)
	registered bool            // tablesByCoefficient[..] = elem on every path after the append
	via        string
}

// directAppends lists the appends of a single table to a `tables` field inside f.
func directAppends(f *ssa.Function) []attachSite {
	var out []attachSite
	core.Instrs(f, func(in ssa.Instruction) {
		c, ok := in.(*ssa.Call)
		if !ok {
			return
		}
		b, ok := c.Call.Value.(*ssa.Builtin)
		if !ok || b.Name() != "append" || len(c.Call.Args) != 2 {
			return
		}
		elem := appendedSingle(c.Call.Args[1])
		if elem == nil || !isTablePtr(elem.Type()) {
			return
		}
		stored := false
		for _, ref := range *c.Referrers() {
			if st, ok := ref.(*ssa.Store); ok && core.LastField(st.Addr) == "tables" {
				stored = true
			}
		}
		if !stored {
			return
		}
		reg := func(x ssa.Instruction) bool {
			mu, ok := x.(*ssa.MapUpdate)
			return ok && core.LastField(mu.Map) == "tablesByCoefficient" && canonVal(mu.Value) == canonVal(elem)
		}
		ret := core.ReachesReturnFrom(in, reg, func(*ssa.Return) bool { return true })
		out = append(out, attachSite{in: in, elem: elem, registered: ret == nil})
	})
	return out
}

// attachSites lists the attach sites of f, looking one call deep into kvstore helpers
// that attach one of their parameters.
func attachSites(p *core.Prog, f *ssa.Function) []attachSite {
	out := directAppends(f)
	core.Instrs(f, func(in ssa.Instruction) {
		c, ok := in.(*ssa.Call)
		if !ok {
			return
		}
		o := core.CalleeObj(c)
		h := p.ByObj[o]
		if h == nil || h.SSA == nil || h.SSA == f || core.RelPkg(h.Pkg.PkgPath) != kvPkg {
			return
		}
		for _, d := range directAppends(h.SSA) {
			par, isPar := canonVal(d.elem).(*ssa.Parameter)
			if !isPar {
				continue
			}
			for i, hp := range h.SSA.Params {
				if hp == par && i < len(c.Call.Args) {
					out = append(out, attachSite{in: in, elem: c.Call.Args[i], registered: d.registered, via: h.Name})
				}
			}
		}
	})
	return out
}

// kvRegistrationOnAppend: every table attached in makeTable / Fork is registered in the
// scan index and, when it is a reused table, put back into ReadWriteState.
func kvRegistrationOnAppend(r *core.Run, readWrite int64) {
	p := r.P
	for _, name := range []string{kvPkg + ".(*KVStore).makeTable", kvPkg + ".(*KVStore).Fork"} {
		fn := r.Need("scan-index-registration", name)
		if fn == nil {
			continue
		}
		f := fn.SSA
		n := counter{}
		sites := attachSites(p, f)
		for _, s := range sites {
			key := n.next(name + " append(tables, t)")
			via := ""
			if s.via != "" {
				via = " (through " + s.via + ")"
			}
			r.Check(s.registered, "scan-index-registration", key+" registered", site(r, instrPos(s.in)),
				"every return after the append passes tablesByCoefficient[cf] = t"+via, "a table becomes part of the store without being registered in the scan index: its keys are never scanned")
			elem := s.elem
			if call, ok := elem.(*ssa.Call); ok {
				if o := core.CalleeObj(call); o != nil && core.QualName(o) == tablePkg+".New" {
					r.OK("scan-index-registration", key+" writable", site(r, instrPos(s.in)), "fresh table (table.New starts in ReadWriteState)"+via)
					continue
				}
			}
			setRW := func(x ssa.Instruction) bool {
				sc, ok := x.(*ssa.Call)
				if !ok {
					return false
				}
				o := core.CalleeObj(sc)
				if o == nil || core.QualName(o) != tablePkg+".(*Table).SetState" || len(sc.Call.Args) != 2 || canonVal(sc.Call.Args[0]) != canonVal(elem) {
					return false
				}
				k, ok := sc.Call.Args[1].(*ssa.Const)
				return ok && k.Value != nil && k.Int64() == readWrite
			}
			// the state may be set right before or after the attach
			before := false
			for _, x := range findInstrs(f, false, setRW) {
				if core.Dominates(x, s.in) {
					before = true
				}
			}
			ret := core.ReachesReturnFrom(s.in, setRW, func(*ssa.Return) bool { return true })
			r.Check(before || ret == nil, "scan-index-registration", key+" writable", site(r, instrPos(s.in)),
				"a reused table is put back into ReadWriteState on every path"+via,
				"a recycled table is reused as the head table without SetState(ReadWriteState): compaction (which skips only ReadWrite tables) evicts the head into itself and transfer skips it, losing its keys")
		}
		r.Floor("scan-index-registration("+fn.Obj.Name()+")", len(sites), 1)
	}
}
