package rules

import (
	"golang.org/x/tools/go/ssa"

	"olricvet/internal/core"
)

// c16NoSelfRequestUnderLock: a request handler that applies an entry operation takes the
// fragment lock of the receiving member. A function that sends such a request while the
// fragment lock is held must therefore never address this member itself: the handler
// would wait for the lock its own caller holds until the client times out, and the
// fragment stays blocked for all that time (for the background eviction, which retries
// for ever, permanently).
//
// The members addressed by the walks over the *primary* owners list can include this
// member whenever the walk runs on a previous owner (background eviction runs on every
// member that still holds a fragment). The rule: in those walks, a request sent with the
// fragment lock held is only reachable on the false edge of owner.CompareByID(This()).
// Walks that send without the lock are recorded as such.
func c16NoSelfRequestUnderLock(r *core.Run) {
	const rule = "no-self-request-under-lock"
	la := newLockAnalysis(r)
	la.run()
	type walk struct {
		fn string
		ev instrPred
		nm string
	}
	walks := []walk{
		{fnDelPrev, callTo(fnRedisProcess), "Process"},
		{fnLookupOwners, callTo(dmapPkg + ".(*DMap).lookupOnPreviousOwner"), "lookupOnPreviousOwner"},
	}
	cnt := 0
	for _, w := range walks {
		fn := r.Need(rule, w.fn)
		if fn == nil {
			continue
		}
		w.ev = viaHelpers(r.P, fn.SSA, w.ev)
		states := lockStatesAt(la, fn.SSA, w.ev)
		n := counter{}
		for _, l := range allIndexLoops(fn.SSA) {
			for b := range l.Region() {
				for _, in := range b.Instrs {
					if !w.ev(in) {
						continue
					}
					cnt++
					key := n.next(w.fn + " " + w.nm + " in the previous-owner walk")
					st, known := states[in]
					if !known {
						r.Unknown(rule, key, site(r, instrPos(in)), "lock state at the request could not be determined")
						continue
					}
					if st == lkNone {
						r.OK(rule, key, site(r, instrPos(in)), "sent without the fragment lock: a request to this member itself cannot wait for its own caller")
						continue
					}
					guarded := false
					for _, cd := range core.Conditions(in.Block()) {
						if c, isC := cd.Val.(*ssa.Call); isC && !cd.Truth && isSelfTest(c) {
							guarded = true
						}
					}
					r.Check(guarded, rule, key, site(r, instrPos(in)),
						"sent under "+levelName(st)+" only on the false edge of owner.CompareByID(This())",
						"sent under "+levelName(st)+" to every member of the primary owners list, this member included when it is a previous owner (background eviction): its own handler waits for the fragment lock held here until the client times out, and the fragment is blocked meanwhile")
				}
			}
		}
	}
	r.Floor(rule, cnt, 2)
}

// allIndexLoops: the loops of f and of the closures defined in it (a loop is reported
// once even when its body was compiled into a closure).
func allIndexLoops(f *ssa.Function) []*core.IndexLoop {
	var out []*core.IndexLoop
	for _, g := range core.AllSSA(f) {
		if g.Synthetic == "range-over-func yield" {
			continue
		}
		out = append(out, core.IndexLoops(g)...)
	}
	return out
}

// lockStatesAt returns the fragment-lock level at every instruction of f (and of the
// closures it runs synchronously) matching pred, given what f's callers hold.
func lockStatesAt(la *lockAnalysis, f *ssa.Function, pred instrPred) map[ssa.Instruction]int {
	out := map[ssa.Instruction]int{}
	var walk func(g *ssa.Function, entry int)
	walk = func(g *ssa.Function, entry int) {
		stateAt := map[ssa.Instruction]int{}
		la.flow(g, entry, func(in ssa.Instruction, st int) {
			stateAt[in] = st
			if pred(in) {
				out[in] = st
			}
		})
		for _, an := range g.AnonFuncs {
			mc, mode := closureUse(an)
			switch {
			case mode == "sync" && mc != nil:
				walk(an, stateAt[mc])
			case mode == "sync":
				walk(an, entry)
			default:
				walk(an, lkNone)
			}
		}
	}
	walk(f, la.minCallerLevel(f))
	return out
}
