package rules

import "go/types"

func structOf(t types.Type) *types.Struct {
	if p, ok := t.Underlying().(*types.Pointer); ok {
		t = p.Elem()
	}
	st, _ := t.Underlying().(*types.Struct)
	return st
}
