package rules

import (
	"go/ast"
	"go/token"
	"go/types"

	"golang.org/x/tools/go/ssa"

	"olricvet/internal/core"
)

const (
	psPkg          = "internal/pubsub"
	fnPublish      = psPkg + ".(*PubSub).Publish"
	fnWriteMessage = psPkg + ".(*pubSubConn).writeMessage"
	fnPSSubscribe  = psPkg + ".(*PubSub).subscribe"
	fnPSUnsub      = psPkg + ".(*PubSub).unsubscribe"
	fnBgrunner     = psPkg + ".(*pubSubConn).bgrunner"
	fnPublishH     = psPkg + ".(*Service).publishCommandHandler"
)

func init() {
	register(&Property{
		ID: "C14",
		Explain: "Static structural necessary conditions of exactly-once Pub/Sub delivery (per-publisher ordering across members and socket-level behaviour are NOT decided): " +
			"(count-equals-deliveries) in both range-scan callbacks of Publish a delivery (writeMessage) and the increment of the returned counter occur in the same blocks, one for one; " +
			"(delivery-under-lock) messages are written only from Publish's callbacks while the PubSub read lock is held, and subscription changes (subscribe, unsubscribe, disconnect cleanup) mutate the subscription tree only under the write lock — so no message reaches a subscription after its unsubscribe was acknowledged; " +
			"(entry-discriminator) every loop over a connection's mixed channel/pattern entries that interprets the channel name also tests the pattern flag; PUBSUB CHANNELS de-duplicates; " +
			"(conn-id-unique) a subscriber connection's id comes from a counter that is only ever incremented (ids are part of the subscription tree's key, a reused id overwrites a live subscription); " +
			"(fan-out) PUBLISH visits every member: local Publish on the self edge, PublishInternal otherwise, both added to the total, which is written only after the loop; " +
			"(cleanup) every subscription stored in the tree is removed by unsubscribe and by the deferred disconnect cleanup of the subscriber loop.",
		Run: func(r *core.Run) {
			c14CountEqualsDeliveries(r)
			c14DeliveryUnderLock(r)
			c14ConnectionWritesUnderConnLock(r)
			c14EntryDiscriminator(r)
			c14ConnID(r)
			c14FanOut(r)
			c14Cleanup(r)
			c14KindFollowsCommand(r)
			c16SubscriberLoop(r)
			c14UnsubscribeKindFilter(r)
			c14SubscribersNotIdleClosed(r)
		},
	})
}

func isPubSubMuOp(c ssa.CallInstruction) (string, bool) {
	cc := c.Common()
	sc := cc.StaticCallee()
	if sc == nil || len(cc.Args) == 0 {
		return "", false
	}
	o, _ := sc.Object().(*types.Func)
	if o == nil || o.Pkg() == nil || o.Pkg().Path() != "sync" {
		return "", false
	}
	switch o.Name() {
	case "Lock", "Unlock", "RLock", "RUnlock":
	default:
		return "", false
	}
	fa, ok := cc.Args[0].(*ssa.FieldAddr)
	if !ok {
		return "", false
	}
	n, ok := deref(fa.X.Type()).(*types.Named)
	if !ok || n.Obj().Name() != "PubSub" {
		return "", false
	}
	return o.Name(), true
}

// psLockLevelAt computes, for function f entered with level entry, the PubSub.mu level
// (0 none, 1 read, 2 write) held before each instruction. Deferred releases are ignored.
func psLockLevelAt(f *ssa.Function, entry int) map[ssa.Instruction]int {
	out := map[ssa.Instruction]int{}
	if len(f.Blocks) == 0 {
		return out
	}
	const top = 3
	in := make([]int, len(f.Blocks))
	outb := make([]int, len(f.Blocks))
	for i := range in {
		in[i], outb[i] = top, top
	}
	step := func(b *ssa.BasicBlock, st int, rec bool) int {
		for _, ins := range b.Instrs {
			if rec {
				out[ins] = st
			}
			if c, ok := ins.(*ssa.Call); ok {
				if op, ok := isPubSubMuOp(c); ok {
					switch op {
					case "Lock":
						st = 2
					case "RLock":
						if st < 1 {
							st = 1
						}
					default:
						st = 0
					}
				}
			}
		}
		return st
	}
	for changed := true; changed; {
		changed = false
		for _, b := range f.Blocks {
			st := top
			if b.Index == 0 {
				st = entry
			}
			for _, p := range b.Preds {
				if outb[p.Index] < st {
					st = outb[p.Index]
				}
			}
			if st == top && b.Index != 0 {
				continue
			}
			if st != in[b.Index] {
				in[b.Index] = st
				changed = true
			}
			if o := step(b, st, false); o != outb[b.Index] {
				outb[b.Index] = o
				changed = true
			}
		}
	}
	for _, b := range f.Blocks {
		if in[b.Index] != top {
			step(b, in[b.Index], true)
		}
	}
	return out
}

func c14CountEqualsDeliveries(r *core.Run) {
	fn := r.Need("count-equals-deliveries", fnPublish)
	if fn == nil {
		return
	}
	cnt := 0
	counters := map[*ssa.Alloc]bool{} // the cells the delivery callbacks increment
	for _, an := range fn.SSA.AnonFuncs {
		writes := findInstrs(an, false, callTo(fnWriteMessage))
		if len(writes) == 0 {
			continue
		}
		cnt++
		wb := map[*ssa.BasicBlock]int{}
		ib := map[*ssa.BasicBlock]int{}
		for _, w := range writes {
			wb[w.Block()]++
		}
		core.Instrs(an, func(in ssa.Instruction) {
			st, ok := in.(*ssa.Store)
			if !ok {
				return
			}
			if _, isFV := st.Addr.(*ssa.FreeVar); !isFV {
				return
			}
			if bin, ok := st.Val.(*ssa.BinOp); ok && bin.Op == token.ADD {
				if k, isK := bin.Y.(*ssa.Const); isK && k.Value != nil && k.Int64() == 1 {
					ib[in.Block()]++
					if cell, isCell := resolveFreeVar(st.Addr.(*ssa.FreeVar)).(*ssa.Alloc); isCell {
						counters[cell] = true
					}
				}
			}
		})
		same := len(wb) == len(ib)
		for b, n := range wb {
			if ib[b] != n {
				same = false
			}
		}
		r.Check(same, "count-equals-deliveries", fnName(r.P, an), site(r, an.Pos()),
			"deliveries and counter increments occur in the same blocks, one for one", "the counter returned by PUBLISH is not incremented exactly where a message is written (counts non-matching patterns, or misses deliveries)")
	}
	r.Floor("count-equals-deliveries", cnt, 2)
	// the returned value is that counter
	// the returned value is the sum of exactly those counters (one counter, or one per kind
	// of delivery added up)
	okRet := false
	for _, ret := range core.Returns(fn.SSA) {
		seen := map[*ssa.Alloc]bool{}
		sumOK := true
		var leaves func(v ssa.Value, depth int)
		leaves = func(v ssa.Value, depth int) {
			if bin, isBin := v.(*ssa.BinOp); isBin && bin.Op == token.ADD && depth < 4 {
				leaves(bin.X, depth+1)
				leaves(bin.Y, depth+1)
				return
			}
			if u, isLoad := v.(*ssa.UnOp); isLoad && u.Op == token.MUL {
				if al, isAl := u.X.(*ssa.Alloc); isAl && counters[al] && !seen[al] {
					seen[al] = true
					return
				}
			}
			sumOK = false
		}
		leaves(core.ResultValue(ret, 0), 0)
		if sumOK && len(seen) == len(counters) && len(counters) > 0 {
			okRet = true
		}
	}
	r.Check(okRet, "count-equals-deliveries", fnPublish+" returns the counter", site(r, fn.SSA.Pos()), "Publish returns the delivery counter", "Publish does not return the delivery counter")
}

func c14DeliveryUnderLock(r *core.Run) {
	p := r.P
	wm := p.Fn(fnWriteMessage)
	pub := r.Need("delivery-under-lock", fnPublish)
	if wm == nil || pub == nil {
		r.Unknown("delivery-under-lock", fnWriteMessage, "-", "anchor not found")
		return
	}
	// (1) who may write messages: only closures of Publish that are passed to a synchronous call
	n := counter{}
	sites := 0
	for _, fn := range p.FuncList {
		if fn.SSA == nil {
			continue
		}
		for _, sf := range core.AllSSA(fn.SSA) {
			for _, w := range findInstrs(sf, false, callTo(fnWriteMessage)) {
				sites++
				key := n.next(fnName(p, sf) + " writeMessage")
				if fn.Name != fnPublish {
					r.Bad("delivery-under-lock", key, site(r, instrPos(w)), "a message is written outside Publish: the write is not serialised with unsubscribe/disconnect by the PubSub lock")
					continue
				}
				lvl := 0
				if sf.Parent() == nil {
					lvl = psLockLevelAt(sf, 0)[w]
				} else {
					mc, mode := closureUse(sf)
					if mode == "sync" && mc != nil {
						lvl = psLockLevelAt(sf.Parent(), 0)[mc]
					}
				}
				r.Check(lvl >= 1, "delivery-under-lock", key, site(r, instrPos(w)),
					"written while the PubSub lock is held (callback invoked synchronously under RLock)",
					"a message is written while the PubSub lock is not held (e.g. after a snapshot and RUnlock): an UNSUBSCRIBE or disconnect can complete in between, and the connection receives a message for a subscription it already left")
			}
		}
	}
	r.Floor("delivery-under-lock(write sites)", sites, 2)
	// (2) the read lock of Publish is released only by the deferred call
	explicit := 0
	core.Instrs(pub.SSA, func(in ssa.Instruction) {
		if c, ok := in.(*ssa.Call); ok {
			if op, ok := isPubSubMuOp(c); ok && (op == "RUnlock" || op == "Unlock") {
				explicit++
			}
		}
	})
	r.Check(explicit == 0, "delivery-under-lock", fnPublish+" lock released at exit only", site(r, pub.SSA.Pos()), "RUnlock is deferred", "Publish releases the PubSub lock before it returns")
	// (3) tree mutations under the write lock: every Set/Delete on the subscription tree in
	// the package, whichever function it lives in (a helper called with the lock held
	// inherits the level of its call sites)
	isMut := func(in ssa.Instruction) bool {
		ci, ok := in.(ssa.CallInstruction)
		if !ok {
			return false
		}
		nm := methodName(ci)
		if nm != "Set" && nm != "Delete" {
			return false
		}
		return len(ci.Common().Args) > 0 && core.LastField(ci.Common().Args[0]) == "chans"
	}
	var entryLevel func(sf *ssa.Function, depth int) int
	entryLevel = func(sf *ssa.Function, depth int) int {
		if sf.Parent() != nil {
			mc, mode := closureUse(sf)
			if mode == "sync" && mc != nil {
				return psLockLevelAt(sf.Parent(), entryLevel(sf.Parent(), depth))[mc]
			}
			return 0
		}
		obj, _ := sf.Object().(*types.Func)
		if obj == nil || depth >= 2 || obj.Exported() {
			return 0
		}
		// unexported helper: the minimum level over its static (non-defer, non-go) call sites
		min, sites := 2, 0
		for _, caller := range p.FuncList {
			if caller.SSA == nil || caller.Pkg.PkgPath != sf.Pkg.Pkg.Path() {
				continue
			}
			for _, cf := range core.AllSSA(caller.SSA) {
				var lv map[ssa.Instruction]int
				core.Instrs(cf, func(in ssa.Instruction) {
					c, ok := in.(ssa.CallInstruction)
					if !ok || core.CalleeObj(c) != obj {
						return
					}
					sites++
					if _, isCall := in.(*ssa.Call); !isCall {
						min = 0
						return
					}
					if lv == nil {
						lv = psLockLevelAt(cf, entryLevel(cf, depth+1))
					}
					if lv[in] < min {
						min = lv[in]
					}
				})
			}
		}
		if sites == 0 {
			return 0
		}
		return min
	}
	muts := 0
	for _, fn := range p.FuncList {
		if fn.SSA == nil || core.RelPkg(fn.Pkg.PkgPath) != "internal/pubsub" {
			continue
		}
		for _, sf := range core.AllSSA(fn.SSA) {
			ms := findInstrs(sf, false, isMut)
			if len(ms) == 0 {
				continue
			}
			lv := psLockLevelAt(sf, entryLevel(sf, 0))
			for _, c := range ms {
				muts++
				r.Check(lv[c] == 2, "delivery-under-lock", n.next(fnName(p, sf)+" subscription tree mutation"), site(r, instrPos(c)),
					"under the PubSub write lock", "the subscription tree is modified without the PubSub write lock: a concurrent Publish iterates a tree that is being changed")
			}
		}
	}
	r.Floor("delivery-under-lock(tree mutations)", muts, 2)
}

func c14EntryDiscriminator(r *core.Run) {
	p := r.P
	pkg := p.Pkg(psPkg)
	if pkg == nil {
		return
	}
	cnt := 0
	for _, fn := range p.FuncList {
		if fn.Pkg != pkg {
			continue
		}
		n := counter{}
		ast.Inspect(fn.Decl.Body, func(nd ast.Node) bool {
			rs, ok := nd.(*ast.RangeStmt)
			if !ok {
				return true
			}
			fld := core.SelectorField(fn.Pkg, rs.X)
			if fld == nil || fld.Name() != "entries" {
				return true
			}
			kid, ok := rs.Key.(*ast.Ident)
			if !ok {
				return true
			}
			usesChannel, usesPattern := false, false
			ast.Inspect(rs.Body, func(m ast.Node) bool {
				if se, ok := m.(*ast.SelectorExpr); ok {
					if id, ok := se.X.(*ast.Ident); ok && id.Name == kid.Name {
						switch se.Sel.Name {
						case "channel":
							usesChannel = true
						case "pattern":
							usesPattern = true
						}
					}
				}
				return true
			})
			if !usesChannel {
				return true
			}
			cnt++
			r.Check(usesPattern, "entry-discriminator", n.next(fn.Name+" loop over entries"), p.Pos(rs.Pos()),
				"the loop tests the pattern flag of the entries whose channel name it interprets", "the loop interprets entry.channel without looking at entry.pattern: pattern subscriptions are reported or counted as channel subscriptions")
			return true
		})
	}
	r.Floor("entry-discriminator", cnt, 4)
	// PUBSUB CHANNELS reports distinct channels: Channels / ChannelsWithPatterns append under a not-seen test
	for _, name := range []string{psPkg + ".(*PubSub).Channels", psPkg + ".(*PubSub).ChannelsWithPatterns"} {
		fn := r.Need("entry-discriminator", name)
		if fn == nil {
			continue
		}
		ok := false
		core.Instrs(fn.SSA, func(in ssa.Instruction) {
			c, isC := in.(*ssa.Call)
			if !isC {
				return
			}
			if b, isB := c.Call.Value.(*ssa.Builtin); !isB || b.Name() != "append" {
				return
			}
			for _, cd := range core.Conditions(in.Block()) {
				if ex, isEx := cd.Val.(*ssa.Extract); isEx && ex.Index == 1 && !cd.Truth {
					if lk, isL := ex.Tuple.(*ssa.Lookup); isL && lk.CommaOk {
						ok = true
					}
				}
			}
		})
		r.Check(ok, "entry-discriminator", name+" distinct", site(r, fn.SSA.Pos()), "a channel is appended only when not seen before", "the same channel is reported once per subscribed connection instead of once")
	}
}

func c14ConnID(r *core.Run) {
	fn := r.Need("conn-id-unique", fnPSSubscribe)
	if fn == nil {
		return
	}
	f := fn.SSA
	var idStore *ssa.Store
	core.Instrs(f, func(in ssa.Instruction) {
		st, ok := in.(*ssa.Store)
		if !ok || core.LastField(st.Addr) != "id" {
			return
		}
		if n, ok := deref(st.Addr.(*ssa.FieldAddr).X.Type()).(*types.Named); ok && n.Obj().Name() == "pubSubConn" {
			idStore = st
		}
	})
	if idStore == nil {
		r.Unknown("conn-id-unique", fnPSSubscribe+" id", site(r, f.Pos()), "no assignment of pubSubConn.id found")
		return
	}
	fromCounter := core.LastField(idStore.Val) == "nextid"
	var inc *ssa.Store
	core.Instrs(f, func(in ssa.Instruction) {
		st, ok := in.(*ssa.Store)
		if !ok || core.LastField(st.Addr) != "nextid" {
			return
		}
		if bin, ok := st.Val.(*ssa.BinOp); ok && bin.Op == token.ADD && core.LastField(bin.X) == "nextid" {
			if k, isK := bin.Y.(*ssa.Const); isK && k.Value != nil && k.Int64() >= 1 {
				inc = st
			}
		}
	})
	ok := fromCounter && inc != nil && core.Dominates(inc, idStore)
	r.Check(ok, "conn-id-unique", fnPSSubscribe+" id", site(r, instrPos(idStore)),
		"the id is the freshly incremented connection counter", "a subscriber connection's id is not taken from a counter that was just incremented (e.g. derived from the number of live connections): after a disconnect a new connection gets the id of a surviving one and overwrites its subscription in the tree")
	// nothing else writes the counter
	p := r.P
	others := 0
	for _, g := range p.FuncList {
		if g.SSA == nil || core.RelPkg(g.Pkg.PkgPath) != psPkg {
			continue
		}
		for _, sf := range core.AllSSA(g.SSA) {
			core.Instrs(sf, func(in ssa.Instruction) {
				if st, isSt := in.(*ssa.Store); isSt && core.LastField(st.Addr) == "nextid" && st != inc {
					others++
				}
			})
		}
	}
	r.Check(others == 0, "conn-id-unique", "nextid is only incremented", site(r, f.Pos()), "no other write of the counter", "the connection counter is written elsewhere (reset or decremented)")
}

func c14FanOut(r *core.Run) {
	fn := r.Need("fan-out", fnPublishH)
	if fn == nil {
		return
	}
	f := fn.SSA
	var loop *core.IndexLoop
	for _, l := range core.IndexLoops(f) {
		if c, ok := l.LenOf.(*ssa.Call); ok && methodName(c) == "GetMembers" {
			loop = l
		}
	}
	if loop == nil {
		r.Unknown("fan-out", fnPublishH+" member loop", site(r, f.Pos()), "no loop over Discovery().GetMembers() recognised")
		return
	}
	r.Check(loop.Lo == 0 && loop.HiOff == 1, "fan-out", fnPublishH+" member loop", site(r, instrPos(loop.Phi)), "every member is visited", "not every member is visited")
	region := loop.Region()
	var local, remote ssa.Instruction
	for b := range region {
		for _, in := range b.Instrs {
			if callTo(fnPublish)(in) {
				local = in
			}
			if callTo(fnRedisProcess)(in) {
				remote = in
			}
		}
	}
	selfOK := false
	if local != nil {
		selfOK = underOwnerGuard(r.P, local.Block())
	}
	r.Check(local != nil && selfOK, "fan-out", fnPublishH+" local delivery", site(r, f.Pos()), "local Publish on the edge where the member is this node", "the local subscribers are not served exactly on the self edge")
	r.Check(remote != nil, "fan-out", fnPublishH+" remote delivery", site(r, f.Pos()), "PublishInternal is sent to the other members", "other members are not asked to deliver")
	// every iteration delivers: local or remote dominates every back edge
	if local != nil && remote != nil {
		ok := true
		for _, pb := range loop.Header.Preds {
			if loop.Header.Dominates(pb) && !local.Block().Dominates(pb) && !remote.Block().Dominates(pb) {
				// the latch merges both branches: check its predecessors
				for _, pp := range pb.Preds {
					if !local.Block().Dominates(pp) && !remote.Block().Dominates(pp) {
						ok = false
					}
				}
			}
		}
		r.Check(ok, "fan-out", fnPublishH+" every iteration delivers", site(r, instrPos(loop.Phi)), "each member gets either the local or the remote delivery", "an iteration can end without delivering to that member (e.g. a break after the local publish)")
	}
	// the reply is written after the loop only (error replies inside the loop are WriteError)
	for _, w := range findInstrs(f, false, callNamed("WriteInt")) {
		r.Check(!region[w.Block()] || w.Block() == loop.Exit, "fan-out", fnPublishH+" reply after the loop", site(r, instrPos(w)), "the total is written after every member was visited", "the count is written from inside the member loop")
	}
}

func c14Cleanup(r *core.Run) {
	fn := r.Need("cleanup", fnBgrunner)
	if fn == nil {
		return
	}
	// a deferred closure deletes every entry of the connection from ps.chans and the conn from ps.conns
	ok1, ok2 := false, false
	for _, an := range deferredBodies(r.P, fn.SSA) {
		core.Instrs(an, func(in ssa.Instruction) {
			if c, ok := in.(ssa.CallInstruction); ok {
				if methodName(c) == "Delete" && len(c.Common().Args) > 0 && core.LastField(c.Common().Args[0]) == "chans" {
					ok1 = true
				}
				if b, isB := c.Common().Value.(*ssa.Builtin); isB && b.Name() == "delete" && core.LastField(c.Common().Args[0]) == "conns" {
					ok2 = true
				}
			}
		})
	}
	r.Check(ok1 && ok2, "cleanup", fnBgrunner+" disconnect cleanup", site(r, fn.SSA.Pos()),
		"a deferred function removes the connection's entries from the tree and the connection from the table", "a disconnected subscriber's entries stay in the subscription tree: PUBLISH keeps counting and writing to a dead connection")
	if u := r.Need("cleanup", fnPSUnsub); u != nil {
		okA, okB := false, false
		for _, sf := range core.AllSSA(u.SSA) {
			core.Instrs(sf, func(in ssa.Instruction) {
				if c, ok := in.(ssa.CallInstruction); ok {
					if methodName(c) == "Delete" && len(c.Common().Args) > 0 && core.LastField(c.Common().Args[0]) == "chans" {
						okA = true
					}
					if b, isB := c.Common().Value.(*ssa.Builtin); isB && b.Name() == "delete" && core.LastField(c.Common().Args[0]) == "entries" {
						okB = true
					}
				}
			})
		}
		r.Check(okA && okB, "cleanup", fnPSUnsub, site(r, u.SSA.Pos()), "removes the entry from the tree and from the connection", "unsubscribe leaves the entry in the tree or in the connection's set")
	}
}
