package rules

import (
	"fmt"
	"go/token"
	"go/types"
	"sort"

	"golang.org/x/tools/go/ssa"

	"olricvet/internal/core"
)

// Argument-vector length analysis (mechanism M6 of DESIGN.md).
//
// For every value of type [][]byte (the shape of redcon.Command.Args) a lower bound
// L(v) on len(v) is computed:
//   - a load of the Args field of a redcon.Command parameter: 1 (redcon never delivers an
//     empty argument vector; DESIGN §2.7) — all loads of the same field of the same
//     (never re-assigned) parameter are one abstract value;
//   - x[k:] with constant k: L(x) - k, floored at 0;
//   - phi: minimum over the incoming values, each evaluated at its predecessor;
//   - a [][]byte parameter: minimum over all static call sites in the repository;
//   - anything else: 0;
// and, flow-sensitively, the branch conditions known to hold at the point of use
// (len(v) < k false, len(v) > k true, == k, != 0, ... in either operand order) raise it.
// Obligations: a constant index v[i] needs L >= i+1, a constant reslice v[k:] needs
// L >= k, a variable index v[i] needs a dominating "i < len(v)".

type argv struct {
	p      *core.Prog
	phi    map[*ssa.Phi]int
	params map[*ssa.Parameter]int
	inprog map[*ssa.Parameter]bool
	conds  map[*ssa.BasicBlock][]core.Cond
}

const inf = 1 << 20

func newArgv(p *core.Prog) *argv {
	return &argv{p: p, phi: map[*ssa.Phi]int{}, params: map[*ssa.Parameter]int{}, inprog: map[*ssa.Parameter]bool{}, conds: map[*ssa.BasicBlock][]core.Cond{}}
}

func isArgvType(t types.Type) bool {
	s, ok := t.Underlying().(*types.Slice)
	if !ok {
		return false
	}
	e, ok := s.Elem().Underlying().(*types.Slice)
	if !ok {
		return false
	}
	b, ok := e.Elem().Underlying().(*types.Basic)
	return ok && b.Kind() == types.Uint8
}

func isRedconCommand(t types.Type) bool {
	n, ok := t.(*types.Named)
	return ok && n.Obj().Name() == "Command" && n.Obj().Pkg() != nil && n.Obj().Pkg().Path() == "github.com/tidwall/redcon"
}

// cellKey identifies "field f of the struct held in cell c": all loads of the same
// field of the same cell are one abstract value, valid as long as the cell is written by
// a single store instruction (a parameter spill, or a variable assigned once per loop
// iteration) and the field is never stored through.
type cellKey struct {
	cell  *ssa.Alloc
	field int
}

// canon returns a key identifying the abstract value: loads of the Args field of the
// same struct variable share one key. Inside an immediately-invoked closure a captured
// variable resolves to the cell of the enclosing function.
func (a *argv) canon(v ssa.Value) any {
	switch x := v.(type) {
	case *ssa.UnOp:
		if x.Op == token.MUL {
			if fa, ok := x.X.(*ssa.FieldAddr); ok {
				switch base := fa.X.(type) {
				case *ssa.Alloc:
					if singleStoreCell(base) != nil {
						return cellKey{base, fa.Field}
					}
				case *ssa.FreeVar:
					if al, ok := resolveFreeVar(base).(*ssa.Alloc); ok && singleStoreCell(al) != nil {
						return cellKey{al, fa.Field}
					}
				}
			}
		}
	case *ssa.Field:
		if par, ok := x.X.(*ssa.Parameter); ok && isRedconCommand(par.Type()) {
			return [2]any{par, x.Field}
		}
	}
	return v
}

// singleStoreCell returns the unique store that writes the cell, or nil when the cell is
// written more than once, stored through a field address, or its address escapes other
// than into closures.
func singleStoreCell(al *ssa.Alloc) *ssa.Store {
	var st *ssa.Store
	for _, ref := range *al.Referrers() {
		switch r := ref.(type) {
		case *ssa.Store:
			if r.Addr != ssa.Value(al) {
				return nil // the address itself is stored somewhere: escapes
			}
			if st != nil {
				return nil
			}
			st = r
		case *ssa.FieldAddr:
			for _, rr := range *r.Referrers() {
				if s2, ok := rr.(*ssa.Store); ok && s2.Addr == ssa.Value(r) {
					return nil
				}
			}
		case *ssa.UnOp, *ssa.DebugRef, *ssa.MakeClosure:
		default:
			return nil
		}
	}
	return st
}

// spilledParam: the cell holds a copy of a parameter.
func spilledParam(al *ssa.Alloc) *ssa.Parameter {
	st := singleStoreCell(al)
	if st == nil {
		return nil
	}
	// the stored value is the parameter, or a copy of a cell that holds it (struct values
	// bound to a local: `c := cmd`)
	v := st.Val
	for i := 0; i < 4; i++ {
		if p, ok := v.(*ssa.Parameter); ok {
			return p
		}
		u, ok := v.(*ssa.UnOp)
		if !ok || u.Op != token.MUL {
			return nil
		}
		src, ok := u.X.(*ssa.Alloc)
		if !ok {
			return nil
		}
		st2 := singleStoreCell(src)
		if st2 == nil {
			return nil
		}
		v = st2.Val
	}
	return nil
}

// immediateCall returns the call instruction that invokes closure fn right where it is
// created (func(){...}() or defer/go of a literal is NOT accepted), or nil.
func immediateCall(fn *ssa.Function) ssa.Instruction {
	if fn.Parent() == nil {
		return nil
	}
	var site ssa.Instruction
	n := 0
	core.Instrs(fn.Parent(), func(in ssa.Instruction) {
		mc, ok := in.(*ssa.MakeClosure)
		if !ok || mc.Fn != ssa.Value(fn) {
			return
		}
		n++
		refs := *mc.Referrers()
		if len(refs) == 1 {
			if c, ok := refs[0].(*ssa.Call); ok && c.Call.Value == ssa.Value(mc) {
				site = c
			}
		}
	})
	if n != 1 {
		return nil
	}
	return site
}

func (a *argv) conditions(b *ssa.BasicBlock) []core.Cond {
	if c, ok := a.conds[b]; ok {
		return c
	}
	c := core.Conditions(b)
	a.conds[b] = c
	return c
}

// refine returns the lower bound on len(v) implied by the branch conditions that hold
// at block b. For a value captured by an immediately-invoked closure the conditions at
// the invocation site in the enclosing function are used as well.
func (a *argv) refine(v ssa.Value, b *ssa.BasicBlock) int {
	key := a.canon(v)
	best := a.refineKey(key, b)
	if ck, ok := key.(cellKey); ok && ck.cell.Parent() != b.Parent() {
		// v lives in a closure, the cell in an enclosing function
		fn := b.Parent()
		for fn != nil && fn.Parent() != nil {
			call := immediateCall(fn)
			if call == nil {
				break
			}
			if fn.Parent() == ck.cell.Parent() {
				if r := a.refineKey(key, call.Block()); r > best {
					best = r
				}
				break
			}
			fn = fn.Parent()
		}
	}
	return best
}

func (a *argv) refineKey(key any, b *ssa.BasicBlock) int {
	best := 0
	var neq []int
	for _, c := range a.conditions(b) {
		bin, ok := c.Val.(*ssa.BinOp)
		if !ok || !core.IsCompare(bin.Op) {
			continue
		}
		op := bin.Op
		var lenSide, other ssa.Value
		if l := lenArg(bin.X); l != nil && a.canon(l) == key {
			lenSide, other = bin.X, bin.Y
		} else if l := lenArg(bin.Y); l != nil && a.canon(l) == key {
			lenSide, other = bin.Y, bin.X
			op = flip(op)
		}
		if lenSide == nil {
			continue
		}
		k, ok := other.(*ssa.Const)
		if !ok || k.Value == nil {
			continue
		}
		if ck, ok := key.(cellKey); ok && ck.cell.Parent() == b.Parent() && !a.cellStable(ck, c.If, b) {
			continue
		}
		kv := int(k.Int64())
		lb := 0
		// condition "len op kv" has truth c.Truth
		switch {
		case op == token.LSS && !c.Truth: // !(len < k)
			lb = kv
		case op == token.LEQ && !c.Truth:
			lb = kv + 1
		case op == token.GTR && c.Truth:
			lb = kv + 1
		case op == token.GEQ && c.Truth:
			lb = kv
		case op == token.EQL && c.Truth:
			lb = kv
		case op == token.NEQ && !c.Truth:
			lb = kv
		case op == token.EQL && !c.Truth, op == token.NEQ && c.Truth:
			neq = append(neq, kv) // len != kv
		}
		if lb > best {
			best = lb
		}
	}
	// a validating helper: err == nil of H(..., v, ...) where every success return of H
	// has established len(param) >= k
	for _, c := range a.conditions(b) {
		ev, nonNil, ok := isErrNilTest(c)
		if !ok || nonNil {
			continue
		}
		for _, call := range errSources(a.p, ev) {
			o := core.CalleeObj(call)
			h := a.p.ByObj[o]
			if h == nil || h.SSA == nil {
				continue
			}
			for i, arg := range call.Call.Args {
				if i >= len(h.SSA.Params) || !isArgvType(arg.Type()) || a.canon(arg) != key {
					continue
				}
				if lb := a.ensures(h.SSA, h.SSA.Params[i]); lb > best {
					best = lb
				}
			}
		}
	}
	// len >= best and len != best  =>  len >= best+1
	for changed := true; changed; {
		changed = false
		for _, k := range neq {
			if k == best {
				best++
				changed = true
			}
		}
	}
	return best
}

// cellStable: the cell is not re-written between the branch that established the
// condition and block b (no path from the cell's store to b avoids that branch).
func (a *argv) cellStable(ck cellKey, ifi *ssa.If, b *ssa.BasicBlock) bool {
	st := singleStoreCell(ck.cell)
	if st == nil {
		return false
	}
	if _, isParam := st.Val.(*ssa.Parameter); isParam {
		return true
	}
	// search from the store's block (after the store) for b without passing through the If block
	stop := ifi.Block()
	if st.Block() == b && b != stop {
		return false
	}
	if st.Block() == stop {
		// the store precedes the If in the same block (the If is the last instruction)
		return true
	}
	seen := map[*ssa.BasicBlock]bool{}
	var visit func(x *ssa.BasicBlock) bool
	visit = func(x *ssa.BasicBlock) bool {
		if x == stop || seen[x] {
			return false
		}
		seen[x] = true
		if x == b && x != st.Block() {
			return true
		}
		for _, s := range x.Succs {
			if visit(s) {
				return true
			}
		}
		return false
	}
	for _, s := range st.Block().Succs {
		if visit(s) {
			return false
		}
	}
	return true
}

func flip(op token.Token) token.Token {
	switch op {
	case token.LSS:
		return token.GTR
	case token.LEQ:
		return token.GEQ
	case token.GTR:
		return token.LSS
	case token.GEQ:
		return token.LEQ
	}
	return op
}

func lenArg(v ssa.Value) ssa.Value {
	c, ok := v.(*ssa.Call)
	if !ok {
		return nil
	}
	b, ok := c.Call.Value.(*ssa.Builtin)
	if !ok || b.Name() != "len" || len(c.Call.Args) != 1 {
		return nil
	}
	return c.Call.Args[0]
}

// L is the lower bound on len(v) at block b.
func (a *argv) L(v ssa.Value, b *ssa.BasicBlock) int {
	base := a.base(v)
	if r := a.refine(v, b); r > base {
		return r
	}
	return base
}

func (a *argv) base(v ssa.Value) int {
	switch x := v.(type) {
	case *ssa.UnOp, *ssa.Field:
		switch k := a.canon(v).(type) {
		case [2]any:
			return 1 // Args of a redcon.Command parameter: never empty
		case cellKey:
			if par := spilledParam(k.cell); par != nil && isRedconCommand(par.Type()) {
				return 1
			}
		}
		return 0
	case *ssa.Slice:
		if x.High != nil || x.Max != nil {
			return 0
		}
		if x.Low == nil {
			return a.L(x.X, x.Block())
		}
		k, ok := x.Low.(*ssa.Const)
		if !ok {
			return 0
		}
		n := a.L(x.X, x.Block()) - int(k.Int64())
		if n < 0 {
			n = 0
		}
		return n
	case *ssa.Phi:
		if n, ok := a.phi[x]; ok {
			return n
		}
		// optimistic start, descend to the greatest fixpoint
		a.phi[x] = inf
		for iter := 0; iter < 64; iter++ {
			m := inf
			for i, e := range x.Edges {
				l := a.L(e, x.Block().Preds[i])
				if l < m {
					m = l
				}
			}
			if m == a.phi[x] {
				break
			}
			a.phi[x] = m
			// dependent phis are recomputed on demand because only this entry is memoised
			for k := range a.phi {
				if k != x {
					delete(a.phi, k)
				}
			}
		}
		return a.phi[x]
	case *ssa.Parameter:
		if n, ok := a.params[x]; ok {
			return n
		}
		if a.inprog[x] {
			return inf
		}
		a.inprog[x] = true
		n := a.paramBound(x)
		delete(a.inprog, x)
		a.params[x] = n
		return n
	}
	return 0
}

func (a *argv) paramBound(par *ssa.Parameter) int {
	fn := par.Parent()
	obj, _ := fn.Object().(*types.Func)
	if obj == nil {
		return 0
	}
	idx := -1
	for i, p := range fn.Params {
		if p == par {
			idx = i
		}
	}
	if fn.Signature.Recv() != nil {
		idx-- // Params includes the receiver
	}
	if idx < 0 {
		return 0
	}
	// find SSA call sites of obj
	m := inf
	sites := 0
	for _, caller := range a.p.FuncList {
		for _, sf := range core.AllSSA(caller.SSA) {
			core.Instrs(sf, func(in ssa.Instruction) {
				c, ok := in.(ssa.CallInstruction)
				if !ok || core.CalleeObj(c) != obj || c.Common().IsInvoke() {
					return
				}
				args := c.Common().Args
				ai := idx
				if fn.Signature.Recv() != nil {
					ai++
				}
				if ai >= len(args) {
					m = 0
					return
				}
				sites++
				if l := a.L(args[ai], in.Block()); l < m {
					m = l
				}
			})
		}
	}
	if sites == 0 {
		return 0
	}
	return m
}

type argvObligation struct {
	fn    *core.Fn
	in    ssa.Instruction
	kind  string // "index" | "reslice" | "var-index"
	need  int
	have  int
	ok    bool
	descr string
}

// obligations enumerates every index / reslice of an argument vector in fn.
func (a *argv) obligations(fn *core.Fn) []argvObligation {
	var out []argvObligation
	for _, sf := range core.AllSSA(fn.SSA) {
		core.Instrs(sf, func(in ssa.Instruction) {
			switch x := in.(type) {
			case *ssa.IndexAddr:
				if !isArgvType(x.X.Type()) {
					return
				}
				if k, ok := x.Index.(*ssa.Const); ok {
					need := int(k.Int64()) + 1
					have := a.L(x.X, x.Block())
					out = append(out, argvObligation{fn, in, "index", need, have, have >= need, fmt.Sprintf("[%d]", need-1)})
				} else {
					ok := a.indexGuarded(x.Index, x.X, x.Block())
					out = append(out, argvObligation{fn, in, "var-index", 0, 0, ok, "[i]"})
				}
			case *ssa.Slice:
				if !isArgvType(x.X.Type()) {
					return
				}
				if x.Low == nil && x.High == nil {
					return
				}
				if x.High != nil || x.Max != nil {
					out = append(out, argvObligation{fn, in, "reslice", 0, 0, false, "[lo:hi] (upper bounds are not analysed)"})
					return
				}
				k, ok := x.Low.(*ssa.Const)
				if !ok {
					out = append(out, argvObligation{fn, in, "reslice", 0, 0, false, "[i:] with a variable bound"})
					return
				}
				need := int(k.Int64())
				have := a.L(x.X, x.Block())
				out = append(out, argvObligation{fn, in, "reslice", need, have, have >= need, fmt.Sprintf("[%d:]", need)})
			}
		})
	}
	sort.SliceStable(out, func(i, j int) bool { return out[i].in.Pos() < out[j].in.Pos() })
	return out
}

// indexGuarded: a dominating condition "i < len(v)" (or equivalent) holds at b.
func (a *argv) indexGuarded(i, v ssa.Value, b *ssa.BasicBlock) bool {
	key := a.canon(v)
	for _, c := range a.conditions(b) {
		bin, ok := c.Val.(*ssa.BinOp)
		if !ok {
			continue
		}
		op := bin.Op
		var other ssa.Value
		if l := lenArg(bin.Y); l != nil && a.canon(l) == key {
			other = bin.X
		} else if l := lenArg(bin.X); l != nil && a.canon(l) == key {
			other = bin.Y
			op = flip(op)
		} else {
			continue
		}
		if !sameIndexExpr(other, i, 0) {
			continue
		}
		// "i op len"
		if op == token.LSS && c.Truth || op == token.GEQ && !c.Truth {
			return true
		}
	}
	return false
}

// loopProgress checks every loop whose continuation depends on len(x) for a [][]byte x:
// each back edge must carry x through a reslice with a constant low bound >= 1.
func (a *argv) loopProgress(fn *core.Fn, report func(phi *ssa.Phi, ok bool, why string)) {
	for _, sf := range core.AllSSA(fn.SSA) {
		for _, b := range sf.Blocks {
			for _, in := range b.Instrs {
				phi, ok := in.(*ssa.Phi)
				if !ok {
					break
				}
				if !isArgvType(phi.Type()) {
					continue
				}
				back := false
				for _, p := range b.Preds {
					if b.Dominates(p) {
						back = true
					}
				}
				if !back || !a.loopTestsLen(phi) {
					continue
				}
				okAll := true
				why := "every back edge reslices the vector by at least one element"
				for i, e := range phi.Edges {
					if !b.Dominates(b.Preds[i]) {
						continue
					}
					if !shrinks(e, phi, map[ssa.Value]bool{}) {
						okAll = false
						why = fmt.Sprintf("the back edge from block %d carries the vector unchanged: an input that reaches it makes the loop spin forever", b.Preds[i].Index)
					}
				}
				report(phi, okAll, why)
			}
		}
	}
}

func (a *argv) loopTestsLen(phi *ssa.Phi) bool {
	for _, ref := range *phi.Referrers() {
		c, ok := ref.(*ssa.Call)
		if !ok {
			continue
		}
		if lenArg(c) != ssa.Value(phi) {
			continue
		}
		for _, r2 := range *c.Referrers() {
			if bin, ok := r2.(*ssa.BinOp); ok && core.IsCompare(bin.Op) {
				for _, r3 := range *bin.Referrers() {
					if _, ok := r3.(*ssa.If); ok {
						return true
					}
				}
			}
		}
	}
	return false
}

func shrinks(v ssa.Value, root *ssa.Phi, seen map[ssa.Value]bool) bool {
	if seen[v] {
		return true
	}
	seen[v] = true
	switch x := v.(type) {
	case *ssa.Slice:
		if k, ok := x.Low.(*ssa.Const); ok && k.Int64() >= 1 && x.High == nil {
			return true
		}
		return false
	case *ssa.Phi:
		if x == root {
			return false
		}
		for _, e := range x.Edges {
			if !shrinks(e, root, seen) {
				return false
			}
		}
		return true
	}
	return false
}

// sameIndexExpr: the same SSA value, or two evaluations of one expression x ± c over the
// same x (go/ssa does not share them).
func sameIndexExpr(a, b ssa.Value, depth int) bool {
	if a == b {
		return true
	}
	if depth > 2 {
		return false
	}
	ba, ok1 := a.(*ssa.BinOp)
	bb, ok2 := b.(*ssa.BinOp)
	if !ok1 || !ok2 || ba.Op != bb.Op || (ba.Op != token.ADD && ba.Op != token.SUB) {
		return false
	}
	ka, ok1 := ba.Y.(*ssa.Const)
	kb, ok2 := bb.Y.(*ssa.Const)
	if !ok1 || !ok2 || ka.Value == nil || kb.Value == nil || ka.Int64() != kb.Int64() {
		return false
	}
	return sameIndexExpr(ba.X, bb.X, depth+1)
}
