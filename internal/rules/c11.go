package rules

import "olricvet/internal/core"

func init() {
	register(&Property{
		ID: "C11",
		Explain: "Static structural necessary conditions of 'the storage engine behaves as a map': " +
			"(insert-into-writable-head) Put and PutRaw insert into the last table only after makeTable ran or after its state was found to be ReadWriteState: a recycled table left last by a transfer is not registered for scans and is skipped by Export; " +
			"(single-live-version) from every insert into the head table, each path to a success return of KVStore.Put/PutRaw passes a loop over tables[0..len-2] that retires the key (so at most one live version exists per store, and the retire step follows the insert that may roll over to a new table); " +
			"(lookup-covers-all-tables, lookup-visits-every-table) Get/GetRaw/GetTTL/GetLastAccess/GetKey/Delete/UpdateTTL/Check/Stats/Range/RangeHKey loop over tables[0..len-1] and ask every table in every iteration; " +
			"(index-insert-retires-old) every write of Table.hkeys[hkey] is dominated by Table.Delete(hkey) of the same key; " +
			"(delete-pairing) Table.Delete removes the index entry, the scan-index offset, and moves the same n bytes from inuse to garbage on every success path; " +
			"(compaction-source-not-destination) evictTable is called only on tables that are not in ReadWriteState and deletes from the source only after a nil PutRaw; " +
			"(scan-index-registration) every table appended to the store is registered and, when reused, writable again; unregistering never uses a recycled table's zeroed coefficient; " +
			"(size-boundary-agreement) every entry the store accepts fits an empty table; " +
			"(import-error-propagates) the merge callback's error is returned by Import; " +
			"(layout-agreement) shared with C17. " +
			"NOT decided: functional equality with a reference map over arbitrary operation histories, bounded completion of compaction.",
		Run: func(r *core.Run) {
			kvSingleLiveVersion(r)
			kvLookupCoversAllTables(r)
			kvLookupVisitsEveryTable(r)
			tableInsertRetiresOld(r)
			tableDeletePairing(r)
			kvCompactionSourceNotHead(r)
			kvScanIndexRegistration(r)
			kvOldHeadReadOnly(r)
			kvSizeBoundaryAgreement(r)
			kvImportPropagates(r)
			c17Pack(r)
			compactionShape(r)
			kvPutGrowsStore(r)
			kvInsertIntoWritableHead(r)
			kvEntrySizeFormula(r)
			c11TableWritesWholeHeader(r)
			c11IdleTableRemovedByItsOwnIndex(r)
			c12ResumeRestartsNextTable(r)
			engineBuiltFromEffectiveConfig(r, "engine-built-from-effective-config")
		},
	})
}
