package rules

import (
	"fmt"
	"go/ast"
	"go/types"
	"sort"
	"strings"

	"golang.org/x/tools/go/ssa"

	"olricvet/internal/core"
)

func init() {
	register(&Property{
		ID: "C16",
		Explain: "Static structural necessary conditions of 'no request can crash or wedge a member', decided for every argument vector at once: " +
			"(argv-bounds) abstract interpretation of a lower bound on the length of every [][]byte value derived from redcon.Command.Args (entry assumption len >= 1; reslices, phis, branch refinement, parameters bound over all call sites): every constant index and reslice is within the bound established on every path, every variable index is dominated by i < len; " +
			"(parser-loop-progress) every loop whose continuation tests the vector's length reslices it on every back edge; " +
			"(parse-result-guarded) in every function the pointer result of a protocol.Parse*/getOrCreateDMap/getDMap call is used only on the nil-error edge; " +
			"(partition-id-validated) every argument of PartitionByID (which returns nil for unknown ids) is a loop variable bounded by PartitionCount, or compared with PartitionCount on a dominating edge (directly, through a validating helper whose success returns are all guarded, or as the key of a collection validated as a whole), or a parameter all of whose callers do so; " +
			"(divisor-guard) integer divisions by a run-time quantity are dominated by a zero test; " +
			"(handler-registry) command names are registered once, none under the bare name 'pubsub'; " +
			"(explicit-panics) panics reachable from a request handler are confined to a reasoned table; " +
			"(routing-payload-validated) a pushed routing table is applied only after every route was checked to have an owner (Partition.Owner panics on an empty list); " +
			"(alloc-size-bounded) slice allocations in handler-reachable code take their size from constants or lengths of existing data, never from an unbounded request value; " +
			"(subscriber-loop-exits-on-read-error) the detached subscriber loop ends when reading a command fails; " +
			"(locks-released) every sync.Mutex/RWMutex taken in a function of the repository is released by a deferred unlock or on every path to every return (a lock wrapper that never unlocks is not judged); " +
			"(ticker-period-positive) time.NewTicker/Tick periods are positive constants, configuration fields, or tested positive; " +
			"(semaphore-released) a semaphore slot acquired in a background pass is released or handed to a worker that releases it on every way to the next iteration; " +
			"(no-self-request-under-lock) the walks over the primary owners list that send an entry request while the fragment lock is held skip this member itself (its own handler would wait for that lock until the client times out; background eviction runs on previous owners too); " +
			"(size-boundary-agreement) shared with C11: an entry exactly as large as a table is rejected instead of making Put spin. " +
			"NOT decided: malformed payloads inside arguments (msgpack tables, encoded entries), memory exhaustion, by-design blocking (DM.LOCK deadline), socket-level byte streams (redcon's parser is outside the repository).",
		Assume: []string{
			"redcon never delivers a command with an empty argument vector (multibulk count <= 0 is a protocol error; inline commands are appended only when non-empty) and has no recover() around handlers",
		},
		Run: checkC16,
	})
}

func checkC16(r *core.Run) {
	c16Argv(r)
	c07LockSections(r)
	c16ParseGuard(r)
	c16PartID(r)
	c16Divisors(r)
	c16Registry(r)
	c16Panics(r)
	c16RoutingPayload(r)
	c16AllocSizes(r)
	c16SubscriberLoop(r)
	c16ParseErrorsChecked(r)
	c16NoSelfRequestUnderLock(r)
	c16LocksReleased(r)
	c16TickerPeriod(r)
	c16GlobalMapsSynchronised(r)
	c17SizeBoundaries(r)
	semaphoreReleased(r, "semaphore-released")
	kvSizeBoundaryAgreement(r)
}

func c16Argv(r *core.Run) {
	p := r.P
	a := newArgv(p)
	total := 0
	hs := handlers(p)
	bareOK := true
	for _, h := range hs {
		if h.Name == "pubsub" {
			bareOK = false
		}
	}
	for _, fn := range p.FuncList {
		if fn.SSA == nil || skipPkg(fn) {
			continue
		}
		obls := a.obligations(fn)
		if len(obls) == 0 {
			continue
		}
		r.FuncsSeen[fn.Name] = true
		n := counter{}
		for _, o := range obls {
			total++
			key := n.next(fn.Name + " argv" + o.descr)
			where := site(r, instrPos(o.in))
			if o.ok {
				if o.kind == "var-index" {
					r.OK("argv-bounds", key, where, "variable index dominated by i < len(vector)")
				} else {
					r.OK("argv-bounds", key, where, fmt.Sprintf("needs len >= %d, established lower bound %d on every path", o.need, o.have))
				}
				continue
			}
			// the one reasoned exception (DESIGN A.5)
			if fn.Name == "internal/server.(Handler).ServeRESP" && o.descr == "[1]" && pubsubGuard(o.in) {
				if bareOK {
					r.Except("argv-bounds", key, where, "reached with command == \"pubsub\" only through the mux's second dispatch, which follows its own len < 2 test; side condition checked: no handler is registered under the bare name \"pubsub\"")
				} else {
					r.Bad("argv-bounds", key, where, "a handler is registered under the bare name \"pubsub\", so the wrapper can be entered with a one-element vector and cmd.Args[1] panics")
				}
				continue
			}
			if o.kind == "var-index" {
				r.Bad("argv-bounds", key, where, "variable index into the argument vector without a dominating i < len(vector) test: index out of range panic kills the member")
			} else if o.need == 0 {
				r.Bad("argv-bounds", key, where, "reslice of the argument vector "+o.descr+" cannot be bounded")
			} else {
				r.Bad("argv-bounds", key, where, fmt.Sprintf("needs len >= %d but only len >= %d is established on some path to this point: a short request panics with index out of range and kills the member (redcon has no recover)", o.need, o.have))
			}
		}
		a.loopProgress(fn, func(phi *ssa.Phi, ok bool, why string) {
			key := fn.Name + " loop over " + phi.Comment
			r.Check(ok, "parser-loop-progress", key, site(r, instrPos(phi)), why, why)
		})
	}
	r.Floor("argv-bounds", total, 100)
}

func skipPkg(fn *core.Fn) bool {
	rel := core.RelPkg(fn.Pkg.PkgPath)
	return strings.HasPrefix(rel, "internal/test") || strings.HasPrefix(rel, "cmd/")
}

// pubsubGuard: the instruction sits on the true edge of command == "pubsub" (either case).
func pubsubGuard(in ssa.Instruction) bool {
	// The guard is `command == "pubsub" || command == "PUBSUB"`: the block has two
	// predecessors, each ending in an If comparing a string with a "pubsub" constant.
	b := in.Block()
	if len(b.Preds) == 0 {
		return false
	}
	check := func(pb *ssa.BasicBlock) bool {
		if len(pb.Instrs) == 0 {
			return false
		}
		ifi, ok := pb.Instrs[len(pb.Instrs)-1].(*ssa.If)
		if !ok || pb.Succs[0] != b {
			return false
		}
		bin, ok := ifi.Cond.(*ssa.BinOp)
		if !ok {
			return false
		}
		for _, v := range []ssa.Value{bin.X, bin.Y} {
			if k, ok := v.(*ssa.Const); ok && k.Value != nil && strings.EqualFold(strings.Trim(k.Value.ExactString(), `"`), "pubsub") {
				return true
			}
		}
		return false
	}
	for _, pb := range b.Preds {
		if !check(pb) {
			return false
		}
	}
	return true
}

// c16ParseGuard: pointer results of fallible lookups are only used where err == nil.
func c16ParseGuard(r *core.Run) {
	p := r.P
	total := 0
	isFallible := func(o *types.Func) bool {
		if o == nil || !core.IsRepoPkg(o.Pkg()) {
			return false
		}
		sig := o.Type().(*types.Signature)
		if sig.Results().Len() != 2 || !types.Identical(sig.Results().At(1).Type(), errType) {
			return false
		}
		if _, ok := sig.Results().At(0).Type().Underlying().(*types.Pointer); !ok {
			return false
		}
		rel := core.RelPkg(o.Pkg().Path())
		if rel == "internal/protocol" && strings.HasPrefix(o.Name(), "Parse") {
			return true
		}
		switch core.QualName(o) {
		case "internal/dmap.(*Service).getOrCreateDMap", "internal/dmap.(*Service).getDMap", "internal/dmap.(*Service).NewDMap":
			return true
		}
		return false
	}
	for _, fn := range p.FuncList {
		if fn.SSA == nil || skipPkg(fn) {
			continue
		}
		for _, sf := range core.AllSSA(fn.SSA) {
			n := counter{}
			core.Instrs(sf, func(in ssa.Instruction) {
				call, ok := in.(*ssa.Call)
				if !ok {
					return
				}
				o := core.CalleeObj(call)
				if !isFallible(o) {
					return
				}
				var ptr, errv *ssa.Extract
				for _, ref := range *call.Referrers() {
					if ex, ok := ref.(*ssa.Extract); ok {
						if ex.Index == 0 {
							ptr = ex
						} else {
							errv = ex
						}
					}
				}
				if ptr == nil {
					return
				}
				total++
				r.CallSites++
				key := n.next(fn.Name + " result of " + o.Name())
				where := site(r, instrPos(call))
				if errv == nil {
					// error discarded: every dereference is unguarded
					if derefs(ptr) {
						r.Bad("parse-result-guarded", key, where, "the error result is discarded and the pointer result is dereferenced")
					} else {
						r.OK("parse-result-guarded", key, where, "pointer result not dereferenced")
					}
					return
				}
				bad := ""
				for _, ref := range *ptr.Referrers() {
					if !isDeref(ref, ptr) {
						continue
					}
					if !nilErrAt(ref.Block(), errv) {
						bad = site(r, instrPos(ref))
						break
					}
				}
				r.Check(bad == "", "parse-result-guarded", key, where,
					"every dereference of the result lies on the nil-error edge",
					"the result is dereferenced at "+bad+" although the call may have failed (nil pointer): a malformed request panics the member")
			})
		}
	}
	r.Floor("parse-result-guarded", total, 40)
}

func isDeref(ref ssa.Instruction, ptr ssa.Value) bool {
	switch x := ref.(type) {
	case *ssa.FieldAddr:
		return x.X == ptr
	case *ssa.UnOp:
		return x.X == ptr
	case *ssa.Store:
		return x.Addr == ptr
	case ssa.CallInstruction:
		// method call with ptr receiver dereferences inside; count it
		c := x.Common()
		if !c.IsInvoke() && len(c.Args) > 0 && c.Args[0] == ptr && c.StaticCallee() != nil && c.StaticCallee().Signature.Recv() != nil {
			return true
		}
	}
	return false
}

func derefs(ptr ssa.Value) bool {
	for _, ref := range *ptr.Referrers() {
		if isDeref(ref, ptr) {
			return true
		}
	}
	return false
}

// nilErrAt: block b is reached only when the given error value is nil. The error may
// have been merged into a later phi (err = f(); if errors.Is(..) {err = X}) — then the
// phi must contain the original value and be tested.
func nilErrAt(b *ssa.BasicBlock, errv ssa.Value) bool {
	for _, c := range core.Conditions(b) {
		v, nonNil, ok := isErrNilTest(c)
		if !ok || nonNil {
			continue
		}
		if v == errv || phiContains(v, errv, map[ssa.Value]bool{}) {
			return true
		}
	}
	return false
}

func phiContains(v, target ssa.Value, seen map[ssa.Value]bool) bool {
	if v == target {
		return true
	}
	if seen[v] {
		return false
	}
	seen[v] = true
	if ph, ok := v.(*ssa.Phi); ok {
		for _, e := range ph.Edges {
			if phiContains(e, target, seen) {
				return true
			}
		}
	}
	return false
}

func c16Registry(r *core.Run) {
	hs := handlers(r.P)
	seen := map[string]string{}
	for _, h := range hs {
		r.CallSites++
		where := r.P.Pos(h.Site.Call.Pos())
		key := "registration " + h.Ref
		if h.Ref == "" {
			key = "registration at " + h.Site.Caller.Name + " of " + h.Name
		}
		switch {
		case h.Name == "":
			r.Bad("handler-registry", key, where, "the command name is not a non-empty entry of the protocol command tables (the mux panics on an empty name at start-up)")
		case seen[h.Name] != "":
			r.Bad("handler-registry", key, where, "the command name "+h.Name+" is registered twice (also at "+seen[h.Name]+"): the mux panics at start-up")
		case h.Handler == nil:
			r.Unknown("handler-registry", key, where, "the handler expression does not resolve to a repository function")
		default:
			seen[h.Name] = where
			r.OK("handler-registry", key, where, h.Name+" -> "+h.Handler.Name)
		}
	}
	r.Floor("handler-registry", len(hs), 32)
}

// c16Panics: explicit panic(...) calls reachable from request handlers.
func c16Panics(r *core.Run) {
	p := r.P
	var roots []*core.Fn
	for _, h := range handlers(p) {
		roots = append(roots, h.Handler)
	}
	roots = append(roots, p.Fn("internal/server.(*ServeMux).ServeRESP"), p.Fn("internal/server.(Handler).ServeRESP"))
	reach := reachable(p, roots)
	allowed := map[string]string{
		"internal/dmap.(*DMap).lookupOnOwners":                           "empty owners list: state invariant of a bootstrapped member (the precondition rejects requests before bootstrap), not a request value",
		"internal/dmap.(*DMap).getPartitionByHKey":                       "partition kind is a compile-time constant at every call site",
		"internal/dmap.(*DMap).deleteOnCluster":                          "empty owners list: state invariant of a bootstrapped member, not a request value",
		"internal/dmap.(*DMap).isKeyIdle":                                "loadFragment fails only with errFragmentNotFound (handled) or a foreign type stored under a dmap.* fragment name: state invariant",
		"internal/dmap.(*Service).scanFragmentForEviction":               "internal invariant of the eviction worker",
		"internal/kvstore/table.(*Table).Range":                          "index/lookup disagreement inside one table under the fragment lock: state invariant",
		"internal/cluster/partitions.(*Partition).Owner":                 "empty owners list: state invariant of a bootstrapped member",
		"internal/protocol.SetError":                                     "prefix collision is a start-up (init) condition",
		"internal/server.(*ServeMux).Handle":                             "registration-time validation, not reachable with request data",
		"internal/server.(*ServeMux).HandleFunc":                         "registration-time validation",
		"internal/server.(*ServeMuxWrapper).HandleFunc":                  "registration-time validation",
		"internal/cluster/routingtable.(*RoutingTable).fillRoutingTable": "coordinator-side invariant",
	}
	cnt := 0
	var fns []*core.Fn
	for fn := range reach {
		fns = append(fns, fn)
	}
	sort.Slice(fns, func(i, j int) bool { return fns[i].Name < fns[j].Name })
	for _, fn := range fns {
		if skipPkg(fn) {
			continue
		}
		n := counter{}
		core.WalkCalls(fn.Decl.Body, func(call *ast.CallExpr, _ *ast.FuncLit) {
			id, ok := core.Unparen(call.Fun).(*ast.Ident)
			if !ok || id.Name != "panic" {
				return
			}
			if _, ok := fn.Pkg.TypesInfo.Uses[id].(*types.Builtin); !ok {
				return
			}
			cnt++
			key := n.next("panic in " + fn.Name)
			if why, ok := allowed[fn.Name]; ok {
				r.Except("explicit-panics", key, r.P.Pos(call.Pos()), why)
			} else {
				r.Bad("explicit-panics", key, r.P.Pos(call.Pos()), "an explicit panic is reachable from a request handler and is not in the table of state-invariant panics: if a request value can steer execution here the member terminates")
			}
		})
	}
	r.Notes = append(r.Notes, fmt.Sprintf("functions reachable from handlers: %d; explicit panics among them: %d", len(reach), cnt))
}
