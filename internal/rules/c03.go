package rules

import (
	"golang.org/x/tools/go/ssa"

	"olricvet/internal/core"
)

const (
	fnMove         = dmapPkg + ".(*fragment).Move"
	fnMoveHandler  = dmapPkg + ".(*Service).moveFragmentCommandHandler"
	fnValidatePack = dmapPkg + ".(*Service).validateFragmentPack"
	fnMergeFrags   = dmapPkg + ".(*DMap).mergeFragments"
	fnMergeFunc    = dmapPkg + ".(*DMap).fragmentMergeFunction"
	fnCheckOwner   = dmapPkg + ".(*Service).checkOwnership"
)

func init() {
	register(&Property{
		ID: "C03",
		Explain: "Static structural necessary conditions of 'rebalancing neither loses, duplicates nor resurrects keys' (ordering of routing pushes vs moves, crashes mid-move and memberlist timing are NOT decided): " +
			"(drop-after-ack) in fragment.Move the table is dropped only after the loop over all target owners, and the failure edge of every send (Process error, error reply) leaves before Drop; " +
			"(move-is-atomic) Export, the sends and Drop happen in one write-lock region of the fragment; " +
			"(validate-before-merge) the receiver merges a fragment only after validateFragmentPack returned nil, whose success returns all lie behind the partition-id bound and the ownership check; " +
			"(merge-keeps-newer) shared with C06; " +
			"(previous-owners-walked) reads and deletes walk owners[0..len-2] of the unmodified primary owners list; " +
			"(import-error-propagates, single-live-version) shared with C11: a failed merge is reported to the sender, a migrated store holds one live version per key; " +
			"(insert-into-writable-head) shared with C11, C12, C20: a store whose tables were moved away puts its recycled table back into service before it accepts a write, so the entries remain exportable.",
		Run: func(r *core.Run) {
			c03DropAfterAck(r)
			c03MoveAtomic(r)
			c03ValidateBeforeMerge(r)
			c06Merge(r)
			c03PreviousOwners(r)
			balancerKeepsOwnCopies(r)
			kvImportPropagates(r)
			kvSingleLiveVersion(r)
			c17Pack(r)
			c10Idle(r)
			fragmentStatsTruthful(r)
			kvInsertIntoWritableHead(r)
			c06CollectedVersionsComplete(r)
			c06ReadRepairOnlyCurrentHolders(r)
		},
	})
}

func isIteratorCall(method string) instrPred {
	return func(in ssa.Instruction) bool {
		c, ok := in.(ssa.CallInstruction)
		if !ok {
			return false
		}
		m, _, _, ok := storageAccess(c)
		return ok && m == "TransferIterator()."+method
	}
}

func c03DropAfterAck(r *core.Run) {
	fn := r.Need("drop-after-ack", fnMove)
	if fn == nil {
		return
	}
	f := fn.SSA
	drop := isIteratorCall("Drop")
	drops := findInstrs(f, false, drop)
	r.Floor("drop-after-ack(Drop)", len(drops), 1)
	// the loop over the owners parameter
	var loop *core.IndexLoop
	for _, l := range core.IndexLoops(f) {
		if p, ok := l.LenOf.(*ssa.Parameter); ok && p.Name() == "owners" {
			loop = l
		}
	}
	if loop == nil {
		r.Unknown("drop-after-ack", fnMove+" loop over owners", site(r, f.Pos()), "no counting loop over the owners parameter recognised")
	} else {
		r.Check(loop.Lo == 0 && loop.HiOff == 1, "drop-after-ack", fnMove+" loop over owners", site(r, instrPos(loop.Phi)),
			"every target owner is sent the table", "some target owners are not sent the table before it is dropped")
		for _, d := range drops {
			inLoop := loop.Region()[d.Block()] && d.Block() != loop.Header
			r.Check(!inLoop && loop.Header.Dominates(d.Block()), "drop-after-ack", fnMove+" Drop after the loop", site(r, instrPos(d)),
				"Drop is executed after the loop over all targets", "Drop is executed inside (or before) the loop over the targets: the table is dropped before every target has acknowledged it")
		}
	}
	n1 := errorEdgesLeaveBefore(r, "drop-after-ack", fn, callTo(fnRedisProcess), "Process (send to a target)", drop, "Drop",
		"the sender drops a table whose transfer failed: the keys of that table exist nowhere any more")
	n2 := errorEdgesLeaveBefore(r, "drop-after-ack", fn, callNamed("Err"), "cmd.Err() (target's reply)", drop, "Drop",
		"the sender drops a table the target refused (e.g. not the owner any more): the keys of that table exist nowhere any more")
	r.Floor("drop-after-ack(error edges)", n1+n2, 2)
	// Export's error also leaves before the sends
	errorEdgesLeaveBefore(r, "drop-after-ack", fn, isIteratorCall("Export"), "Export", drop, "Drop", "a failed export is followed by Drop")
}

func c03MoveAtomic(r *core.Run) {
	fn := r.Need("move-is-atomic", fnMove)
	if fn == nil {
		return
	}
	la := newLockAnalysis(r)
	cnt := 0
	n := counter{}
	send := viaHelpers(r.P, fn.SSA, callTo(fnRedisProcess))
	la.flow(fn.SSA, lkNone, func(in ssa.Instruction, st int) {
		what := ""
		switch {
		case isIteratorCall("Export")(in):
			what = "Export"
		case isIteratorCall("Drop")(in):
			what = "Drop"
		case send(in):
			what = "send"
		}
		if what == "" {
			return
		}
		cnt++
		r.Check(st == lkWrite, "move-is-atomic", n.next(fnMove+" "+what), site(r, instrPos(in)),
			"under the fragment write lock", "not under the fragment write lock: a write can slip between export and drop and is lost with the dropped table")
	})
	r.Floor("move-is-atomic", cnt, 3)
}

func c03ValidateBeforeMerge(r *core.Run) {
	p := r.P
	if fn := r.Need("validate-before-merge", fnMoveHandler); fn != nil {
		calls := findInstrs(fn.SSA, false, callTo(fnMergeFrags))
		r.Floor("validate-before-merge(merge call)", len(calls), 1)
		for _, c := range calls {
			r.Check(underNilErrOf(p, c.Block(), fnValidatePack), "validate-before-merge", fnMoveHandler+" -> mergeFragments", site(r, instrPos(c)),
				"reached only with a nil validateFragmentPack", "a received fragment is merged without (successful) validation: a member that is not an owner of the partition keeps a copy nobody reads or deletes, or a stale sender overwrites the owner")
		}
	}
	if fn := r.Need("validate-before-merge", fnValidatePack); fn != nil {
		f := fn.SSA
		pt := passThrough(p)
		n := counter{}
		for _, ret := range core.Returns(f) {
			if !core.SuccessCapable(ret, pt) {
				continue
			}
			key := n.next(fnValidatePack + " success return")
			idOK, ownOK := false, false
			for _, cd := range core.Conditions(ret.Block()) {
				if call, ok := cd.Val.(*ssa.Call); ok && cd.Truth {
					if o := core.CalleeObj(call); o != nil && core.QualName(o) == fnCheckOwner {
						ownOK = true
					}
				}
			}
			// id bound: fp.PartID < PartitionCount on this path
			var fpParam ssa.Value
			if len(f.Params) == 2 {
				fpParam = f.Params[1]
			}
			core.Instrs(f, func(in ssa.Instruction) {
				if u, ok := in.(*ssa.UnOp); ok {
					if k, isK := idKey(u).(fieldKey); isK && k.base == fpParam && core.LastField(u) == "PartID" {
						if ltPC(u, ret.Block()) {
							idOK = true
						}
					}
				}
			})
			r.Check(idOK && ownOK, "validate-before-merge", key, site(r, instrPos(ret)),
				"behind PartID < PartitionCount and checkOwnership(part) == true", "validation can succeed without the partition-id bound or without the ownership check")
		}
	}
	if fn := r.Need("validate-before-merge", fnCheckOwner); fn != nil {
		// returns true only under owner.CompareByID(This())
		ok := true
		for _, ret := range core.Returns(fn.SSA) {
			k, isK := core.ResultValue(ret, 0).(*ssa.Const)
			if isK && k.Value != nil && k.Value.String() == "false" {
				continue
			}
			if !underOwnerGuard(p, ret.Block()) {
				ok = false
			}
		}
		r.Check(ok, "validate-before-merge", fnCheckOwner, site(r, fn.SSA.Pos()), "true only when some owner of the partition is this member", "checkOwnership can report true for a partition this member does not own")
	}
}

func c03PreviousOwners(r *core.Run) {
	if h := r.Need("previous-owners-walked", fnLookupOwners); h != nil {
		previousOwnersLoop(r, "previous-owners-walked", h, callTo(dmapPkg+".(*DMap).lookupOnPreviousOwner"), "lookupOnPreviousOwner")
	}
	if h := r.Need("previous-owners-walked", fnDelPrev); h != nil {
		previousOwnersLoop(r, "previous-owners-walked", h, callTo(fnRedisProcess), "Process")
	}
	// deleteOnCluster hands the unmodified owners list to deleteFromPreviousOwners
	if fn := r.Need("previous-owners-walked", fnDeleteOnClu); fn != nil {
		calls := findInstrs(fn.SSA, false, callTo(fnDelPrev))
		r.Floor("previous-owners-walked(deleteOnCluster)", len(calls), 1)
		for _, c := range calls {
			args := c.(ssa.CallInstruction).Common().Args
			v := args[len(args)-1]
			ok := false
			if call, isCall := v.(*ssa.Call); isCall {
				if o := core.CalleeObj(call); o != nil && core.QualName(o) == fnOwnersByHKey && core.LastField(call.Call.Args[0]) == "primary" {
					ok = true
				}
			}
			r.Check(ok, "previous-owners-walked", fnDeleteOnClu+" owners argument", site(r, instrPos(c)),
				"deleteFromPreviousOwners receives the complete primary owners list (it skips the last element itself)",
				"deleteFromPreviousOwners receives something other than the complete primary owners list (e.g. a reslice): together with its own len-2 start the most recent previous owner is never contacted and keeps the deleted key")
		}
	}
}
