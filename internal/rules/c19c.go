package rules

import (
	"go/token"
	"go/types"

	"golang.org/x/tools/go/ssa"

	"olricvet/internal/core"
)

const fnPutCmdsIntoPool = "olric.putPipelineCmdsIntoPool"

// pipelineField: v is (an element of) a map held in a field of the pipeline; returns the
// field name. Recognised: the value of `for _, v := range dp.F`, and dp.F[k].
func pipelineField(v ssa.Value) string {
	for i := 0; i < 6; i++ {
		switch x := v.(type) {
		case *ssa.Extract:
			v = x.Tuple
		case *ssa.Next:
			v = x.Iter
		case *ssa.Range:
			v = x.X
		case *ssa.Lookup:
			v = x.X
		case *ssa.UnOp:
			if x.Op != token.MUL {
				return ""
			}
			if fa, ok := x.X.(*ssa.FieldAddr); ok {
				if _, isMap := deref(fa.Type()).Underlying().(*types.Map); isMap {
					return core.LastField(fa)
				}
			}
			return ""
		default:
			return ""
		}
	}
	return ""
}

// c19PooledCommandsReleasedOnce: the command slices of a pipeline come from one process
// wide pool shared by the pipelines of every DMap. A slice handed back to the pool while
// the pipeline's map still refers to it is handed back a second time by the next
// Discard; the pool then gives the same backing array to two pipelines, and the commands
// queued for one DMap are sent (or overwritten) through the other.
//
// Rule: whenever a function returns an element of a pipeline map field to the pool, every
// way on to a return passes something that empties that field (delete in a loop over it,
// clear, or a fresh map).
func c19PooledCommandsReleasedOnce(r *core.Run) {
	const rule = "pooled-commands-released-once"
	p := r.P
	put := r.Need(rule, fnPutCmdsIntoPool)
	if put == nil {
		return
	}
	n := counter{}
	sites := 0
	seen := map[*core.Fn]bool{}
	for _, cs := range p.CallersOf(put.Obj) {
		caller := cs.Caller
		if caller.SSA == nil || skipPkg(caller) || seen[caller] {
			continue
		}
		seen[caller] = true
		for _, f := range core.AllSSA(caller.SSA) {
			for _, in := range findInstrs(f, false, callTo(fnPutCmdsIntoPool)) {
				c := in.(ssa.CallInstruction).Common()
				if len(c.Args) != 1 {
					continue
				}
				field := pipelineField(c.Args[0])
				if field == "" {
					continue
				}
				sites++
				empties := func(x ssa.Instruction) bool {
					switch y := x.(type) {
					case *ssa.Store:
						return core.LastField(y.Addr) == field
					case *ssa.Range:
						// a loop over the same field whose body deletes from it
						if pipelineField(y) != field {
							return false
						}
						for _, d := range findInstrs(f, false, func(z ssa.Instruction) bool {
							dc, ok := z.(*ssa.Call)
							if !ok {
								return false
							}
							b, ok := dc.Call.Value.(*ssa.Builtin)
							return ok && b.Name() == "delete" && len(dc.Call.Args) > 0 && pipelineField(dc.Call.Args[0]) == field
						}) {
							if y.Block().Dominates(d.Block()) {
								return true
							}
						}
						return false
					case *ssa.Call:
						if b, ok := y.Call.Value.(*ssa.Builtin); ok && b.Name() == "clear" && len(y.Call.Args) > 0 {
							return pipelineField(y.Call.Args[0]) == field
						}
					}
					return false
				}
				avoid := map[*ssa.BasicBlock]bool{}
				for _, b := range f.Blocks {
					for _, x := range b.Instrs {
						if empties(x) {
							avoid[b] = true
						}
					}
				}
				isReturn := func(x ssa.Instruction) bool { _, ok := x.(*ssa.Return); return ok }
				leak := !avoid[in.Block()] && reachesInstrAvoiding(in.Block(), isReturn, avoid)
				r.Check(!leak, rule, n.next(fnName(p, f)+" returns "+field+" slices to the pool"), site(r, instrPos(in)),
					"the pipeline forgets the slices (the map is emptied) before the function returns",
					"a command slice of dp."+field+" is handed back to the shared pool while the pipeline keeps referring to it: the next Discard hands it back a second time, two pipelines (of any DMaps) then build their commands in the same backing array")
			}
		}
	}
	r.Floor(rule, sites, 2)
}
