package rules

import (
	"go/ast"
	"go/types"
	"sort"

	"olricvet/internal/core"
)

// Anchors discovered from the repository itself (DESIGN §2.3).

// commandNames reads the command-name tables of internal/protocol: package-level
// variables initialised with &T{Field: "name", ...}. Key: "DMap.Put" -> "dm.put".
func commandNames(p *core.Prog) map[string]string {
	out := map[string]string{}
	pkg := p.Pkg("internal/protocol")
	if pkg == nil {
		return out
	}
	for _, f := range pkg.Syntax {
		for _, d := range f.Decls {
			gd, ok := d.(*ast.GenDecl)
			if !ok {
				continue
			}
			for _, s := range gd.Specs {
				vs, ok := s.(*ast.ValueSpec)
				if !ok || len(vs.Names) != 1 || len(vs.Values) != 1 {
					continue
				}
				e := core.Unparen(vs.Values[0])
				if u, ok := e.(*ast.UnaryExpr); ok {
					e = core.Unparen(u.X)
				}
				cl, ok := e.(*ast.CompositeLit)
				if !ok {
					continue
				}
				for _, el := range cl.Elts {
					kv, ok := el.(*ast.KeyValueExpr)
					if !ok {
						continue
					}
					k, ok := kv.Key.(*ast.Ident)
					if !ok {
						continue
					}
					if s, ok := core.ConstString(pkg, kv.Value); ok {
						out[vs.Names[0].Name+"."+k.Name] = s
					}
				}
			}
		}
	}
	return out
}

// commandRef resolves an expression such as protocol.DMap.Put to its table key
// ("DMap.Put"); "" if the expression is not a reference to a command-name table.
func commandRef(fn *core.Fn, e ast.Expr) string {
	se, ok := core.Unparen(e).(*ast.SelectorExpr)
	if !ok {
		return ""
	}
	fld := core.SelectorField(fn.Pkg, se)
	if fld == nil {
		return ""
	}
	var base *ast.Ident
	switch x := core.Unparen(se.X).(type) {
	case *ast.SelectorExpr:
		base = x.Sel
	case *ast.Ident:
		base = x
	}
	if base == nil {
		return ""
	}
	v, ok := fn.Pkg.TypesInfo.Uses[base].(*types.Var)
	if !ok || v.Pkg() == nil || core.RelPkg(v.Pkg().Path()) != "internal/protocol" {
		return ""
	}
	return v.Name() + "." + fld.Name()
}

type handlerReg struct {
	Ref     string // "DMap.Put"
	Name    string // "dm.put"
	Handler *core.Fn
	Site    core.CallSite
}

// handlers lists the registrations made through (*ServeMuxWrapper).HandleFunc.
func handlers(p *core.Prog) []handlerReg {
	hf := p.Fn("internal/server.(*ServeMuxWrapper).HandleFunc")
	if hf == nil {
		return nil
	}
	names := commandNames(p)
	var out []handlerReg
	for _, cs := range p.CallersOf(hf.Obj) {
		if len(cs.Call.Args) != 2 {
			continue
		}
		reg := handlerReg{Site: cs}
		reg.Ref = commandRef(cs.Caller, cs.Call.Args[0])
		if reg.Ref != "" {
			reg.Name = names[reg.Ref]
		} else if s, ok := core.ConstString(cs.Caller.Pkg, cs.Call.Args[0]); ok {
			reg.Name = s
		}
		// handler: a method value s.fooCommandHandler or a function
		switch h := core.Unparen(cs.Call.Args[1]).(type) {
		case *ast.SelectorExpr:
			if sel := cs.Caller.Pkg.TypesInfo.Selections[h]; sel != nil {
				if f, ok := sel.Obj().(*types.Func); ok {
					reg.Handler = p.ByObj[f]
				}
			} else if f, ok := cs.Caller.Pkg.TypesInfo.Uses[h.Sel].(*types.Func); ok {
				reg.Handler = p.ByObj[f]
			}
		case *ast.Ident:
			if f, ok := cs.Caller.Pkg.TypesInfo.Uses[h].(*types.Func); ok {
				reg.Handler = p.ByObj[f]
			}
		}
		out = append(out, reg)
	}
	sort.Slice(out, func(i, j int) bool { return out[i].Name < out[j].Name })
	return out
}

// reachable returns the repository functions reachable from the roots over static
// calls (method values and function literals are followed; interface calls are resolved
// to every repository implementation of the method).
func reachable(p *core.Prog, roots []*core.Fn) map[*core.Fn]bool {
	seen := map[*core.Fn]bool{}
	var work []*core.Fn
	for _, r := range roots {
		if r != nil && !seen[r] {
			seen[r] = true
			work = append(work, r)
		}
	}
	impls := implIndex(p)
	for len(work) > 0 {
		fn := work[0]
		work = work[1:]
		add := func(o *types.Func) {
			if o == nil {
				return
			}
			if g := p.ByObj[o]; g != nil && !seen[g] {
				seen[g] = true
				work = append(work, g)
			}
			for _, m := range impls[o] {
				if g := p.ByObj[m]; g != nil && !seen[g] {
					seen[g] = true
					work = append(work, g)
				}
			}
		}
		ast.Inspect(fn.Decl.Body, func(n ast.Node) bool {
			switch x := n.(type) {
			case *ast.CallExpr:
				add(core.Callee(fn.Pkg, x))
			case *ast.SelectorExpr:
				// method values used as callbacks
				if sel := fn.Pkg.TypesInfo.Selections[x]; sel != nil && sel.Kind() == types.MethodVal {
					if f, ok := sel.Obj().(*types.Func); ok {
						add(f)
					}
				}
			case *ast.Ident:
				if f, ok := fn.Pkg.TypesInfo.Uses[x].(*types.Func); ok {
					add(f)
				}
			}
			return true
		})
	}
	return seen
}

var implCache = map[*core.Prog]map[*types.Func][]*types.Func{}

// implIndex maps each interface method declared or used in the repository to the
// repository's concrete methods that implement it.
func implIndex(p *core.Prog) map[*types.Func][]*types.Func {
	if m, ok := implCache[p]; ok {
		return m
	}
	out := map[*types.Func][]*types.Func{}
	// collect interface types: all named interfaces of repository packages plus
	// redcon.Handler-like ones are not needed (handlers are discovered separately).
	var ifaces []*types.Named
	var concretes []types.Type
	for _, pk := range p.Pkgs {
		sc := pk.Types.Scope()
		for _, n := range sc.Names() {
			tn, ok := sc.Lookup(n).(*types.TypeName)
			if !ok || tn.IsAlias() {
				continue
			}
			nt, ok := tn.Type().(*types.Named)
			if !ok || nt.TypeParams().Len() > 0 {
				continue
			}
			if _, ok := nt.Underlying().(*types.Interface); ok {
				ifaces = append(ifaces, nt)
			} else {
				concretes = append(concretes, nt)
			}
		}
	}
	for _, it := range ifaces {
		iface := it.Underlying().(*types.Interface)
		for _, ct := range concretes {
			for _, t := range []types.Type{ct, types.NewPointer(ct)} {
				if !types.Implements(t, iface) {
					continue
				}
				ms := types.NewMethodSet(t)
				for i := 0; i < iface.NumMethods(); i++ {
					im := iface.Method(i)
					if sel := ms.Lookup(im.Pkg(), im.Name()); sel != nil {
						if cf, ok := sel.Obj().(*types.Func); ok {
							dup := false
							for _, e := range out[im] {
								if e == cf {
									dup = true
								}
							}
							if !dup {
								out[im] = append(out[im], cf)
							}
						}
					}
				}
				break
			}
		}
	}
	implCache[p] = out
	return out
}
