package rules

import (
	"golang.org/x/tools/go/ssa"

	"olricvet/internal/core"
)

// fragmentCreateAtomic: a partition's fragment map is a sync.Map, but "look the fragment
// up, create it if absent, store it" is a check-then-act sequence that sync.Map does not
// make atomic. Two writers that both find no fragment would each create one; the second
// Store replaces the first, and the first writer's Put lands in an orphaned fragment
// while its replica went to the backups: an acknowledged write whose primary copy is
// gone. Every Store into a partition's fragment map must therefore sit, together with the
// Load that precedes it, in a section of the partition's own mutex that is released only
// by a deferred Unlock.
func fragmentCreateAtomic(r *core.Run) {
	const rule = "fragment-create-atomic"
	p := r.P
	isPartMapOp := func(in ssa.Instruction, method string) bool {
		c, ok := in.(ssa.CallInstruction)
		if !ok {
			return false
		}
		o := core.CalleeObj(c)
		if o == nil || core.QualName(o) != "sync.(*Map)."+method || len(c.Common().Args) == 0 {
			return false
		}
		m, isCall := c.Common().Args[0].(*ssa.Call)
		if !isCall {
			return false
		}
		mo := core.CalleeObj(m)
		return mo != nil && core.QualName(mo) == "internal/cluster/partitions.(*Partition).Map"
	}
	isPartMutex := func(in ssa.Instruction, method string) bool {
		c, ok := in.(ssa.CallInstruction)
		if !ok {
			return false
		}
		o := core.CalleeObj(c)
		if o == nil || core.QualName(o) != "sync.(*RWMutex)."+method || len(c.Common().Args) == 0 {
			return false
		}
		fa, isFA := c.Common().Args[0].(*ssa.FieldAddr)
		if !isFA {
			return false
		}
		t := deref(fa.X.Type())
		return t != nil && t.String() == core.Module+"/internal/cluster/partitions.Partition"
	}
	cnt := 0
	n := counter{}
	for _, fn := range p.FuncList {
		if fn.SSA == nil || core.RelPkg(fn.Pkg.PkgPath) != dmapPkg {
			continue
		}
		for _, sf := range core.AllSSA(fn.SSA) {
			var stores, loads, locks []ssa.Instruction
			explicitUnlock := false
			core.Instrs(sf, func(in ssa.Instruction) {
				if in.Parent() != sf {
					return
				}
				switch {
				case isPartMapOp(in, "Store"), isPartMapOp(in, "LoadOrStore"):
					stores = append(stores, in)
				case isPartMapOp(in, "Load"):
					loads = append(loads, in)
				case isPartMutex(in, "Lock"):
					if _, isDefer := in.(*ssa.Defer); !isDefer {
						locks = append(locks, in)
					}
				case isPartMutex(in, "Unlock"):
					if _, isDefer := in.(*ssa.Defer); !isDefer {
						explicitUnlock = true
					}
				}
			})
			for _, st := range stores {
				cnt++
				key := n.next(fnName(p, sf) + " fragment map Store")
				ok := len(locks) > 0 && !explicitUnlock
				for _, x := range append([]ssa.Instruction{st}, loads...) {
					dominated := false
					for _, l := range locks {
						if core.Dominates(l, x) {
							dominated = true
						}
					}
					if !dominated {
						ok = false
					}
				}
				r.Check(ok, rule, key, site(r, instrPos(st)),
					"the lookup and the Store sit in a section of the partition's mutex released by defer",
					"a fragment is stored into the partition's map outside a partition-mutex section that also covers the lookup (or the section is released early): two first writers each create a fragment, one replaces the other, and an acknowledged Put is left in the orphan — the primary copy is gone while the backups have it")
			}
		}
	}
	r.Floor(rule, cnt, 1)
}
