package rules

import (
	"go/token"

	"golang.org/x/tools/go/ssa"

	"olricvet/internal/core"
)

func init() {
	register(&Property{
		ID: "C12",
		Explain: "Static structural necessary conditions of 'a full scan returns every stable key exactly once': " +
			"(cursor-names-existing-table) a resume cursor pointing at the next table is built from cf+1 only on the edge where tablesByCoefficient[cf+1] exists, otherwise from the unmodified result of findCoefficient; " +
			"(scan-index-registration) tablesByCoefficient names exactly the live tables: never deleted under the (zeroed) coefficient of a recycled table, every Reset is preceded by unregistering, every table appended to the store is registered and a reused table is writable again; " +
			"(insert-into-writable-head) Put and PutRaw insert into the last table only after makeTable ran or after its state was found to be ReadWriteState: a recycled table left last by a transfer is not registered for scans and is skipped by Export; " +
			"(table-scan-cursor) Table.Scan/ScanRegexMatch return only the incoming cursor, offset+1 of the entry just yielded, or 0 where the iterator is exhausted; " +
			"(index-insert-retires-old / single-live-version / delete-pairing) the per-table scan index holds exactly the live versions (shared with C11); " +
			"(lookup-*) shared with C11; (page-dedup) the cluster iterator appends a key to the page only on the not-seen edge of its per-partition key set; " +
			"(partition-advance-guarded) the iterator leaves a partition only when both owner lists are exhausted and drops an owner only after it returned cursor 0. " +
			"NOT decided: termination and completeness of the cursor walk as a whole (value-level), owner bookkeeping of the cluster iterator, concurrent writes during iteration.",
		Run: func(r *core.Run) {
			kvInsertIntoWritableHead(r)
			kvScanCursor(r)
			kvScanIndexRegistration(r)
			tableScanCursor(r)
			tableInsertRetiresOld(r)
			kvSingleLiveVersion(r)
			tableDeletePairing(r)
			pageDedup(r)
			iteratorPartitionAdvance(r)
			c12MatchIsRegexp(r)
			c12ResumeRestartsNextTable(r)
			c12ScanAnswersForItsCopy(r)
			kvLookupCoversAllTables(r)
			kvLookupVisitsEveryTable(r)
			engineBuiltFromEffectiveConfig(r, "engine-built-from-effective-config")
		},
	})
}

// tableScanCursor: the cursor returned by Table.Scan / ScanRegexMatch.
func tableScanCursor(r *core.Run) {
	for _, name := range []string{tablePkg + ".(*Table).Scan", tablePkg + ".(*Table).ScanRegexMatch"} {
		fn := r.Need("table-scan-cursor", name)
		if fn == nil {
			continue
		}
		f := fn.SSA
		pt := passThrough(r.P)
		cnt := 0
		for _, ret := range core.Returns(f) {
			if !core.SuccessCapable(ret, pt) {
				continue
			}
			cnt++
			v := core.ResultValue(ret, 0)
			bad := ""
			seen := map[ssa.Value]bool{}
			var visit func(x ssa.Value, from *ssa.BasicBlock)
			visit = func(x ssa.Value, from *ssa.BasicBlock) {
				if seen[x] {
					return
				}
				seen[x] = true
				switch y := x.(type) {
				case *ssa.Phi:
					for i, e := range y.Edges {
						visit(e, y.Block().Preds[i])
					}
				case *ssa.Parameter:
				case *ssa.Const:
					if y.Value == nil || y.Int64() != 0 {
						bad = "a constant other than 0"
						return
					}
					// 0 means "scan finished": only where the iterator has no next element
					ok := false
					for _, c := range core.Conditions(from) {
						if call, isCall := c.Val.(*ssa.Call); isCall && !c.Truth && methodName(call) == "HasNext" {
							ok = true
						}
					}
					if !ok && from != f.Blocks[0] {
						bad = "cursor 0 (end of scan) is produced on an edge where the iterator may still have elements"
					}
				case *ssa.BinOp:
					k, isK := y.Y.(*ssa.Const)
					call, isCall := y.X.(*ssa.Call)
					if y.Op == token.ADD && isK && k.Int64() == 1 && isCall && methodName(call) == "Next" {
						return
					}
					bad = "arithmetic other than offset+1 of the entry just yielded (a cursor equal to the offset re-yields the entry, a larger step skips entries)"
				default:
					bad = "an unrecognised cursor expression"
				}
			}
			visit(v, ret.Block())
			r.Check(bad == "", "table-scan-cursor", name, site(r, instrPos(ret)),
				"the returned cursor is the incoming cursor, Next()+1, or 0 under !HasNext()", "the returned cursor is built from "+bad)
		}
		r.Floor("table-scan-cursor("+fn.Obj.Name()+")", cnt, 1)
	}
}

// pageDedup: in ClusterIterator.updateIterator a key is appended to the page only on the
// not-seen edge of partitionKeys and is then recorded.
func pageDedup(r *core.Run) {
	name := "olric.(*ClusterIterator).updateIterator"
	fn := r.Need("page-dedup", name)
	if fn == nil {
		return
	}
	f := fn.SSA
	cnt := 0
	core.Instrs(f, func(in ssa.Instruction) {
		c, ok := in.(*ssa.Call)
		if !ok {
			return
		}
		b, ok := c.Call.Value.(*ssa.Builtin)
		if !ok || b.Name() != "append" || core.LastField(c.Call.Args[0]) != "page" {
			return
		}
		cnt++
		guarded := false
		for _, cd := range core.Conditions(in.Block()) {
			ex, ok := cd.Val.(*ssa.Extract)
			if !ok || ex.Index != 1 || cd.Truth {
				continue
			}
			if lk, ok := ex.Tuple.(*ssa.Lookup); ok && lk.CommaOk && core.LastField(lk.X) == "partitionKeys" {
				guarded = true
			}
		}
		recorded := false
		for _, x := range in.Block().Instrs {
			if mu, ok := x.(*ssa.MapUpdate); ok && core.LastField(mu.Map) == "partitionKeys" {
				recorded = true
			}
		}
		r.Check(guarded && recorded, "page-dedup", name+" append(page, key)", site(r, instrPos(in)),
			"appended only when partitionKeys does not contain the key, which is then recorded",
			"a key is appended to the page without the seen-check (or without recording it): keys stored on several owners of a partition are yielded more than once")
	})
	r.Floor("page-dedup", cnt, 1)
}
