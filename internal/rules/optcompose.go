package rules

import (
	"fmt"
	"go/types"
	"sort"
	"strings"

	"golang.org/x/tools/go/ssa"

	"olricvet/internal/core"
)

// optionsCompose: the functional options of the public API (EX, PX, EXAT, PXAT, NX, XX,
// Count, Match, ...) are applied one after the other to one configuration struct, in the
// order the caller lists them. For the result to mean the same whatever the order, an
// option may only set fields of its own: it never overwrites the whole struct, and no two
// options of one option type write the same field. (An expiry option that resets the
// struct silently drops an NX/XX listed before it: the conditional Put becomes
// unconditional.)
func optionsCompose(r *core.Run) {
	const rule = "options-compose"
	p := r.P
	type optInfo struct {
		fn     *core.Fn
		fields map[string]bool
		whole  bool
		other  bool // writes through something that is not a field of the parameter
	}
	byType := map[string][]*optInfo{}
	cnt := 0
	for _, fn := range p.FuncList {
		if fn.SSA == nil || core.RelPkg(fn.Pkg.PkgPath) != "olric" || !fn.Obj.Exported() {
			continue
		}
		sig := fn.Obj.Type().(*types.Signature)
		if sig.Recv() != nil || sig.Results().Len() != 1 {
			continue
		}
		nt, ok := sig.Results().At(0).Type().(*types.Named)
		if !ok || !strings.HasSuffix(nt.Obj().Name(), "Option") {
			continue
		}
		ft, ok := nt.Underlying().(*types.Signature)
		if !ok || ft.Params().Len() != 1 || ft.Results().Len() != 0 {
			continue
		}
		if _, isPtr := ft.Params().At(0).Type().(*types.Pointer); !isPtr {
			continue
		}
		// the returned closure
		for _, an := range fn.SSA.AnonFuncs {
			if len(an.Params) != 1 {
				continue
			}
			info := &optInfo{fn: fn, fields: map[string]bool{}}
			par := ssa.Value(an.Params[0])
			core.Instrs(an, func(in ssa.Instruction) {
				st, ok := in.(*ssa.Store)
				if !ok {
					return
				}
				if st.Addr == par {
					info.whole = true
					return
				}
				// walk to the root of the address
				a := st.Addr
				first := ""
				for i := 0; i < 4; i++ {
					fa, isFA := a.(*ssa.FieldAddr)
					if !isFA {
						break
					}
					first = core.LastField(fa)
					a = fa.X
				}
				if a == par && first != "" {
					info.fields[first] = true
				}
			})
			byType[nt.Obj().Name()] = append(byType[nt.Obj().Name()], info)
			cnt++
		}
	}
	var tnames []string
	for t := range byType {
		tnames = append(tnames, t)
	}
	sort.Strings(tnames)
	for _, t := range tnames {
		opts := byType[t]
		owner := map[string]string{}
		for _, o := range opts {
			key := "option " + o.fn.Obj.Name() + " (" + t + ")"
			var clash []string
			for f := range o.fields {
				if prev, taken := owner[f]; taken && prev != o.fn.Obj.Name() {
					clash = append(clash, fmt.Sprintf("%s (also written by %s)", f, prev))
				} else {
					owner[f] = o.fn.Obj.Name()
				}
			}
			sort.Strings(clash)
			var fs []string
			for f := range o.fields {
				fs = append(fs, f)
			}
			sort.Strings(fs)
			switch {
			case o.whole:
				r.Bad(rule, key, site(r, o.fn.SSA.Pos()), "the option overwrites the whole configuration struct: every option listed before it (for example NX or XX before an expiry option) is silently dropped, so the same request means different things depending on option order")
			case len(clash) > 0:
				r.Bad(rule, key, site(r, o.fn.SSA.Pos()), "the option writes a field that belongs to another option: "+strings.Join(clash, ", ")+" — the outcome depends on the order in which the options are listed")
			default:
				r.OK(rule, key, site(r, o.fn.SSA.Pos()), "sets only its own fields: "+strings.Join(fs, ", "))
			}
		}
	}
	r.Floor(rule, cnt, 8)
}
