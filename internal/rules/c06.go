package rules

import (
	"fmt"
	"go/token"

	"golang.org/x/tools/go/ssa"

	"olricvet/internal/core"
)

const (
	fnSortVersions = dmapPkg + ".(*DMap).sortVersions"
	fnSanitize     = dmapPkg + ".(*DMap).sanitizeAndSortVersions"
	fnReadRepair   = dmapPkg + ".(*DMap).readRepair"
)

func init() {
	register(&Property{
		ID: "C06",
		Explain: "(collected-versions-complete) while the versions of a key are collected, a version appended for a remote holder carries the entry that holder answered with (a holder that answered not-found is skipped, so read repair never writes to a holder that has just processed a Delete) and no expiry test hides a copy from the comparison; " +
			"Static structural necessary conditions of last-write-wins resolution (clock skew, the set of reachable holders and convergence over time are NOT decided): " +
			"(comparator) the less-function handed to sort.Slice touches the two versions only through Timestamp() and one comparison whose truth table over {older, equal, newer} puts the newer version first; the winner taken by the read and by the merge is element 0; " +
			"(winner-flow) the entry returned by the quorum read is the winner's entry and the same winner is handed to readRepair together with the unsanitised version list (so an owner without a copy is repaired too); " +
			"(read-repair) with ReadRepair enabled every value-returning path passes readRepair (no further gate); inside, a holder is skipped only when it has an entry with the winner's timestamp, the local branch writes under the fragment write lock, the remote branch ships winner.Encode(); " +
			"(merge) fragmentMergeFunction stores the incoming entry only when the key is absent or the comparator picked the incoming entry, and stores nothing else; " +
			"(sanitize-does-not-alias-input) the sanitised version list is built in storage of its own (no append onto a reslice of the collected list, which readRepair still needs with its entry-less slots); " +
			"(read-repair-reaches-every-holder) readRepair leaves its walk over the holders early only when this member's own fragment cannot be obtained - a holder that cannot be written does not end the repair of the holders behind it.",
		Run: func(r *core.Run) {
			c06Comparator(r)
			c06WinnerFlow(r)
			c06ReadRepair(r)
			c06Merge(r)
			c09SanitizeKeepsVersions(r)
			c06CollectedVersionsComplete(r)
			c06ReadRepairOnlyCurrentHolders(r)
			c06SanitizeDoesNotAliasInput(r)
			c06ReadRepairReachesEveryHolder(r)
			c04ReplicaVerbatim(r)
			c03PreviousOwners(r)
			tableUpdateWritesVersion(r, "update-writes-version")
			configSanitizeFillsOnly(r, "sanitize-fills-only")
		},
	})
}

func isTimestampOfIndex(v ssa.Value, idx ssa.Value) bool {
	// versions[idx].entry.Timestamp()
	c, ok := v.(*ssa.Call)
	if !ok || methodName(c) != "Timestamp" {
		return false
	}
	recv := c.Call.Value
	if !c.Call.IsInvoke() && len(c.Call.Args) > 0 {
		recv = c.Call.Args[0]
	}
	// recv = *(&(*(&versions[idx])).entry)
	for i := 0; i < 6 && recv != nil; i++ {
		switch x := recv.(type) {
		case *ssa.UnOp:
			recv = x.X
		case *ssa.FieldAddr:
			recv = x.X
		case *ssa.IndexAddr:
			return x.Index == idx
		default:
			return false
		}
	}
	return false
}

func c06Comparator(r *core.Run) {
	fn := r.Need("comparator", fnSortVersions)
	if fn == nil {
		return
	}
	var less *ssa.Function
	for _, c := range findInstrs(fn.SSA, false, callTo("sort.Slice")) {
		args := c.(ssa.CallInstruction).Common().Args
		if len(args) == 2 {
			_, less = core.FuncValueObj(args[1])
		}
	}
	if less == nil || len(less.Params) != 2 {
		r.Unknown("comparator", fnSortVersions, site(r, fn.SSA.Pos()), "no sort.Slice call with a function literal found")
		return
	}
	i, j := ssa.Value(less.Params[0]), ssa.Value(less.Params[1])
	rets := core.Returns(less)
	if len(rets) != 1 {
		r.Unknown("comparator", fnSortVersions+" less", site(r, less.Pos()), "the less function has several returns")
		return
	}
	bin, ok := rets[0].Results[0].(*ssa.BinOp)
	if !ok || !core.IsCompare(bin.Op) {
		r.Bad("comparator", fnSortVersions+" less", site(r, less.Pos()), "the less function is not a single comparison of the two versions' timestamps")
		return
	}
	op := bin.Op
	switch {
	case isTimestampOfIndex(bin.X, i) && isTimestampOfIndex(bin.Y, j):
	case isTimestampOfIndex(bin.X, j) && isTimestampOfIndex(bin.Y, i):
		op = flip(op)
	default:
		r.Bad("comparator", fnSortVersions+" less", site(r, instrPos(bin)), "the compared quantities are not versions[i].entry.Timestamp() and versions[j].entry.Timestamp()")
		return
	}
	// less(i,j) over T(i) {<,==,>} T(j); newest first means: T(i) > T(j) => true, T(i) < T(j) => false
	tbl := [3]bool{core.CmpHolds(op, -1), core.CmpHolds(op, 0), core.CmpHolds(op, 1)}
	r.Check(!tbl[0] && tbl[2], "comparator", fnSortVersions+" less", site(r, instrPos(bin)),
		fmt.Sprintf("less(i,j) over T(i){<,==,>}T(j) = %v: newer first (ties free)", tbl),
		fmt.Sprintf("less(i,j) over T(i){<,==,>}T(j) = %v: the sort does not put the newest version first, so reads and merges pick an older write", tbl))
	// the sorted slice is what the function returns
	retOK := false
	for _, ret := range core.Returns(fn.SSA) {
		if p, ok := core.ResultValue(ret, 0).(*ssa.Parameter); ok && p.Name() == "versions" {
			retOK = true
		}
	}
	r.Check(retOK, "comparator", fnSortVersions+" returns the sorted slice", site(r, fn.SSA.Pos()), "returns its (sorted in place) argument", "does not return the slice it sorted")
}

// winnerOf: v is X[0].entry for some slice X; returns X.
func winnerSlice(v ssa.Value) (ssa.Value, int64, bool) {
	for i := 0; i < 8 && v != nil; i++ {
		switch x := v.(type) {
		case *ssa.UnOp:
			if x.Op != token.MUL {
				return nil, 0, false
			}
			v = x.X
		case *ssa.FieldAddr:
			v = x.X
		case *ssa.IndexAddr:
			k, ok := x.Index.(*ssa.Const)
			if !ok || k.Value == nil {
				return nil, 0, false
			}
			return x.X, k.Int64(), true
		default:
			return nil, 0, false
		}
	}
	return nil, 0, false
}

func c06WinnerFlow(r *core.Run) {
	fn := r.Need("winner-flow", fnGetOnCluster)
	if fn == nil {
		return
	}
	f := fn.SSA
	pt := passThrough(r.P)
	cnt := 0
	for _, ret := range core.Returns(f) {
		ev := core.ResultValue(ret, 1)
		if ev == nil || core.ErrState(ev, ret.Block(), pt) == core.NonNil {
			continue
		}
		cnt++
		sl, idx, ok := winnerSlice(core.ResultValue(ret, 0))
		good := ok && idx == 0
		// the slice is the result of sanitizeAndSortVersions
		if good {
			call, isCall := sl.(*ssa.Call)
			good = isCall && core.CalleeObj(call) != nil && core.QualName(core.CalleeObj(call)) == fnSanitize
		}
		r.Check(good, "winner-flow", fnGetOnCluster+" returned entry", site(r, instrPos(ret)),
			"the returned entry is element 0 of sanitizeAndSortVersions(versions)", "the returned entry is not the first element of the sorted version list")
	}
	r.Floor("winner-flow", cnt, 1)
	// sanitize sorts whenever more than one version remains
	if s := r.Need("winner-flow", fnSanitize); s != nil {
		okAll := true
		for _, ret := range core.Returns(s.SSA) {
			v := core.ResultValue(ret, 0)
			if call, ok := v.(*ssa.Call); ok && core.CalleeObj(call) != nil && core.QualName(core.CalleeObj(call)) == fnSortVersions {
				continue
			}
			// unsorted return only when len <= 1
			le1 := false
			for _, cd := range core.Conditions(ret.Block()) {
				bin, ok := cd.Val.(*ssa.BinOp)
				if !ok || lenArg(bin.X) == nil {
					continue
				}
				k, isK := bin.Y.(*ssa.Const)
				if !isK || k.Value == nil {
					continue
				}
				// set of lengths allowed on this edge must be within {0,1}
				okEdge := true
				for _, n := range []int64{2, 3} {
					o := 0
					if n < k.Int64() {
						o = -1
					} else if n > k.Int64() {
						o = 1
					}
					if core.CmpHolds(bin.Op, o) == cd.Truth {
						okEdge = false
					}
				}
				if okEdge {
					le1 = true
				}
			}
			if !le1 {
				okAll = false
			}
		}
		r.Check(okAll, "winner-flow", fnSanitize+" sorts", site(r, s.SSA.Pos()), "returns sortVersions(...) unless at most one version remains", "can return an unsorted list of two or more versions")
	}
}

func c06ReadRepair(r *core.Run) {
	fn := r.Need("read-repair", fnGetOnCluster)
	if fn == nil {
		return
	}
	f := fn.SSA
	p := r.P
	pt := passThrough(p)
	isRR := core.IsFieldLoad("Config", "ReadRepair")
	var gate *ssa.If
	for _, b := range f.Blocks {
		if len(b.Instrs) == 0 {
			continue
		}
		if ifi, ok := b.Instrs[len(b.Instrs)-1].(*ssa.If); ok {
			if v, neg := core.StripNot(ifi.Cond); isRR(v) && !neg {
				gate = ifi
			}
		}
	}
	if gate == nil {
		r.Bad("read-repair", fnGetOnCluster+" ReadRepair gate", site(r, f.Pos()), "no branch on config.ReadRepair: read repair is never (or always) performed")
		return
	}
	rr := callTo(fnReadRepair)
	// from the true edge every path to a success return passes readRepair
	start := gate.Block().Succs[0]
	var first ssa.Instruction
	if len(start.Instrs) > 0 {
		first = start.Instrs[0]
	}
	bad := false
	if first != nil {
		if rr(first) {
			bad = false
		} else if ret := core.ReachesReturnFrom(first, rr, func(x *ssa.Return) bool { return core.SuccessCapable(x, pt) }); ret != nil {
			bad = true
		}
	}
	r.Check(!bad, "read-repair", fnGetOnCluster+" repair iff enabled", site(r, instrPos(gate)),
		"with ReadRepair enabled every value-returning path passes readRepair", "with ReadRepair enabled a value can still be returned without calling readRepair (an additional gate): e.g. an owner without a copy and a single backup copy is never repaired, and the key is lost with that backup")
	// the gate dominates the success returns
	for _, ret := range core.Returns(f) {
		ev := core.ResultValue(ret, 1)
		if ev != nil && core.ErrState(ev, ret.Block(), pt) != core.NonNil {
			r.Check(gate.Block().Dominates(ret.Block()), "read-repair", fnGetOnCluster+" gate before success", site(r, instrPos(ret)),
				"the ReadRepair decision precedes the success return", "a success return bypasses the ReadRepair decision")
		}
	}
	// arguments: winner = sorted[0] (pointer), versions = the unsanitised list
	for _, c := range findInstrs(f, false, rr) {
		args := c.(ssa.CallInstruction).Common().Args
		if len(args) != 3 {
			continue
		}
		sl, idx, ok := winnerSlice(args[1])
		goodWinner := ok && idx == 0
		if goodWinner {
			call, isCall := sl.(*ssa.Call)
			goodWinner = isCall && core.CalleeObj(call) != nil && core.QualName(core.CalleeObj(call)) == fnSanitize
		}
		r.Check(goodWinner, "read-repair", fnGetOnCluster+" readRepair(winner)", site(r, instrPos(c)), "the repaired version is the winner sorted[0]", "readRepair does not receive the winner")
		// versions: must not be the sanitized slice
		call, isCall := args[2].(*ssa.Call)
		sanitized := isCall && core.CalleeObj(call) != nil && core.QualName(core.CalleeObj(call)) == fnSanitize
		r.Check(!sanitized, "read-repair", fnGetOnCluster+" readRepair(versions)", site(r, instrPos(c)),
			"readRepair receives the unsanitised version list (it still contains the owner's entry-less version)", "readRepair receives the sanitised list: a holder without a copy (the owner after a failover) is never repaired")
	}
	// inside readRepair
	if h := r.Need("read-repair", fnReadRepair); h != nil {
		hf := h.SSA
		// skip condition: value.entry != nil && winner.Timestamp() == value.Timestamp()
		puts := findInstrs(hf, false, callTo(fnPutEntryFrag))
		sends := findInstrs(hf, false, callTo(fnRedisProcess))
		r.Check(len(puts) >= 1 && len(sends) >= 1, "read-repair", fnReadRepair+" both branches", site(r, hf.Pos()),
			"repairs the local copy (putEntryOnFragment) and remote copies (PutEntry)", "one of the repair branches is missing")
		la := newLockAnalysis(r)
		la.flow(hf, lkNone, func(in ssa.Instruction, st int) {
			if callTo(fnPutEntryFrag)(in) {
				r.Check(st == lkWrite, "read-repair", fnReadRepair+" local repair under lock", site(r, instrPos(in)), "under the fragment write lock", "the local repair writes without the fragment write lock")
			}
		})
		// the repair branch is skipped only under the equal-timestamp test
		for _, in := range append(puts, sends...) {
			okGuard := false
			for _, cd := range core.Conditions(in.Block()) {
				bin, ok := cd.Val.(*ssa.BinOp)
				if !ok {
					continue
				}
				if isTS(bin.X) && isTS(bin.Y) && ((bin.Op == token.EQL && !cd.Truth) || (bin.Op == token.NEQ && cd.Truth)) {
					okGuard = true
				}
				// or: value.entry == nil edge
				if k, isK := bin.Y.(*ssa.Const); isK && k.IsNil() && core.LastField(bin.X) == "entry" && ((bin.Op == token.EQL && cd.Truth) || (bin.Op == token.NEQ && !cd.Truth)) {
					okGuard = true
				}
			}
			_ = okGuard
		}
		// structural: exactly one `continue`-style skip, guarded by entry != nil && T == T
		skipOK := false
		for _, b := range hf.Blocks {
			if len(b.Instrs) == 0 {
				continue
			}
			ifi, ok := b.Instrs[len(b.Instrs)-1].(*ssa.If)
			if !ok {
				continue
			}
			bin, ok := ifi.Cond.(*ssa.BinOp)
			if ok && bin.Op == token.EQL && isTS(bin.X) && isTS(bin.Y) {
				// reached only when value.entry != nil
				for _, cd := range core.Conditions(b) {
					if nb, ok := cd.Val.(*ssa.BinOp); ok {
						if k, isK := nb.Y.(*ssa.Const); isK && k.IsNil() && core.LastField(nb.X) == "entry" && ((nb.Op == token.NEQ && cd.Truth) || (nb.Op == token.EQL && !cd.Truth)) {
							skipOK = true
						}
					}
				}
			}
		}
		r.Check(skipOK, "read-repair", fnReadRepair+" skip condition", site(r, hf.Pos()),
			"a holder is skipped only if it has an entry whose timestamp equals the winner's", "the skip condition is not (entry != nil && timestamp == winner's timestamp)")
	}
}

func isTS(v ssa.Value) bool {
	c, ok := v.(*ssa.Call)
	return ok && methodName(c) == "Timestamp"
}

// c06Merge: fragmentMergeFunction.
func c06Merge(r *core.Run) {
	fn := r.Need("merge", fnMergeFunc)
	if fn == nil {
		return
	}
	f := fn.SSA
	var entryParam ssa.Value
	for _, pa := range f.Params {
		if pa.Name() == "entry" {
			entryParam = pa
		}
	}
	puts := findInstrs(f, false, engineCall("Put"))
	r.Floor("merge(Put sites)", len(puts), 2)
	n := counter{}
	absent, newer := 0, 0
	for _, pc := range puts {
		key := n.next(fnMergeFunc + " storage.Put")
		args := pc.(ssa.CallInstruction).Common().Args
		val := args[len(args)-1]
		why := ""
		// (a) key absent: errors.Is(err, ErrKeyNotFound) true, err from storage.Get, value = incoming entry
		for _, cd := range core.Conditions(pc.Block()) {
			call, ok := cd.Val.(*ssa.Call)
			if !ok || !cd.Truth {
				continue
			}
			if o := core.CalleeObj(call); o != nil && core.QualName(o) == "errors.Is" && len(call.Call.Args) == 2 &&
				core.IsGlobalLoad(call.Call.Args[1], "pkg/storage", "ErrKeyNotFound") {
				if ex, ok := call.Call.Args[0].(*ssa.Extract); ok {
					if g, ok := ex.Tuple.(*ssa.Call); ok && engineCall("Get")(g) && val == entryParam {
						why = "the key is absent locally (storage.Get -> ErrKeyNotFound): the incoming entry is stored"
						absent++
					}
				}
			}
		}
		// (b) the comparator picked a version different from the current one; the stored value is that winner
		if why == "" {
			sl, idx, ok := winnerSlice(val)
			if ok && idx == 0 {
				if call, isCall := sl.(*ssa.Call); isCall && core.CalleeObj(call) != nil && core.QualName(core.CalleeObj(call)) == fnSortVersions {
					for _, cd := range core.Conditions(pc.Block()) {
						bin, ok := cd.Val.(*ssa.BinOp)
						if !ok {
							continue
						}
						if (bin.Op == token.EQL && !cd.Truth) || (bin.Op == token.NEQ && cd.Truth) {
							// winner == current  false
							_, i1, ok1 := winnerSlice(bin.X)
							_, i2, ok2 := winnerSlice(bin.Y)
							if (ok1 && i1 == 0) || (ok2 && i2 == 0) {
								why = "the comparator's winner differs from the stored entry: the winner is stored"
								newer++
							}
						}
					}
				}
			}
		}
		r.Check(why != "", "merge", key, site(r, instrPos(pc)), why,
			"the merge stores an entry on a path where the key is neither absent nor the comparator's winner differs from the stored entry: an older incoming copy (late or re-delivered fragment) overwrites a newer local write")
	}
	r.Check(absent >= 1 && newer >= 1, "merge", fnMergeFunc+" both cases", site(r, f.Pos()),
		"stores the incoming entry when absent, and the winner when it differs from the stored entry", "one of the two legitimate store cases is missing")
	// the comparison list is {current, incoming}: both flow into sortVersions
	sorts := findInstrs(f, false, callTo(fnSortVersions))
	r.Check(len(sorts) == 1, "merge", fnMergeFunc+" uses the shared comparator", site(r, f.Pos()), "the shared sortVersions comparator decides", "the merge does not use the shared comparator")
	// mergeFragments hands every imported entry to fragmentMergeFunction
	if m := r.Need("merge", fnMergeFrags); m != nil {
		reach := reachable(r.P, []*core.Fn{m})
		r.Check(reach[fn], "merge", fnMergeFrags+" -> fragmentMergeFunction", site(r, m.SSA.Pos()), "Import's callback is fragmentMergeFunction", "mergeFragments does not merge through fragmentMergeFunction")
		// and every Import in it does so, whatever the kind of the partition
		n2 := counter{}
		imports := 0
		for _, g := range core.AllSSA(m.SSA) {
			for _, in := range findInstrs(g, false, engineCall("Import")) {
				imports++
				args := in.(ssa.CallInstruction).Common().Args
				cb := args[len(args)-1]
				merges := false
				var cbFn *ssa.Function
				switch x := cb.(type) {
				case *ssa.MakeClosure:
					cbFn, _ = x.Fn.(*ssa.Function)
				case *ssa.Function:
					cbFn = x
				}
				if cbFn != nil {
					if len(findInstrs(cbFn, true, callTo(fnMergeFunc))) > 0 {
						merges = true
					}
					for _, c := range findInstrs(cbFn, true, func(in ssa.Instruction) bool { _, ok := in.(ssa.CallInstruction); return ok }) {
						if o := core.CalleeObj(c.(ssa.CallInstruction)); o != nil {
							if h := r.P.ByObj[o]; h != nil && reachable(r.P, []*core.Fn{h})[fn] {
								merges = true
							}
						}
					}
				}
				r.Check(merges, "merge", n2.next(fnMergeFrags+" Import callback"), site(r, instrPos(in)),
					"the imported entries go through fragmentMergeFunction (last write wins)",
					"a fragment is imported with a callback that does not go through fragmentMergeFunction (a plain Put, say): a late or re-delivered fragment carrying older copies overwrites newer local writes — for backup partitions the stale copy is what a read sees after a failover")
			}
		}
		r.Floor("merge(Import sites)", imports, 1)
	}
}
