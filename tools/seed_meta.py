#!/usr/bin/env python3
"""Files the seeded changes produced by the sub-agents under /verif/seeded/<id>/.

usage: tools/seed_meta.py <seedout-root> <verify-results-dir> <matrix-file>

A change is filed only when its confirmation run (tools/verify_seed.sh, run by the
framework author in a scratch worktree, not by the sub-agent) says: demonstration
passes on the clean tree, fails with the change, the change compiles and the existing
suite passes with it.
"""
import json, os, re, shutil, sys, glob

SUMMARY = {
 "C01-m1": ("putOnCluster evaluates NX/XX/ttl-only conditions under RLock, releases it, then takes Lock for the write",
            "two concurrent clients on one key, one of them a conditional Put, interleaving in the window between RUnlock and Lock"),
 "C01-m2": ("KVStore.Put/PutRaw skip deleteFromOlderTables when the key was in the head table before the write loop",
            "multi-table fragment; the overwrite that triggers the roll-over to a new table; damage shows after a later Delete/compaction"),
 "C02-m1": ("balancer.backupCopies skips the partition's primary owner before the 'already belongs to me' test",
            "N == R members, primary fails, promoted backup owner ships its replica away; second failure loses the keys"),
 "C02-m2": ("fragment.Move: shadowed err, a failed send falls through to Drop",
            "a target that is down or refuses the fragment while still listed in the routing table"),
 "C03-m1": ("fragmentMergeFunction stores the incoming entry unconditionally",
            "a write to the key after the routing push but before the table holding its old version is moved"),
 "C03-m2": ("deleteOnCluster passes owners[:len-1] to deleteFromPreviousOwners, which itself starts at len-2",
            "hand-over in progress, key present on new and previous owner, Delete before the table moves"),
 "C04-m1": ("syncPutOnCluster writes locally, unlocks the fragment and replicates outside the lock (defer Lock)",
            "replica count >= 2, concurrent mutations of one key overtaking each other between local and backup write"),
 "C04-m2": ("KVStore.PutRaw retires older versions before the insert instead of after",
            "backup-side overwrite that rolls the table over, followed by a removal or compaction"),
 "C05-m1": ("syncPutOnCluster returns ErrWriteQuorum early when reachable backups < WriteQuorum, forgetting the local copy",
            "a listed backup that does not answer and a quorum where reachable backups == WriteQuorum-1"),
 "C05-m2": ("the second read-quorum check (after sanitizing) removed",
            "primary owner holds no copy while a backup does, ReadQuorum=2"),
 "C06-m1": ("fragment merge stores the incoming entry first when the local copy's ttl has elapsed",
            "newest write carries an already expired ttl and an older ttl-less copy arrives later / re-delivered"),
 "C06-m2": ("read repair gated by ReadRepair && len(sorted) > 1",
            "owner without a copy and exactly one other copy (ReplicaCount=2 failover layout)"),
 "C07-m1": ("putOnReplicaFragment silently drops an incoming entry whose timestamp is older than the stored one",
            "R>=2, two concurrent atomic callers whose lock order differs from their timestamp order"),
 "C07-m2": ("lock-name helper (dmap+':'+key) used by Incr/Decr and GetPut but not by IncrByFloat",
            "callers mixing Incr/Decr with IncrByFloat on one key"),
 "C08-m1": ("same edit as C01-m1 seen from the lock: NX check and write in different lock regions",
            "two lockers' NX puts for the same free key inside the check window"),
 "C08-m2": ("DMap.Lock passes the timeout through env.timeout instead of the PX option",
            "lock with timeout taken through a non-owner member (forwarded DM.PUT carries no expiry)"),
 "C09-m1": ("KVStore.UpdateTTL skips tables that are not in ReadWriteState",
            "fragment with at least two tables, Expire on a key living in an older table"),
 "C09-m2": ("checkPutConditions no longer evaluates the expiry for the ttl-only mode",
            "Expire on a key past its deadline before background eviction removed it"),
 "C10-m1": ("per-partition share computed by a helper that rounds up",
            "MaxKeys not divisible by the owned partition count, enough keys per partition"),
 "C10-m2": ("Table.Get/get refresh the last-access stamp only in writable tables",
            "MaxIdleDuration set, key written before a table roll-over and only read afterwards"),
 "C11-m1": ("makeTable's de-duplicated tail drops SetState(ReadWriteState) for a reused recycled table",
            "a recycled table is reused as head, then compaction or table export"),
 "C11-m2": ("same idea as C01-m2: 'key is already in the writable table' fast path checked before the roll-over",
            "overwrite of a head-table key at exactly the put that overflows the table"),
 "C12-m1": ("evictTable calls t.Reset() before delete(tablesByCoefficient, t.Coefficient())",
            "three or more tables, compaction fully evicts a table whose coefficient is not 0 while table 0 holds keys"),
 "C12-m2": ("ClusterIterator.next fetches once and treats an empty page as 'partition exhausted'",
            "multi-table fragment and an earlier table contributing nothing to a page (MATCH, or emptied by overwrites)"),
 "C13-m1": ("NodeUpdate handling replaced by Members().DeleteByName, dropping consistent.Remove",
            "member killed without leave and restarted under the same name before being declared dead"),
 "C13-m2": ("cluster client targets PrimaryOwners[0]",
            "a partition listing more than one owner (join while the previous owner still holds data)"),
 "C14-m1": ("subscriber connection id = len(conns)+1 instead of a monotonic counter",
            "A and B subscribe, A disconnects, new connection C subscribes to B's channel"),
 "C14-m2": ("Publish snapshots matching entries under RLock, unlocks, then writes",
            "unsubscribe processed between a PUBLISH's snapshot and its write to that connection"),
 "C15-m1": ("putCommandHandler converts EX to an integer duration before scaling",
            "EX that is not a whole number of seconds on any path other than embedded-on-owner"),
 "C15-m2": ("DM.DEL handler uses getDMap and answers 0 when the DMap handle does not exist on that member",
            "DM.DEL arriving at a member that owns none of the keys and never touched that DMap"),
 "C16-m1": ("scanOnFragment pre-allocates make([]string, 0, sc.Count)",
            "DM.SCAN COUNT negative or huge against a partition that holds a fragment of the DMap"),
 "C16-m2": ("subscriber loop answers protocol errors and continues",
            "connection in subscriber mode sending bytes redcon classifies as a protocol error"),
 "C17-m1": ("table.Encode copies t.inuse bytes of table memory instead of t.offset",
            "overwrite or delete some keys of a fragment, then migrate it"),
 "C17-m2": ("pipelined GetPut encodes into a pooled buffer released on return",
            "pipeline GetPut plus another pool user between queueing and Exec"),
 "C18-m1": ("Table.Get returns a sub-slice of table memory for read-only tables",
            "embedded client, key in a non-head table, caller mutates the bytes or compaction recycles the table"),
 "C18-m2": ("pipeline Put/GetPut pass []byte values through without copying",
            "pipeline API, []byte value, buffer reused between Put and Exec"),
 "C19-m1": ("destroyLocalDMap wipes fragments only in partitions this member currently owns",
            "Destroy between the routing-table update and the fragment move after a join"),
 "C19-m2": ("destroyFragmentOnPartition ranges over the fragment map and matches by name prefix",
            "two DMaps where the destroyed name is a proper prefix of the other"),
 "C20-m1": ("makeTable marks the old head read-only only when it allocates a new table, not when it reuses a recycled one",
            "a recycled table exists, the head fills up and the recycled one is reused, churn continues"),
 "C20-m2": ("doCompaction returns early unless this member is the primary owner, skipping the backup compaction too",
            "ReplicaCount >= 2, at least two members, churn on keys whose backups live on non-owners"),
}

def main():
    root, vres, matrix = sys.argv[1], sys.argv[2], sys.argv[3]
    det = {}
    for line in open(matrix):
        m = re.match(r'.*/(C\d+)/(m\d+): detected_by=\[(.*?)\] rules=\[(.*?)\]', line)
        if m:
            rules = [x for x in m.group(4).split() if not x.endswith('validate-before-replicate') or m.group(1) == 'C17']
            props = sorted({x.split('.')[0] for x in rules})
            det[m.group(1) + '-' + m.group(2)] = (props, rules)
    out_root = '/verif/seeded'
    os.makedirs(out_root, exist_ok=True)
    kept, skipped = [], []
    for sid in sorted(SUMMARY):
        c, m = sid.split('-')
        src = os.path.join(root, c, m)
        res = os.path.join(vres, '%s_%s.json' % (c, m))
        if not os.path.exists(res):
            skipped.append((sid, 'no confirmation run yet'))
            continue
        v = json.load(open(res))
        if not v.get('valid'):
            skipped.append((sid, 'confirmation failed: %s' % json.dumps(v)))
            continue
        dst = os.path.join(out_root, sid)
        os.makedirs(dst, exist_ok=True)
        shutil.copy(os.path.join(src, 'patch.diff'), os.path.join(dst, 'patch.diff'))
        demos = sorted(glob.glob(os.path.join(src, '*_test.go')))
        for d in demos:
            # stored with a .txt suffix so that nothing under /verif is mistaken for a package
            shutil.copy(d, os.path.join(dst, os.path.basename(d) + '.txt'))
        if os.path.exists(os.path.join(src, 'notes.md')):
            shutil.copy(os.path.join(src, 'notes.md'), os.path.join(dst, 'agent-notes.md'))
        what, needs = SUMMARY[sid]
        props, rules = det.get(sid, ([], []))
        meta = {
            "id": sid,
            "breaks": c,
            "change": what,
            "needs_to_manifest": needs,
            "source": "independent sub-agent given only the property text and a scratch worktree (nothing from /verif)",
            "demonstration": [os.path.basename(d) + '.txt' for d in demos],
            "demonstration_packages": v.get('demo_pkgs'),
            "demonstration_tests": v.get('demo_tests'),
            "confirmed_by_author": {
                "how": "tools/verify_seed.sh in a scratch worktree of /repo HEAD: demonstration on the clean tree, demonstration with the change, go build ./..., then the whole existing suite with the change (failing packages re-run up to twice because concurrent runs collide on ports)",
                "demo_on_clean_tree_exit": v.get('demo_clean_rc'),
                "demo_with_change_exit": v.get('demo_mutant_rc'),
                "build_with_change_exit": v.get('build_rc'),
                "existing_suite_with_change_exit": v.get('suite_with_mutant_rc'),
                "packages_rerun_for_flakes": v.get('suite_rerun_pkgs'),
            },
            "detected_by": props,
            "detecting_rules": rules,
        }
        json.dump(meta, open(os.path.join(dst, 'meta.json'), 'w'), indent=1)
        kept.append(sid)
    print("filed:", len(kept), kept)
    print("skipped:", skipped)

if __name__ == '__main__':
    main()
