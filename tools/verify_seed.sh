#!/bin/bash
# usage: tools/verify_seed.sh <seed-dir> <out-json>
# Confirms a seeded change in a scratch worktree: demo passes on the clean tree, fails
# with the change, and the existing suite passes with the change. Removes the worktree.
set -u
export GOFLAGS=-mod=mod GOPROXY=off GOSUMDB=off GOTOOLCHAIN=local
SD="$1"; OUT="$2"
WT=/tmp/vw/$(echo "$SD" | tr '/' '_')
rm -rf "$WT"; mkdir -p /tmp/vw
git -C /repo worktree prune
git -C /repo worktree add -q --detach "$WT" HEAD || exit 2
cleanup(){ git -C /repo worktree remove --force "$WT" 2>/dev/null; rm -rf "$WT"; [ "${KEEP_LOGS:-0}" = 1 ] || rm -rf "$WT.logs"; }
trap cleanup EXIT
LG="$WT.logs"; mkdir -p "$LG"
cd "$WT" || exit 2
demos=$(ls "$SD"/*_test.go 2>/dev/null)
[ -z "$demos" ] && { echo '{"error":"no demo test"}' > "$OUT"; exit 1; }
placed=""; pkgs=""
for d in $demos; do
  pk=$(grep -m1 '^package ' "$d" | awk '{print $2}')
  pk=${pk%_test}
  if [ "$pk" = "olric" ]; then dir=.; else dir=$(grep -rl --include=*.go "^package $pk\$" . | grep -v _test.go | xargs -n1 dirname | sort -u | grep -v '^./cmd' | head -1); fi
  [ -z "$dir" ] && { echo "{\"error\":\"cannot place $d\"}" > "$OUT"; exit 1; }
  cp "$d" "$dir/"; placed="$placed $dir/$(basename $d)"; pkgs="$pkgs $dir"
done
pkgs=$(echo $pkgs | tr ' ' '\n' | sort -u | tr '\n' ' ')
tests=$(grep -h '^func Test' $demos | sed 's/func \(Test[A-Za-z0-9_]*\).*/\1/' | paste -sd'|')
run_demo(){ go test -vet=off -count=1 -timeout 10m -run "^($tests)\$" $pkgs > "$1" 2>&1; echo $?; }
clean_rc=$(run_demo $LG/clean.log)
[ "$clean_rc" != 0 ] && clean_rc=$(run_demo $LG/clean.log)   # one retry for load flakes
git apply "$SD/patch.diff" || { echo '{"error":"patch does not apply"}' > "$OUT"; exit 1; }
mut_rc=$(run_demo $LG/mut.log)
[ "$mut_rc" = 0 ] && mut_rc=$(run_demo $LG/mut.log)          # schedule-dependent demos: second chance to fail
rm -f $placed
go build ./... > $LG/build.log 2>&1; build_rc=$?
go test -vet=off -count=1 -timeout 25m ./... > $LG/suite.log 2>&1; suite_rc=$?
failed=$(grep '^FAIL\s' $LG/suite.log | awk '{print $2}' | sed "s#github.com/olric-data/olric#.#" | tr '\n' ' ')
rerun=""
if [ $suite_rc != 0 ] && [ -n "$failed" ]; then
  go test -vet=off -count=1 -timeout 25m $failed > $LG/suite2.log 2>&1; suite_rc=$?; rerun="$failed"
  if [ $suite_rc != 0 ]; then go test -vet=off -count=1 -timeout 25m $failed > $LG/suite3.log 2>&1; suite_rc=$?; fi
fi
python3 - "$OUT" <<PY
import json,sys
json.dump({"demo_tests":"$tests","demo_pkgs":"$pkgs".split(),"demo_clean_rc":$clean_rc,"demo_mutant_rc":$mut_rc,"build_rc":$build_rc,"suite_with_mutant_rc":$suite_rc,"suite_rerun_pkgs":"$rerun".split(),
 "valid": $clean_rc==0 and $mut_rc!=0 and $build_rc==0 and $suite_rc==0}, open(sys.argv[1],'w'), indent=1)
PY
cat "$OUT"
