#!/usr/bin/env python3
"""Regenerates /verif/MANIFEST.json from the table below (kept here so that the
manifest stays consistent while checks are added)."""
import json, os, sys
V = os.path.dirname(os.path.dirname(os.path.abspath(__file__)))
props = [json.loads(l) for l in open(os.path.join(V, 'properties.jsonl'))]
# id -> (technique, level text)
claimed = json.load(open(os.path.join(V, 'tools', 'claims.json')))
na = json.load(open(os.path.join(V, 'tools', 'not_applicable.json')))
checks = []
for p in props:
    i = p['id']
    if i not in claimed:
        continue
    c = claimed[i]
    checks.append({
        "property_id": i,
        "quick_cmd": "./check %s quick" % i,
        "thorough_cmd": "./check %s thorough" % i,
        "evidence_file": "/verif/evidence/%s.json" % i,
        "replay_cmd_template": "bin/olricvet explain {path}",
        "engine": "olricvet",
        "level_claimed": {"category": "other", "design_ref": "DESIGN.md §3 " + i, "text": c["text"]},
        "level_note": c.get("note", "trusted: go/types and go/ssa of x/tools v0.29.0; third-party packages opaque; facts about redcon/go-redis listed in DESIGN §2.7"),
        "technique": c["technique"],
    })
m = {
    "version": 1,
    "setup_cmd": "cd /verif && GOFLAGS=-mod=mod GOPROXY=off GOSUMDB=off GOTOOLCHAIN=local GOWORK=off go build -o bin/olricvet ./cmd/olricvet",
    "hooks": {
        "guard": "verif",
        "enable": "none needed: the checks are static analyses of /repo's source; no instrumentation exists",
        "baseline_off_cmd": "cd /repo && go test -vet=off -count=1 -timeout 25m ./...",
        "source_commits": [],
        "add_only": True,
    },
    "engines": [{
        "name": "olricvet", "path": "/verif/cmd/olricvet",
        "serves_properties": [c["property_id"] for c in checks],
        "kind_free_text": "repository-specific static analyser (go/packages + go/types + go/ssa dominance, call-graph layering, sibling-table agreement, comparison truth tables); re-loads /repo's working tree on every run",
    }],
    "checks": checks,
    "notes": "All claims are at level 'other': each check decides structural necessary conditions of its property for all inputs/schedules at once (see DESIGN.md §3 for what is and is not decided). Genuine defects found on the pinned tree were repaired by 'fix:' commits in /repo and are listed in KNOWN_FINDINGS.txt.",
    "not_applicable": [{"property_id": k, "reason": v} for k, v in sorted(na.items()) if k not in claimed],
}
json.dump(m, open(os.path.join(V, 'MANIFEST.json'), 'w'), indent=1)
print("claimed:", [c["property_id"] for c in checks], "not_applicable:", [x["property_id"] for x in m["not_applicable"]])
