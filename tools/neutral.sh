#!/bin/bash
# usage: tools/neutral.sh [dir...]   (default: /verif/neutral/*)
# Precision regression of the checker itself: every patch under /verif/neutral is a
# behaviour-preserving refactoring of olric obtained from an independent sub-agent. Each is
# applied to a scratch copy of /repo's working tree (never to /repo), all twenty checks are run
# on the copy, and any alarm is printed as a FALSE ALARM of the checker. Patches that no longer
# apply to the current tree are reported and skipped. Scratch copies are removed at once.
cd /verif || exit 2
export GOFLAGS=-mod=mod GOPROXY=off GOSUMDB=off GOTOOLCHAIN=local
[ -x bin/olricvet ] || go build -o bin/olricvet ./cmd/olricvet || exit 2
dirs=("$@"); [ ${#dirs[@]} -eq 0 ] && dirs=(/verif/neutral/*)
rc=0
for d in "${dirs[@]}"; do
  P="$(realpath "$d")/patch.diff"; [ -f "$P" ] || continue
  S=$(mktemp -d /tmp/neutral.XXXXXX); O=$(mktemp -d /tmp/neutralout.XXXXXX)
  rsync -a --exclude .git /repo/ "$S/"
  cp KNOWN_FINDINGS.txt "$O/"
  if ! (cd "$S" && git apply "$P" 2>/dev/null); then echo "$d: does not apply to the current tree (skipped)"; rm -rf "$S" "$O"; continue; fi
  out=$(OLRIC_REPO="$S" VERIF_DIR="$O" bin/olricvet check all quick 2>&1)
  al=$(echo "$out" | grep -v '^VIOLATION\|^property=\|^KNOWN-FINDING' | cut -c1-300)
  if [ -z "$al" ]; then echo "$d: silent"; else echo "$d: FALSE ALARMS:"; echo "$al" | sed 's/^/    /'; rc=1; fi
  rm -rf "$S" "$O"
done
exit $rc
