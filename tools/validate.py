#!/usr/bin/env python3
import json, jsonschema, glob, sys
jsonschema.validate(json.load(open('/verif/MANIFEST.json')), json.load(open('/root/.vp/MANIFEST.schema.json')))
s = json.load(open('/root/.vp/EVIDENCE.schema.json'))
for f in sorted(glob.glob('/verif/evidence/*.json')):
    jsonschema.validate(json.load(open(f)), s)
print('manifest + %d evidence files valid' % len(glob.glob('/verif/evidence/*.json')))
