#!/bin/bash
# usage: tools/devtest.sh <patch.diff> [ids]   run a development build of the checker on a scratch copy of /repo with the patch applied
cd /verif || exit 2
export GOFLAGS=-mod=mod GOPROXY=off GOSUMDB=off GOTOOLCHAIN=local
go build -o /tmp/ov-dev ./cmd/olricvet || exit 2
S=$(mktemp -d /tmp/devtest.XXXXXX); O=$(mktemp -d /tmp/devtestout.XXXXXX)
rsync -a --exclude .git /repo/ "$S/"; cp KNOWN_FINDINGS.txt "$O/"
if [ -n "$1" ] && [ "$1" != "-" ]; then (cd "$S" && git apply "$1") || { echo "patch does not apply"; rm -rf "$S" "$O"; exit 2; }; fi
ids="${2:-all}"
for id in $ids; do OLRIC_REPO="$S" VERIF_DIR="$O" /tmp/ov-dev check $id quick 2>&1 | grep -v '^VIOLATION\|^KNOWN-FINDING' | cut -c1-${COLS:-400}; done
rm -rf "$S" "$O"
