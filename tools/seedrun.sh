#!/bin/sh
# usage: tools/seedrun.sh <patch.diff> <property>...   applies the patch to /repo, runs the checks, reverts.
# Output: one line per property: DETECTED / missed.
P="$1"; shift
cd /verif || exit 2
git -C /repo diff --quiet || { echo "/repo is dirty"; exit 2; }
git -C /repo apply "$P" || { echo "patch does not apply"; exit 2; }
trap 'git -C /repo checkout -- . ' EXIT
for id in "$@"; do
  cp -f /verif/KNOWN_FINDINGS.txt /tmp/vout/ 2>/dev/null; out=$(VERIF_DIR=/tmp/vout bin/olricvet check "$id" quick 2>&1); rc=$?
  if [ $rc -eq 1 ]; then echo "$id DETECTED: $(echo "$out" | grep -v '^VIOLATION' | grep 'violated\|undecided' | head -3 | cut -c1-220)"; 
  elif [ $rc -eq 0 ]; then echo "$id missed"; else echo "$id ERROR rc=$rc: $(echo "$out" | tail -3)"; fi
done
