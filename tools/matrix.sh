#!/bin/bash
# usage: tools/matrix.sh <seed-root>   prints, per seeded change, which property checks raise an alarm.
# Applies each patch to /repo, runs all checks on one load, reverts.
ROOT="${1:-/verif/seeded}"
cd /verif || exit 2
git -C /repo diff --quiet || { echo "/repo is dirty"; exit 2; }
for d in $(ls -d $ROOT/*/m* $ROOT/*-m* 2>/dev/null | sort); do
  P="$d/patch.diff"; [ -f "$P" ] || continue
  if ! git -C /repo apply "$P" 2>/dev/null; then echo "$d: PATCH-DOES-NOT-APPLY"; continue; fi
  cp -f /verif/KNOWN_FINDINGS.txt /tmp/vout/ 2>/dev/null; out=$(VERIF_DIR=/tmp/vout bin/olricvet check all quick 2>&1)
  git -C /repo checkout -- .
  det=$(echo "$out" | grep '^VIOLATION' | sed 's/VIOLATION property=\([A-Z0-9]*\).*/\1/' | sort -u | tr '\n' ' ')
  rules=$(echo "$out" | grep -v '^VIOLATION' | grep -o '\[C[0-9]*\.[a-z0-9-]*' | tr -d '[' | sort -u | tr '\n' ' ')
  echo "$d: detected_by=[${det}] rules=[${rules}]"
done
