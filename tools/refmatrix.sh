#!/bin/bash
# usage: tools/refmatrix.sh <dir-with-r*/patch.diff>...   behaviour-preserving refactorings: every alarm is a false alarm.
cd /verif || exit 2
git -C /repo diff --quiet || { echo "/repo is dirty"; exit 2; }
for d in "$@"; do
  for P in $(ls $d/r*/patch.diff 2>/dev/null | sort); do
    if ! git -C /repo apply "$P" 2>/dev/null; then echo "$P: PATCH-DOES-NOT-APPLY"; continue; fi
    cp -f /verif/KNOWN_FINDINGS.txt /tmp/vout/ 2>/dev/null
    out=$(VERIF_DIR=/tmp/vout bin/olricvet check all quick 2>&1)
    git -C /repo checkout -- . ; git -C /repo clean -fdq
    al=$(echo "$out" | grep -v '^VIOLATION\|^property=\|^KNOWN-FINDING' | cut -c1-330)
    if [ -z "$al" ]; then echo "$P: silent"; else echo "$P: FALSE ALARMS:"; echo "$al" | sed 's/^/    /'; fi
  done
done
