#!/bin/bash
# usage: tools/corpus.sh neutral|seeded [dir...]
#   neutral: every patch is a behaviour-preserving refactoring  -> any alarm is a FALSE ALARM of the checker
#   seeded : every patch breaks the property named in meta.json -> prints which checks detect it
# Each patch is applied to a scratch copy of /repo's working tree (never to /repo), all twenty
# checks run on the copy (four copies in parallel), and the copy is removed at once.
mode="$1"; shift
cd /verif || exit 2
export GOFLAGS=-mod=mod GOPROXY=off GOSUMDB=off GOTOOLCHAIN=local
[ -x bin/olricvet ] || go build -o bin/olricvet ./cmd/olricvet || exit 2
dirs=("$@"); [ ${#dirs[@]} -eq 0 ] && dirs=(/verif/$mode/*)
run1() {
  mode="$1"; d="$(realpath "$2")"; P="$d/patch.diff"; [ -f "$P" ] || return
  S=$(mktemp -d /tmp/corpus.XXXXXX); O=$(mktemp -d /tmp/corpusout.XXXXXX)
  rsync -a --exclude .git /repo/ "$S/"; cp /verif/KNOWN_FINDINGS.txt "$O/"
  if ! (cd "$S" && git apply "$P" 2>/dev/null); then echo "$(basename $d): does not apply to the current tree (skipped)"; rm -rf "$S" "$O"; return; fi
  out=$(OLRIC_REPO="$S" VERIF_DIR="$O" /verif/bin/olricvet check all quick 2>&1)
  if [ "$mode" = neutral ]; then
    al=$(echo "$out" | grep -v '^VIOLATION\|^property=\|^KNOWN-FINDING' | cut -c1-300)
    if [ -z "$al" ]; then echo "$(basename $d): silent"; else echo "$(basename $d): FALSE ALARMS:"; echo "$al" | sed 's/^/    /'; fi
  else
    det=$(echo "$out" | grep '^VIOLATION' | sed 's/VIOLATION property=\([A-Z0-9]*\).*/\1/' | sort -u | tr '\n' ' ')
    rules=$(echo "$out" | grep -v '^VIOLATION\|^KNOWN-FINDING' | grep -o '\[C[0-9]*\.[a-z0-9-]*' | tr -d '[' | sort -u | tr '\n' ' ')
    echo "$(basename $d): detected_by=[${det}] rules=[${rules}]"
  fi
  rm -rf "$S" "$O"
}
export -f run1
printf "%s\n" "${dirs[@]}" | xargs -P 4 -I{} bash -c "run1 $mode {}" | cat
