#!/usr/bin/env python3
"""Files later rounds of seeded changes under /verif/seeded/<Cxx>-m<k>/ (k >= 3).

usage: tools/seed_meta2.py <seedout-root> <verify-results-dir> <matrix-file>

<seedout-root>/<Cxx>/m<k>/ holds patch.diff, the demonstration test(s) and the sub-agent's
notes.md; the one-line description and the "needs to manifest" text are taken from those
notes. A change is filed only when the author's own confirmation run says: demonstration
passes on the clean tree, fails with the change, the change compiles, and the existing suite
passes with it.
"""
import json, os, re, shutil, sys, glob

def summarise(notes):
    lines = [l.rstrip() for l in open(notes)] if os.path.exists(notes) else []
    nonempty = [l.strip() for l in lines if l.strip()]
    title = nonempty[0].lstrip('# ').strip() if nonempty else ''
    title = re.sub(r'^C\d+\s*[/,-]?\s*(mutant|m)\s*\d+\s*[-—–:]*\s*', '', title, flags=re.I).strip()
    needs = ''
    for i, l in enumerate(lines):
        if re.search(r'(what (it|exactly) (is )?need|needs? to manifest|needed to manifest|^\W*needs?\W*$)', l, re.I):
            chunk = ' '.join(x.strip(' *-') for x in lines[i+1:i+8] if x.strip() and not x.startswith('#'))
            tail = re.sub(r'^.*?(need[a-z]*( to manifest)?\W*)', '', l, flags=re.I).strip(' *:-')
            needs = (tail + ' ' + chunk).strip()
            break
    return title[:300], needs[:500]

def main():
    root, vres, matrix = sys.argv[1], sys.argv[2], sys.argv[3]
    det = {}
    for line in open(matrix):
        m = re.match(r'\s*(C\d+)[-/](m\d+): detected_by=\[(.*?)\] rules=\[(.*?)\]', line)
        if m:
            rules = m.group(4).split()
            det[m.group(1) + '-' + m.group(2)] = (sorted({x.split('.')[0] for x in rules}), rules)
    kept, skipped = [], []
    for src in sorted(glob.glob(os.path.join(root, 'C*', 'm*'))):
        c, m = src.split('/')[-2], src.split('/')[-1]
        sid = c + '-' + m
        res = os.path.join(vres, '%s_%s.json' % (c, m))
        if not os.path.exists(res):
            skipped.append((sid, 'no confirmation run yet'))
            continue
        v = json.load(open(res))
        if not v.get('valid'):
            skipped.append((sid, 'confirmation failed'))
            continue
        dst = os.path.join('/verif/seeded', sid)
        os.makedirs(dst, exist_ok=True)
        shutil.copy(os.path.join(src, 'patch.diff'), os.path.join(dst, 'patch.diff'))
        demos = sorted(glob.glob(os.path.join(src, '*_test.go')))
        for d in demos:
            shutil.copy(d, os.path.join(dst, os.path.basename(d) + '.txt'))
        if os.path.exists(os.path.join(src, 'notes.md')):
            shutil.copy(os.path.join(src, 'notes.md'), os.path.join(dst, 'agent-notes.md'))
        what, needs = summarise(os.path.join(src, 'notes.md'))
        props, rules = det.get(sid, ([], []))
        meta = {
            "id": sid, "breaks": c, "change": what, "needs_to_manifest": needs,
            "source": "independent sub-agent given the property text, one-line descriptions of the earlier rounds' changes for that property, and a scratch worktree (nothing from /verif)",
            "demonstration": [os.path.basename(d) + '.txt' for d in demos],
            "demonstration_packages": v.get('demo_pkgs'), "demonstration_tests": v.get('demo_tests'),
            "confirmed_by_author": {
                "how": "tools/verify_seed.sh in a scratch worktree of /repo HEAD: demonstration on the clean tree, demonstration with the change, go build ./..., then the whole existing suite with the change (failing packages re-run up to twice because concurrent runs collide on ports)",
                "demo_on_clean_tree_exit": v.get('demo_clean_rc'), "demo_with_change_exit": v.get('demo_mutant_rc'),
                "build_with_change_exit": v.get('build_rc'), "existing_suite_with_change_exit": v.get('suite_with_mutant_rc'),
                "packages_rerun_for_flakes": v.get('suite_rerun_pkgs'),
            },
            "detected_by": props, "detecting_rules": rules,
        }
        json.dump(meta, open(os.path.join(dst, 'meta.json'), 'w'), indent=1)
        kept.append(sid)
    print("filed:", len(kept), kept)
    print("skipped:", skipped)

if __name__ == '__main__':
    main()
