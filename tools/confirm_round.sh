#!/bin/bash
# usage: tools/confirm_round.sh <seedout-root> <results-dir> [parallel]
# For every <seedout-root>/<Cxx>/out/<mK>/ (or <seedout-root>/<Cxx>/<mK>/) holding patch.diff and a
# *_test.go demonstration that has no result yet, runs tools/verify_seed.sh (scratch worktree:
# demonstration on the clean tree, with the change, build, whole suite with the change) and
# writes <results-dir>/<Cxx>_<mK>.json. Safe to call repeatedly while sub-agents are still delivering.
root="$1"; res="$2"; par="${3:-3}"
mkdir -p "$res"
todo=()
for d in "$root"/C*/out/m* "$root"/C*/m*; do
  [ -f "$d/patch.diff" ] || continue
  ls "$d"/*_test.go >/dev/null 2>&1 || continue
  [ -f "$d/notes.md" ] || continue
  c=$(echo "$d" | grep -o 'C[0-9][0-9]' | head -1); m=$(basename "$d")
  [ -f "$res/${c}_${m}.json" ] && continue
  todo+=("$d|$res/${c}_${m}.json")
done
[ ${#todo[@]} -eq 0 ] && { echo "nothing to confirm"; exit 0; }
printf "%s\n" "${todo[@]}" | xargs -P "$par" -I{} bash -c 'IFS="|" read -r d o <<< "{}"; /verif/tools/verify_seed.sh "$d" "$o" > "$o.log" 2>&1; echo "$(basename $o): $(python3 -c "import json;print(json.load(open(\"$o\")).get(\"valid\"))" 2>/dev/null)"'
